"""C20 — parameter cleaning is typed, pure and idempotent.

proof:          lean/MPilot/Props/C20.lean
correspondence: every parameter class/configuration x every raw value kind the parser or API can deliver, with and without
                a working directory: clean(v) and clean(clean(v)) of the real classes vs the model's `clean`
oracles:        documented result type; only parameter errors (MPilotError) are raised; determinism; idempotence
                (paths: under an absolute working directory); the raw argument and the program are left untouched; lists of 70-5000 items
                mixing number kinds: every cleaned item is the item cleaned alone (value and type), also through a command file
"""
import copy
import os

from .. import common, prog, progrun
from ..common import enc_str

PARAM_ERRORS = {"ParameterNotValid", "PathDoesNotExist", "InvalidRelativePath", "ResultDoesNotExist", "ResultTypeNotValid",
                "ResultNotFuzzy", "ResultIsFuzzy"}


def configs():
    from mpilot import params as P
    import numpy
    nc_types = {"Float": numpy.float64, "Integer": int, "Positive Float": numpy.float64, "Positive Integer": numpy.uint, "Fuzzy": numpy.float64}
    return [
        ("Parameter", P.Parameter()), ("String", P.StringParameter()), ("Number", P.NumberParameter()), ("Boolean", P.BooleanParameter()),
        ("Path(must_exist)", P.PathParameter(must_exist=True)), ("Path", P.PathParameter(must_exist=False)),
        ("Result", P.ResultParameter()), ("Result(Data)", P.ResultParameter(P.DataParameter())),
        ("Result(Data,fuzzy)", P.ResultParameter(P.DataParameter(), is_fuzzy=True)),
        ("Result(Data,nonfuzzy)", P.ResultParameter(P.DataParameter(), is_fuzzy=False)),
        ("Result(Boolean)", P.ResultParameter(P.BooleanParameter())), ("Result(String)", P.ResultParameter(P.StringParameter())),
        ("Result(Number)", P.ResultParameter(P.NumberParameter())), ("Result(Parameter)", P.ResultParameter(P.Parameter())),
        ("List(Number)", P.ListParameter(P.NumberParameter())), ("List(List(Number))", P.ListParameter(P.ListParameter(P.NumberParameter()))),
        ("List(Result(Data,nonfuzzy))", P.ListParameter(P.ResultParameter(P.DataParameter(), is_fuzzy=False))),
        ("List(String)", P.ListParameter(P.StringParameter())), ("List", P.ListParameter()), ("List(Boolean)", P.ListParameter(P.BooleanParameter())),
        ("Tuple", P.TupleParameter()), ("Data", P.DataParameter()), ("DataType", P.DataTypeParameter()),
        ("DataType(netcdf)", P.DataTypeParameter(valid_types=nc_types)), ("List(Path)", P.ListParameter(P.PathParameter(must_exist=False))),
    ]


NUM_STRINGS = ["5", " 7 ", "1_000", "1e5", "1.5", ".5", "5.", "+3", "-0", "-12", "0x10", "1__0", "_1", "1_", "abc", "", "true", "False", "TRUE",
               "tRuE", "0", "1", "2", "00", "1e-3", "1E+2", "1.5e3", "1_0.2_5", "1e", "e5", ".", "-", "+.5", "12abc", "1 2", "\t8\n", "0.0", "-0.0",
               "1e5x", "3.14159", "1.0", "100", "9999999999999999999999", "0.1", "Float", "Integer", "Positive Float", "float", "Fuzzy"]


def raw_values(rng, program, tmp):
    import numpy
    names = list(program.commands)
    cmds = list(program.commands.values())
    paths = ["a.csv", "sub/b.nc", "missing.csv", os.path.join(tmp, "a.csv"), os.path.join(tmp, "nope.csv"), "/", "", ".", "sub", "../x", "a.csv/", "é.csv"]
    scal = [0, 1, -1, 2, 7, 10 ** 20, -5, 0.0, 1.0, 0.5, -2.25, 1e-7, 3.0, True, False, None] + NUM_STRINGS + names + ["NoSuch", "P ", "p"] + paths
    scal += cmds + [float, int, numpy.float64, numpy.uint, str]
    vals = list(scal)
    for _ in range(60):
        k = rng.randrange(0, 4)
        vals.append([rng.choice(scal) for _ in range(k)])
    for _ in range(25):
        vals.append([[rng.choice(scal) for _ in range(rng.randrange(0, 3))] for _ in range(rng.randrange(0, 3))])
    vals += fixed_values(names, cmds)
    return vals


def fixed_values(names, cmds):
    """values that are always tried with every parameter: lists whose cleaned form compares equal to the raw form although the types differ
    (1 == True, 1.0 == 1), relative paths, empty and nested lists, tuples, dicts"""
    import numpy
    from decimal import Decimal
    from fractions import Fraction
    # numbers that are no built-in int/float (what numpy, a database driver or exact arithmetic hand to the programming interface), and commands of
    # ANOTHER program that carry the same result names as this program's
    other = make_program(None)
    foreign = [other.commands[n] for n in names[:2] if n in other.commands]
    return [[2, 1.0, 1], [0.0, -0.0], [1, 1.0], ["1", 1, "1.0"], [1, 0.5, 1.0, 2], [True, 1, 1.0], ["a.csv", "a.csv"], numpy.float32(2.5), numpy.float16(0.75), numpy.int8(3), numpy.float64(1.5), Decimal("2.5"), Fraction(5, 2), [numpy.float32(0.25), 2]] + foreign + [list(foreign)] + [
            [], [[]], [[1, 2], 3], [names[0], cmds[1]], [1, "2", 3.5], ["1", "x"], (1, 2), [1, 0, 1], [0], [True, 1], [1.0, 2], [[1, 0], [0]], ["a.csv"], ["a.csv", "sub/b.nc"],
            [True, False], ["true", 0], "a.csv", "sub/b.nc", "missing.csv",
            {}, {"a": "b"}, {"k": 1, "j": "v"}, {"1": "x", "3": "y"}, {"a": 1.5}, {"a": [1]}]


def make_program(wd):
    from mpilot.program import Program
    m = prog.testlib()
    p = Program(libraries=(prog.TESTLIB,), working_dir=wd)
    p.add_command(m.N, "P", {})
    p.add_command(m.D, "Dd", {})
    p.add_command(m.F, "Ff", {})
    p.add_command(m.D, "DdFin", {})
    p.add_command(m.N, "PFin", {})
    p.add_command(m.F, "FfFin", {})
    p.add_command(m.W, "WFin", {})
    p.add_command(m.NoOut, "Nout", {})
    p.add_command(m.W, "Wnot", {})
    for n in ("DdFin", "PFin", "FfFin", "WFin"):
        p.commands[n].run()
    return p


def enc_ctx(program, wd, exist_paths):
    import numpy
    infos = []
    for name, c in program.commands.items():
        out = "-" if c.output is None else prog.enc_spec(c.output)
        kind = "a" if (c.is_finished and isinstance(c._result, numpy.ndarray)) else "b" if (c.is_finished and isinstance(c._result, bool)) else "o"
        infos.append("%s %d %d %s %s" % (enc_str(name), 1 if getattr(c, "is_fuzzy", False) else 0, 1 if c.is_finished else 0, kind, out))
    return "%s %d %s" % (prog.enc_env(wd, exist_paths), len(infos), " ".join(infos))


def candidate_paths(wd, v):
    out = []
    if isinstance(v, (str, int)) and not isinstance(v, bool):
        s = str(v)
        out.append(s)
        if wd is not None:
            out.append(os.path.join(wd, s))
    elif isinstance(v, (list, tuple)):
        for x in v:
            out += candidate_paths(wd, x)
    return out


def typed_ok(name, param, v):
    """documented type of a cleaned value"""
    from mpilot import params as P
    from mpilot.commands import Command
    from numbers import Number
    cls = type(param)
    if cls is P.Parameter:
        return True
    if cls in (P.StringParameter, P.PathParameter):
        return isinstance(v, str)
    if cls is P.NumberParameter:
        return isinstance(v, Number)
    if cls is P.BooleanParameter:
        return isinstance(v, bool)
    if cls is P.ResultParameter:
        return isinstance(v, Command)
    if cls is P.ListParameter:
        return isinstance(v, list) and all(typed_ok(name, param.value_type, x) for x in v)
    if cls is P.TupleParameter:
        return isinstance(v, dict) and all(isinstance(k, str) and isinstance(x, str) for k, x in v.items())
    if cls is P.DataTypeParameter:
        return v in param.valid_types.values()
    if cls is P.DataParameter:
        import numpy
        return isinstance(v, numpy.ndarray)
    return True


def snap(v):
    """structural snapshot of a raw value (Command objects by identity)"""
    if isinstance(v, (list, tuple)):
        return (type(v).__name__, [snap(x) for x in v])
    if isinstance(v, dict):
        return ("dict", [(k, snap(x)) for k, x in v.items()])
    if hasattr(v, "result_name"):
        return ("cmd", id(v))
    return (type(v).__name__, repr(v))


def canon(v, param):
    """cleaned value in the model's canonical text, following the parameter's structure"""
    from mpilot import params as P
    cls = type(param)
    if cls is P.Parameter:
        return "r:" + prog.canon_raw(v)
    if cls is P.ListParameter and isinstance(v, (list, tuple)):
        return "l[" + ",".join(canon(x, param.value_type) for x in v) + "]"
    return prog.canon_clean(v)


def program_state(p):
    return [(n, c.is_finished, id(c._result), len(c.arguments)) for n, c in p.commands.items()]


def call_clean(param, v, program, line=17):
    from mpilot.exceptions import MPilotError
    try:
        return ("ok", param.clean(v, program, line))
    except MPilotError as e:
        return ("mp", type(e).__name__, getattr(e, "lineno", None))
    except Exception as e:
        return ("raw", type(e).__name__, str(e)[:80])


def same_clean(a, b):
    if a[0] != b[0]:
        return False
    if a[0] != "ok":
        return a[1] == b[1]
    x, y = a[1], b[1]
    try:
        return prog.canon_clean(x) == prog.canon_clean(y) and type(x) is type(y)
    except Exception:
        return x == y


def program_purity(ctx):
    """validation inside Program.run is cleaning too: after a run - successful, or stopped by a fault validated later - every argument still
    holds the raw value it was given"""
    from collections import OrderedDict
    from mpilot.program import Program
    from mpilot.arguments import Argument, ListArgument
    m = prog.testlib()
    rng = ctx.rng
    for i in range(ctx.budget(10, 200)):
        p = Program(libraries=(prog.TESTLIB,))
        p.add_command(m.N, "A", OrderedDict())
        p.add_command(m.N, "B", OrderedDict())
        args = OrderedDict()
        args["Many"] = ListArgument("Many", ["A", "B"], 3, [3, 3])
        if rng.random() < 0.5:
            args["Nested"] = ListArgument("Nested", [["A"], ["B", "A"]], 4, [4, 4])
        args["One"] = Argument("One", "A", 5)
        p.add_command(m.N, "C", args)
        sargs = OrderedDict()
        sargs["Req"] = Argument("Req", rng.choice(["7", 7, "x"]), 8)         # "x": a fault validated after the arguments of C
        sargs["Nums"] = ListArgument("Nums", ["1", 2, "3.5"], 9, [9, 9, 9])
        sargs["Bool"] = Argument("Bool", "true", 10)
        sargs["DType"] = Argument("DType", "Float", 11)
        p.add_command(m.S, "D", sargs)
        before = [(n, [(a.name, snap(a.value)) for a in c.arguments]) for n, c in p.commands.items()]
        rec = progrun.Recorder()
        with progrun.stubbed([m.N, m.S], rec):
            try:
                p.run()
                outcome = "ok"
            except Exception as e:
                outcome = type(e).__name__
        after = [(n, [(a.name, snap(a.value)) for a in c.arguments]) for n, c in p.commands.items()]
        ctx.case("program-purity %d %s" % (i, outcome), sample=None)
        ctx.count("program_purity_cases")
        if before != after:
            diff = next((x, y) for x, y in zip(before, after) if x != y)
            ctx.fail("Program.run (%s) altered raw arguments: %r became %r" % (outcome, diff[0], diff[1]), {"outcome": outcome})


ECHO_SRC = '''
from mpilot import params
from mpilot.commands import Command

GOT = {}


class Echo(Command):
    inputs = {
        "LT": params.ListParameter(params.TupleParameter(), required=False),
        "LG": params.ListParameter(required=False),
        "LN": params.ListParameter(params.ListParameter(params.NumberParameter()), required=False),
        "LS": params.ListParameter(params.StringParameter(), required=False),
        "T": params.TupleParameter(required=False),
        "N": params.NumberParameter(required=False),
    }

    def execute(self, **kw):
        GOT[self.result_name] = kw
        return True
'''


def from_file_values(ctx):
    """values as a command file delivers them (lists whose items are tuples, lists, numbers and words - wrapped by the loader in its argument objects):
    each list item is cleaned by the item type, tuples arrive as plain key-value maps, nested lists as lists, numbers given as text keep their kind and every digit"""
    import sys, types
    from mpilot.program import Program
    name = "mpverif_echo"
    if name not in sys.modules:
        m = types.ModuleType(name)
        sys.modules[name] = m
        exec(compile(ECHO_SRC, name, "exec"), m.__dict__)
    m = sys.modules[name]
    cases = [
        ("LT = [[a: 1], [b: 2, c: x]]", "LT", [{"a": "1"}, {"b": "2", "c": "x"}]),
        ("LT = [[a: 1]]", "LT", [{"a": "1"}]),
        ("LT = [[a: \"p q\"], [], [k: 2.5]]", "LT", [{"a": "p q"}, {}, {"k": "2.5"}]),
        ("LG = [[a: 1], 5, [1, 2], \"s\", 2.5, [[k: v]]]", "LG", [{"a": 1}, 5, [1, 2], "s", 2.5, [{"k": "v"}]]),
        ("LG = [[a: 1], [b: 2]]", "LG", [{"a": 1}, {"b": 2}]),
        ("LN = [[1, 2.5], [], [\"3\", \"4.0\"]]", "LN", [[1, 2.5], [], [3, 4.0]]),
        ("LS = [a, \"b c\", 5]", "LS", ["a", "b c", "5"]),
        ("T = [k: v, j: 2]", "T", {"k": "v", "j": "2"}),
        ("N = \"9007199254740993\"", "N", 9007199254740993),
        ("N = \"-18014398509481985\"", "N", -18014398509481985),
        ("N = \"123456789012345678901234567890\"", "N", 123456789012345678901234567890),
        ("N = 9007199254740993", "N", 9007199254740993),
        ("LN = [[\"9007199254740993\", 18014398509481985]]", "LN", [[9007199254740993, 18014398509481985]]),
        ("N = \"0.1\"", "N", 0.1), ("N = \"1e3\"", "N", 1000.0), ("N = \"7\"", "N", 7),
    ]

    def typed(v):
        if isinstance(v, dict):
            return ("dict", sorted((k, typed(x)) for k, x in v.items()))
        if isinstance(v, (list, tuple)):
            return ("list", [typed(x) for x in v])
        return (type(v).__name__, repr(v))
    for text, key, want in cases:
        src = "E = Echo(%s)\n" % text
        m.GOT.clear()
        try:
            p = Program.from_source(src, libraries=(name,))
            p.run()
            got = m.GOT["E"].get(key, "<absent>")
            outcome = "ok"
        except Exception as e:
            outcome, got = progrun.classify(e), None
        ctx.case("from-file " + src, sample={"source": src, "outcome": outcome, "handed": repr(got)[:200]})
        ctx.count("from_file_values")
        if outcome != "ok":
            ctx.fail("a documented value written in a command file is rejected: %s" % outcome, {"source": src, "parameter": key})
        elif typed(got) != typed(want):
            ctx.fail("the command is handed %r for %s; item by item, cleaned by the declared item type, the value is %r" % (got, key, want), {"source": src, "parameter": key})


def long_lists(ctx):
    """lists of any length are cleaned item by item (category codes, curve points and weights of generated models run to thousands of entries): a ladder
    of lengths, each list mixing the kinds a file or the programming interface delivers - integers, decimals, whole-valued decimals, integers no double
    holds, booleans, numbers given as text - with the odd kind at one position only, at a few, or throughout.  Every cleaned item is what the item cleaned
    alone gives (value and type), the raw list is untouched, cleaning the cleaned list changes nothing; the same through a command file"""
    import sys, types
    from mpilot import params as P
    from mpilot.program import Program
    rng = ctx.rng
    name = "mpverif_echo"
    if name not in sys.modules:
        m = types.ModuleType(name)
        sys.modules[name] = m
        exec(compile(ECHO_SRC, name, "exec"), m.__dict__)
    echo = sys.modules[name]
    program = make_program(None)
    big = 2 ** 53 + 1
    mixes = [
        ("integers, one decimal", lambda i, n: 7.5 if i == 7 else i),
        ("decimals, one integer", lambda i, n: 3 if i == n - 2 else i + 0.25),
        ("integers and whole-valued decimals", lambda i, n: float(i) if i % 3 == 0 else i),
        ("an integer beyond 2^53 next to decimals", lambda i, n: big if i == 0 else (0.5 if i == 1 else i % 5)),
        ("integers beyond 2^53, one decimal last", lambda i, n: 0.5 if i == n - 1 else big + 2 * i),
        ("integers beyond 2^64 among small ones", lambda i, n: 2 ** 64 + i if i % 97 == 5 else i),
        ("booleans among numbers", lambda i, n: (i % 2 == 0) if i % 50 == 3 else (i if i % 2 else i / 4.0)),
        ("numbers and numbers given as text", lambda i, n: [str(i), "%d.5" % i, i, i + 0.5, "%de1" % i][i % 5]),
        ("all integers", lambda i, n: i - 40),
        ("all decimals", lambda i, n: i / 8.0),
        ("random kinds", None),
    ]
    kinds = [lambda r: r.randrange(-10 ** 6, 10 ** 6), lambda r: r.randrange(-99, 99) / 4.0, lambda r: float(r.randrange(-99, 99)), lambda r: 2 ** 53 + 1 + r.randrange(1000),
             lambda r: str(r.randrange(1000)), lambda r: "%d.25" % r.randrange(100), lambda r: r.random() < 0.5]
    cfgs = [("List(Number)", P.ListParameter(P.NumberParameter()), lambda raw: raw), ("List", P.ListParameter(), lambda raw: raw),
            ("List(String)", P.ListParameter(P.StringParameter()), lambda raw: raw), ("List(Boolean)", P.ListParameter(P.BooleanParameter()), lambda raw: [x % 2 if isinstance(x, int) else ("true", "False", "1")[i % 3] for i, x in enumerate(raw)]),
            ("List(List(Number))", P.ListParameter(P.ListParameter(P.NumberParameter())), lambda raw: [raw, raw[:3], []])]
    lengths = [70, 300, 1500, 5000] + ([20000, 70000] if ctx.thorough else [])
    for n in lengths:
        for label, f in mixes:
            base = [f(i, n) for i in range(n)] if f is not None else [rng.choice(kinds)(rng) for _ in range(n)]
            for cname, param, shape in cfgs:
                if cname != "List(Number)" and (label not in ("integers, one decimal", "random kinds", "numbers and numbers given as text") or n > 5000):
                    continue
                raw = shape(base)
                before = snap(raw)
                r1 = call_clean(param, raw, program)
                desc = {"parameter": cname, "length": n, "mix": label, "raw_head": repr(raw)[:160]}
                ctx.case("long-list %s %d %s" % (cname, n, label), sample=None)
                ctx.count("long_list_cases")
                if r1[0] != "ok":
                    ctx.fail("%s.clean(<list of %d items: %s>) gives %r" % (cname, n, label, r1[:3]), desc)
                    continue
                if before != snap(raw):
                    ctx.fail("%s.clean altered its raw argument (a list of %d items: %s)" % (cname, n, label), desc)
                got = r1[1]
                if not isinstance(got, list) or len(got) != len(raw):
                    ctx.fail("%s.clean(<list of %d items>) returned %s of %s items" % (cname, n, type(got).__name__, len(got) if hasattr(got, "__len__") else "?"), desc)
                    continue
                pairs = list(zip(raw, got)) if cname != "List(List(Number))" else list(zip(raw[0], got[0]))
                item_type = param.value_type if cname != "List(List(Number))" else param.value_type.value_type
                for k, (item, got_item) in enumerate(pairs):
                    alone = call_clean(item_type, item, program)
                    if not same_clean(("ok", got_item), alone):
                        ctx.fail("%s.clean(<list of %d items: %s>): item %d, %r, came back as %r (%s); cleaned alone it gives %r (%s)" % (
                            cname, n, label, k, item, got_item, type(got_item).__name__, alone[1] if alone[0] == "ok" else alone[:2], type(alone[1]).__name__), desc)
                        break
                r3 = call_clean(param, got, program)
                if r3[0] != "ok" or snap(r3[1]) != snap(got):
                    ctx.fail("%s: cleaning the cleaned list of %d items (%s) changes it" % (cname, n, label), desc)
    # the same through a command file and a user command: every value reaches the body as the item cleaned alone
    num = P.NumberParameter()
    for n in (40, 1500, 4000):
        for label, f in mixes[:4]:
            base = [f(i, n) for i in range(n)]
            text = ", ".join('"%s"' % x if isinstance(x, str) else repr(x) for x in base)
            src = "E = Echo(\n    LN = [[%s],\n          [1, 2.5]]\n)\n" % text
            echo.GOT.clear()
            try:
                p = Program.from_source(src, libraries=(name,))
                p.run()
                got, outcome = echo.GOT["E"].get("LN"), "ok"
            except Exception as e:
                got, outcome = None, progrun.classify(e)
            ctx.case("long-list-file %d %s" % (n, label), sample=None)
            ctx.count("long_list_file_cases")
            desc = {"source": src[:300] + " ...", "length": n, "mix": label}
            want = [num.clean(x) for x in base]
            if outcome != "ok" or not isinstance(got, list) or len(got) != 2 or not isinstance(got[0], list):
                ctx.fail("a command file with a list of %d numbers (%s): %s, handed %r" % (n, label, outcome, repr(got)[:80]), desc)
            elif [(type(x).__name__, repr(x)) for x in got[0]] != [(type(x).__name__, repr(x)) for x in want]:
                k = next(i for i, (x, y) in enumerate(zip(got[0], want)) if (type(x), repr(x)) != (type(y), repr(y))) if len(got[0]) == len(want) else -1
                ctx.fail("a command file with a list of %d numbers (%s): item %d, written %r, reaches the command as %r; written in a short list it arrives as %r" % (
                    n, label, k, base[k], got[0][k] if k >= 0 else None, want[k]), desc)


def documented_datatypes(ctx):
    """data-type names are mapped to the documented types, per library, whatever other libraries the process has loaded"""
    import numpy
    from mpilot import params as P
    from mpilot.libraries.eems.csv.io import EEMSRead as CsvRead
    from mpilot.libraries.eems.netcdf.io import EEMSRead as NcRead
    std = {"Float": float, "Integer": int}
    nc = {"Float": numpy.float64, "Integer": int, "Positive Float": numpy.float64, "Positive Integer": numpy.uint, "Fuzzy": numpy.float64}
    names = ["Float", "Integer", "Positive Float", "Positive Integer", "Fuzzy", "float", "String"]
    subjects = [("DataTypeParameter()", P.DataTypeParameter(), std), ("csv EEMSRead.DataType", CsvRead.inputs["DataType"], std),
                ("csv EEMSRead.ReturnType", CsvRead.inputs["ReturnType"], std), ("netcdf EEMSRead.DataType", NcRead.inputs["DataType"], nc)]
    for label, param, table in subjects:
        for n in names:
            r = call_clean(param, n, None)
            ctx.case("datatype %s %s" % (label, n), sample=None)
            ctx.count("documented_datatype_cases")
            want = table.get(n)
            if want is None:
                if not (r[0] == "mp" and r[1] == "ParameterNotValid"):
                    ctx.fail("%s.clean(%r) = %r; %r is not a data type of this parameter (documented: %s)" % (label, n, r[:2], n, ", ".join(table)), {"parameter": label, "raw": n})
            elif not (r[0] == "ok" and r[1] is want):
                ctx.fail("%s.clean(%r) = %r, documented type %r" % (label, n, r[:2], want), {"parameter": label, "raw": n})
        for t in set(table.values()):
            r = call_clean(param, t, None)
            if not (r[0] == "ok" and r[1] is t):
                ctx.fail("%s: the already-clean value %r is not returned unchanged (%r)" % (label, t, r[:2]), {"parameter": label, "raw": repr(t)})


def run(ctx):
    ctx.check_proofs(["MPilot.Props.C20"])
    model = common.Model()
    tmp = common.tmpdir("mpv_c20_")
    os.makedirs(os.path.join(tmp, "sub"))
    for f in ("a.csv", "sub/b.nc"):
        open(os.path.join(tmp, f), "w").write("x\n1\n")
    lines, metas = [], []
    rng = ctx.rng
    # the parameter objects are created once and used for every program / working directory, as the library's own parameter objects are:
    # what an earlier cleaning did (under another working directory, for another program) must not influence a later one
    cfgs = configs()
    tmp2 = common.tmpdir("mpv_c20b_")
    open(os.path.join(tmp2, "a.csv"), "w").write("x\n2\n")
    wds = [None, tmp, "rel", "", tmp2]
    rng.shuffle(wds)
    for wd in wds + [wds[0]]:
        program = make_program(wd)
        raws = raw_values(rng, program, tmp)
        nfixed = len(fixed_values(list(program.commands), list(program.commands.values())))
        for cname, param in cfgs:
            pool = raws if ctx.thorough else rng.sample(raws[:-nfixed], min(len(raws) - nfixed, 55)) + raws[-nfixed:]
            for v in pool:
                before_raw = snap(v)
                before_state = program_state(program)
                files_before = sorted(os.listdir(tmp))
                r1 = call_clean(param, v, program)
                r2 = call_clean(param, v, program)
                desc = {"parameter": cname, "raw": repr(v)[:120], "working_dir": wd}
                ctx.count("param:" + cname.split("(")[0])
                ctx.count("outcome:" + (r1[0] if r1[0] == "ok" else r1[0] + ":" + r1[1]))
                # --- oracles on the implementation
                if r1[0] == "raw":
                    ctx.fail("%s.clean(%r) raised %s instead of a parameter error" % (cname, v, r1[1]), desc)
                elif r1[0] == "mp" and r1[1] not in PARAM_ERRORS:
                    ctx.fail("%s.clean(%r) raised %s, not one of the parameter errors" % (cname, v, r1[1]), desc)
                elif r1[0] == "mp" and r1[2] != 17:
                    ctx.fail("%s.clean(%r): error carries line %r, not the argument's line" % (cname, v, r1[2]), desc)
                elif r1[0] == "ok" and not typed_ok(cname, param, r1[1]):
                    ctx.fail("%s.clean(%r) returned %r: not the documented type" % (cname, v, r1[1]), desc)
                elif r1[0] == "ok" and cname.startswith("Path") and isinstance(v, str) and not os.path.isabs(v) and wd is not None \
                        and r1[1] != os.path.join(wd, v):
                    ctx.fail("%s.clean(%r) under working directory %r returned %r, not the path joined to the working directory" % (cname, v, wd, r1[1]), desc)
                elif r1[0] == "ok" and cname.startswith("Path") and isinstance(v, str) and not os.path.isabs(v) and wd is None:
                    ctx.fail("%s.clean(%r) without a working directory returned %r instead of raising InvalidRelativePath" % (cname, v, r1[1]), desc)
                from numbers import Number
                from mpilot.commands import Command
                if r1[0] == "ok" and cname.startswith("Number") and isinstance(v, Number) and r1[1] is not v:
                    ctx.fail("%s.clean(%r): a value that is a number already came back as %r (%s)" % (cname, v, r1[1], type(r1[1]).__name__), desc)
                if r1[0] == "ok" and cname.startswith("Result") and isinstance(v, Command) and r1[1] is not v:
                    ctx.fail("%s.clean(<command object %s>) returned another command object (of program %r)" % (cname, v.result_name, getattr(r1[1], "program", None)), desc)
                if r1[0] == "ok" and cname.startswith("List") and isinstance(v, (list, tuple)) and isinstance(r1[1], list) and len(r1[1]) == len(v):
                    # a list is cleaned item by item: each cleaned item is what cleaning that item alone gives (same value, same type), wherever it stands
                    for item, got_item in zip(v, r1[1]):
                        alone = call_clean(param.value_type, item, program)
                        if not same_clean(("ok", got_item), alone):
                            ctx.fail("%s.clean(%r): the item %r came back as %r (%s); cleaned alone it gives %r" % (
                                cname, v, item, got_item, type(got_item).__name__, alone[1] if alone[0] == "ok" else alone[:2]), desc)
                            break
                if not same_clean(r1, r2):
                    ctx.fail("%s.clean(%r) gives different answers on repetition: %r then %r" % (cname, v, r1[:2], r2[:2]), desc)
                if before_raw != snap(v):
                    ctx.fail("%s.clean altered its raw argument: %r -> %r" % (cname, before_raw, snap(v)), desc)
                if program_state(program) != before_state or sorted(os.listdir(tmp)) != files_before:
                    ctx.fail("%s.clean(%r) changed the program (a command ran, or a file appeared)" % (cname, v), desc)
                    program = make_program(wd)
                if r1[0] == "ok" and (wd is None or os.path.isabs(wd) or "Path" not in cname):
                    r3 = call_clean(param, r1[1], program)
                    if not same_clean(r1, r3):
                        ctx.fail("%s: cleaning the cleaned value %r gives %r" % (cname, r1[1], r3[:2]), desc)
                # --- correspondence
                try:
                    exist = sorted(set(p_ for p_ in candidate_paths(wd, v) if os.path.exists(p_)))
                    line = "clean %s %s %s" % (enc_ctx(program, wd, exist), prog.enc_spec(param), prog.enc_raw(v))
                except ValueError:
                    ctx.count("not_encodable")
                    continue
                lines.append(line)
                r3c = None
                if r1[0] == "ok":
                    r3c = call_clean(param, r1[1], program)
                metas.append((desc, cname, r1, r3c, param))
    documented_datatypes(ctx)
    program_purity(ctx)
    from_file_values(ctx)
    long_lists(ctx)
    answers = model.ask(lines)
    for line, (desc, cname, r1, r3, param), ans in zip(lines, metas, answers):
        impl = "ok" if r1[0] == "ok" else r1[0] + " " + r1[1]
        ctx.case(line, nontrivial=True, sample={"case": desc, "impl": impl + (" " + canon(r1[1], param)[:80] if r1[0] == "ok" else ""), "model": ans[:160]})
        if "OutsideModel" in ans.split(" | ")[0]:
            ctx.count("outside_model_domain")
            continue
        if ans.startswith("err "):
            if r1[0] != "mp" or r1[1] != ans[4:]:
                ctx.disagree("clean", desc, impl, ans)
            continue
        first, _, second = ans.partition(" | ")
        if r1[0] != "ok":
            ctx.disagree("clean", desc, impl, ans)
            continue
        got = canon(r1[1], param)
        if not prog.model_float_matches(got, first[3:]):
            ctx.disagree("clean", desc, "ok " + got, ans)
            continue
        if second and "OutsideModel" not in second and r3 is not None:
            if second.startswith("ok "):
                if r3[0] != "ok" or not prog.model_float_matches(canon(r3[1], param), second[3:]):
                    ctx.disagree("clean∘clean", desc, repr(r3[:2])[:100], second)
            elif r3[0] != "mp" or r3[1] != second[4:]:
                ctx.disagree("clean∘clean", desc, repr(r3[:2])[:100], second)
    return ctx.finish(
        rule="cases = (parameter class/configuration: 25 of them incl. nested lists and result parameters with output type and fuzziness, "
             "raw value: ints, floats, bools, numeric/boolean/path/name strings, lists, nested lists, dicts, Command objects, type objects, None; "
             "working directory: none / absolute / relative / empty); distinct by protocol line",
        explanation="theorems in Props/C20.lean (typed results, parameter errors only, idempotence) hold for the model's clean; clean and "
                    "clean∘clean of the real parameter classes are compared with the model on every case; type, error-kind, determinism, "
                    "idempotence and purity oracles run on the implementation")


def replay(path):
    import json
    print(json.dumps(json.load(open(path)), indent=1)[:4000])
    return 0
