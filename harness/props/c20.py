"""C20 — parameter cleaning is typed, pure and idempotent.

proof:          lean/MPilot/Props/C20.lean
correspondence: every parameter class/configuration x every raw value kind the parser or API can deliver, with and without
                a working directory: clean(v) and clean(clean(v)) of the real classes vs the model's `clean`
oracles:        documented result type; only parameter errors (MPilotError) are raised; determinism; idempotence
                (paths: under an absolute working directory); the raw argument and the program are left untouched; lists of 70-5000 items
                mixing number kinds: every cleaned item is the item cleaned alone (value and type), also through a command file;
                data arrays in every form numpy hands out (plain / masked without a mask array / with one / hard / shared / read-only / 0-d / the masked
                constant / subclasses, up to millions of cells) come back in the form they had and are left in it - directly, as list items, as the stored
                result of a finished producer; must-exist paths are judged against the disk and the current directory as they are at each cleaning
                (histories of cleanings and file-system changes on one parameter object, the command classes' own included)
"""
import copy
import os

from .. import common, prog, progrun
from ..common import enc_str

PARAM_ERRORS = {"ParameterNotValid", "PathDoesNotExist", "InvalidRelativePath", "ResultDoesNotExist", "ResultTypeNotValid",
                "ResultNotFuzzy", "ResultIsFuzzy"}


def configs():
    from mpilot import params as P
    import numpy
    nc_types = {"Float": numpy.float64, "Integer": int, "Positive Float": numpy.float64, "Positive Integer": numpy.uint, "Fuzzy": numpy.float64}
    return [
        ("Parameter", P.Parameter()), ("String", P.StringParameter()), ("Number", P.NumberParameter()), ("Boolean", P.BooleanParameter()),
        ("Path(must_exist)", P.PathParameter(must_exist=True)), ("Path", P.PathParameter(must_exist=False)),
        ("Result", P.ResultParameter()), ("Result(Data)", P.ResultParameter(P.DataParameter())),
        ("Result(Data,fuzzy)", P.ResultParameter(P.DataParameter(), is_fuzzy=True)),
        ("Result(Data,nonfuzzy)", P.ResultParameter(P.DataParameter(), is_fuzzy=False)),
        ("Result(Boolean)", P.ResultParameter(P.BooleanParameter())), ("Result(String)", P.ResultParameter(P.StringParameter())),
        ("Result(Number)", P.ResultParameter(P.NumberParameter())), ("Result(Parameter)", P.ResultParameter(P.Parameter())),
        ("List(Number)", P.ListParameter(P.NumberParameter())), ("List(List(Number))", P.ListParameter(P.ListParameter(P.NumberParameter()))),
        ("List(Result(Data,nonfuzzy))", P.ListParameter(P.ResultParameter(P.DataParameter(), is_fuzzy=False))),
        ("List(String)", P.ListParameter(P.StringParameter())), ("List", P.ListParameter()), ("List(Boolean)", P.ListParameter(P.BooleanParameter())),
        ("Tuple", P.TupleParameter()), ("Data", P.DataParameter()), ("DataType", P.DataTypeParameter()),
        ("DataType(netcdf)", P.DataTypeParameter(valid_types=nc_types)), ("List(Path)", P.ListParameter(P.PathParameter(must_exist=False))),
    ]


NUM_STRINGS = ["5", " 7 ", "1_000", "1e5", "1.5", ".5", "5.", "+3", "-0", "-12", "0x10", "1__0", "_1", "1_", "abc", "", "true", "False", "TRUE",
               "tRuE", "0", "1", "2", "00", "1e-3", "1E+2", "1.5e3", "1_0.2_5", "1e", "e5", ".", "-", "+.5", "12abc", "1 2", "\t8\n", "0.0", "-0.0",
               "1e5x", "3.14159", "1.0", "100", "9999999999999999999999", "0.1", "Float", "Integer", "Positive Float", "float", "Fuzzy"]


def raw_values(rng, program, tmp):
    import numpy
    names = list(program.commands)
    cmds = list(program.commands.values())
    paths = ["a.csv", "sub/b.nc", "missing.csv", os.path.join(tmp, "a.csv"), os.path.join(tmp, "nope.csv"), "/", "", ".", "sub", "../x", "a.csv/", "é.csv"]
    scal = [0, 1, -1, 2, 7, 10 ** 20, -5, 0.0, 1.0, 0.5, -2.25, 1e-7, 3.0, True, False, None] + NUM_STRINGS + names + ["NoSuch", "P ", "p"] + paths
    scal += cmds + [float, int, numpy.float64, numpy.uint, str]
    vals = list(scal)
    for _ in range(60):
        k = rng.randrange(0, 4)
        vals.append([rng.choice(scal) for _ in range(k)])
    for _ in range(25):
        vals.append([[rng.choice(scal) for _ in range(rng.randrange(0, 3))] for _ in range(rng.randrange(0, 3))])
    vals += fixed_values(names, cmds)
    return vals


def fixed_values(names, cmds):
    """values that are always tried with every parameter: lists whose cleaned form compares equal to the raw form although the types differ
    (1 == True, 1.0 == 1), relative paths, empty and nested lists, tuples, dicts"""
    import numpy
    from decimal import Decimal
    from fractions import Fraction
    # numbers that are no built-in int/float (what numpy, a database driver or exact arithmetic hand to the programming interface), and commands of
    # ANOTHER program that carry the same result names as this program's
    other = make_program(None)
    foreign = [other.commands[n] for n in names[:2] if n in other.commands]
    return [[2, 1.0, 1], [0.0, -0.0], [1, 1.0], ["1", 1, "1.0"], [1, 0.5, 1.0, 2], [True, 1, 1.0], ["a.csv", "a.csv"], numpy.float32(2.5), numpy.float16(0.75), numpy.int8(3), numpy.float64(1.5), Decimal("2.5"), Fraction(5, 2), [numpy.float32(0.25), 2]] + foreign + [list(foreign)] + [
            [], [[]], [[1, 2], 3], [names[0], cmds[1]], [1, "2", 3.5], ["1", "x"], (1, 2), [1, 0, 1], [0], [True, 1], [1.0, 2], [[1, 0], [0]], ["a.csv"], ["a.csv", "sub/b.nc"],
            [True, False], ["true", 0], "a.csv", "sub/b.nc", "missing.csv",
            {}, {"a": "b"}, {"k": 1, "j": "v"}, {"1": "x", "3": "y"}, {"a": 1.5}, {"a": [1]}]


def make_program(wd):
    from mpilot.program import Program
    m = prog.testlib()
    p = Program(libraries=(prog.TESTLIB,), working_dir=wd)
    p.add_command(m.N, "P", {})
    p.add_command(m.D, "Dd", {})
    p.add_command(m.F, "Ff", {})
    p.add_command(m.D, "DdFin", {})
    p.add_command(m.N, "PFin", {})
    p.add_command(m.F, "FfFin", {})
    p.add_command(m.W, "WFin", {})
    p.add_command(m.NoOut, "Nout", {})
    p.add_command(m.W, "Wnot", {})
    for n in ("DdFin", "PFin", "FfFin", "WFin"):
        p.commands[n].run()
    return p


def enc_ctx(program, wd, exist_paths):
    import numpy
    infos = []
    for name, c in program.commands.items():
        out = "-" if c.output is None else prog.enc_spec(c.output)
        kind = "a" if (c.is_finished and isinstance(c._result, numpy.ndarray)) else "b" if (c.is_finished and isinstance(c._result, bool)) else "o"
        infos.append("%s %d %d %s %s" % (enc_str(name), 1 if getattr(c, "is_fuzzy", False) else 0, 1 if c.is_finished else 0, kind, out))
    return "%s %d %s" % (prog.enc_env(wd, exist_paths), len(infos), " ".join(infos))


def candidate_paths(wd, v):
    out = []
    if isinstance(v, (str, int)) and not isinstance(v, bool):
        s = str(v)
        out.append(s)
        if wd is not None:
            out.append(os.path.join(wd, s))
    elif isinstance(v, (list, tuple)):
        for x in v:
            out += candidate_paths(wd, x)
    return out


def typed_ok(name, param, v):
    """documented type of a cleaned value"""
    from mpilot import params as P
    from mpilot.commands import Command
    from numbers import Number
    cls = type(param)
    if cls is P.Parameter:
        return True
    if cls in (P.StringParameter, P.PathParameter):
        return isinstance(v, str)
    if cls is P.NumberParameter:
        return isinstance(v, Number)
    if cls is P.BooleanParameter:
        return isinstance(v, bool)
    if cls is P.ResultParameter:
        return isinstance(v, Command)
    if cls is P.ListParameter:
        return isinstance(v, list) and all(typed_ok(name, param.value_type, x) for x in v)
    if cls is P.TupleParameter:
        return isinstance(v, dict) and all(isinstance(k, str) and isinstance(x, str) for k, x in v.items())
    if cls is P.DataTypeParameter:
        return v in param.valid_types.values()
    if cls is P.DataParameter:
        import numpy
        return isinstance(v, numpy.ndarray)
    return True


def snap(v):
    """structural snapshot of a raw value (Command objects by identity)"""
    if isinstance(v, (list, tuple)):
        return (type(v).__name__, [snap(x) for x in v])
    if isinstance(v, dict):
        return ("dict", [(k, snap(x)) for k, x in v.items()])
    if hasattr(v, "result_name"):
        return ("cmd", id(v))
    return (type(v).__name__, repr(v))


def canon(v, param):
    """cleaned value in the model's canonical text, following the parameter's structure"""
    from mpilot import params as P
    cls = type(param)
    if cls is P.Parameter:
        return "r:" + prog.canon_raw(v)
    if cls is P.ListParameter and isinstance(v, (list, tuple)):
        return "l[" + ",".join(canon(x, param.value_type) for x in v) + "]"
    return prog.canon_clean(v)


def program_state(p):
    return [(n, c.is_finished, id(c._result), len(c.arguments)) for n, c in p.commands.items()]


def call_clean(param, v, program, line=17):
    from mpilot.exceptions import MPilotError
    try:
        return ("ok", param.clean(v, program, line))
    except MPilotError as e:
        return ("mp", type(e).__name__, getattr(e, "lineno", None))
    except Exception as e:
        return ("raw", type(e).__name__, str(e)[:80])


def same_clean(a, b):
    if a[0] != b[0]:
        return False
    if a[0] != "ok":
        return a[1] == b[1]
    x, y = a[1], b[1]
    try:
        return prog.canon_clean(x) == prog.canon_clean(y) and type(x) is type(y)
    except Exception:
        return x == y


def program_purity(ctx):
    """validation inside Program.run is cleaning too: after a run - successful, or stopped by a fault validated later - every argument still
    holds the raw value it was given"""
    from collections import OrderedDict
    from mpilot.program import Program
    from mpilot.arguments import Argument, ListArgument
    m = prog.testlib()
    rng = ctx.rng
    for i in range(ctx.budget(10, 200)):
        p = Program(libraries=(prog.TESTLIB,))
        p.add_command(m.N, "A", OrderedDict())
        p.add_command(m.N, "B", OrderedDict())
        args = OrderedDict()
        args["Many"] = ListArgument("Many", ["A", "B"], 3, [3, 3])
        if rng.random() < 0.5:
            args["Nested"] = ListArgument("Nested", [["A"], ["B", "A"]], 4, [4, 4])
        args["One"] = Argument("One", "A", 5)
        p.add_command(m.N, "C", args)
        sargs = OrderedDict()
        sargs["Req"] = Argument("Req", rng.choice(["7", 7, "x"]), 8)         # "x": a fault validated after the arguments of C
        sargs["Nums"] = ListArgument("Nums", ["1", 2, "3.5"], 9, [9, 9, 9])
        sargs["Bool"] = Argument("Bool", "true", 10)
        sargs["DType"] = Argument("DType", "Float", 11)
        p.add_command(m.S, "D", sargs)
        before = [(n, [(a.name, snap(a.value)) for a in c.arguments]) for n, c in p.commands.items()]
        rec = progrun.Recorder()
        with progrun.stubbed([m.N, m.S], rec):
            try:
                p.run()
                outcome = "ok"
            except Exception as e:
                outcome = type(e).__name__
        after = [(n, [(a.name, snap(a.value)) for a in c.arguments]) for n, c in p.commands.items()]
        ctx.case("program-purity %d %s" % (i, outcome), sample=None)
        ctx.count("program_purity_cases")
        if before != after:
            diff = next((x, y) for x, y in zip(before, after) if x != y)
            ctx.fail("Program.run (%s) altered raw arguments: %r became %r" % (outcome, diff[0], diff[1]), {"outcome": outcome})


ECHO_SRC = '''
from mpilot import params
from mpilot.commands import Command

GOT = {}


class Echo(Command):
    inputs = {
        "LT": params.ListParameter(params.TupleParameter(), required=False),
        "LG": params.ListParameter(required=False),
        "LN": params.ListParameter(params.ListParameter(params.NumberParameter()), required=False),
        "LS": params.ListParameter(params.StringParameter(), required=False),
        "T": params.TupleParameter(required=False),
        "N": params.NumberParameter(required=False),
    }

    def execute(self, **kw):
        GOT[self.result_name] = kw
        return True
'''


def from_file_values(ctx):
    """values as a command file delivers them (lists whose items are tuples, lists, numbers and words - wrapped by the loader in its argument objects):
    each list item is cleaned by the item type, tuples arrive as plain key-value maps, nested lists as lists, numbers given as text keep their kind and every digit"""
    import sys, types
    from mpilot.program import Program
    name = "mpverif_echo"
    if name not in sys.modules:
        m = types.ModuleType(name)
        sys.modules[name] = m
        exec(compile(ECHO_SRC, name, "exec"), m.__dict__)
    m = sys.modules[name]
    cases = [
        ("LT = [[a: 1], [b: 2, c: x]]", "LT", [{"a": "1"}, {"b": "2", "c": "x"}]),
        ("LT = [[a: 1]]", "LT", [{"a": "1"}]),
        ("LT = [[a: \"p q\"], [], [k: 2.5]]", "LT", [{"a": "p q"}, {}, {"k": "2.5"}]),
        ("LG = [[a: 1], 5, [1, 2], \"s\", 2.5, [[k: v]]]", "LG", [{"a": 1}, 5, [1, 2], "s", 2.5, [{"k": "v"}]]),
        ("LG = [[a: 1], [b: 2]]", "LG", [{"a": 1}, {"b": 2}]),
        ("LN = [[1, 2.5], [], [\"3\", \"4.0\"]]", "LN", [[1, 2.5], [], [3, 4.0]]),
        ("LS = [a, \"b c\", 5]", "LS", ["a", "b c", "5"]),
        ("T = [k: v, j: 2]", "T", {"k": "v", "j": "2"}),
        ("N = \"9007199254740993\"", "N", 9007199254740993),
        ("N = \"-18014398509481985\"", "N", -18014398509481985),
        ("N = \"123456789012345678901234567890\"", "N", 123456789012345678901234567890),
        ("N = 9007199254740993", "N", 9007199254740993),
        ("LN = [[\"9007199254740993\", 18014398509481985]]", "LN", [[9007199254740993, 18014398509481985]]),
        ("N = \"0.1\"", "N", 0.1), ("N = \"1e3\"", "N", 1000.0), ("N = \"7\"", "N", 7),
    ]

    def typed(v):
        if isinstance(v, dict):
            return ("dict", sorted((k, typed(x)) for k, x in v.items()))
        if isinstance(v, (list, tuple)):
            return ("list", [typed(x) for x in v])
        return (type(v).__name__, repr(v))
    for text, key, want in cases:
        src = "E = Echo(%s)\n" % text
        m.GOT.clear()
        try:
            p = Program.from_source(src, libraries=(name,))
            p.run()
            got = m.GOT["E"].get(key, "<absent>")
            outcome = "ok"
        except Exception as e:
            outcome, got = progrun.classify(e), None
        ctx.case("from-file " + src, sample={"source": src, "outcome": outcome, "handed": repr(got)[:200]})
        ctx.count("from_file_values")
        if outcome != "ok":
            ctx.fail("a documented value written in a command file is rejected: %s" % outcome, {"source": src, "parameter": key})
        elif typed(got) != typed(want):
            ctx.fail("the command is handed %r for %s; item by item, cleaned by the declared item type, the value is %r" % (got, key, want), {"source": src, "parameter": key})


def long_lists(ctx):
    """lists of any length are cleaned item by item (category codes, curve points and weights of generated models run to thousands of entries): a ladder
    of lengths, each list mixing the kinds a file or the programming interface delivers - integers, decimals, whole-valued decimals, integers no double
    holds, booleans, numbers given as text - with the odd kind at one position only, at a few, or throughout.  Every cleaned item is what the item cleaned
    alone gives (value and type), the raw list is untouched, cleaning the cleaned list changes nothing; the same through a command file"""
    import sys, types
    from mpilot import params as P
    from mpilot.program import Program
    rng = ctx.rng
    name = "mpverif_echo"
    if name not in sys.modules:
        m = types.ModuleType(name)
        sys.modules[name] = m
        exec(compile(ECHO_SRC, name, "exec"), m.__dict__)
    echo = sys.modules[name]
    program = make_program(None)
    big = 2 ** 53 + 1
    mixes = [
        ("integers, one decimal", lambda i, n: 7.5 if i == 7 else i),
        ("decimals, one integer", lambda i, n: 3 if i == n - 2 else i + 0.25),
        ("integers and whole-valued decimals", lambda i, n: float(i) if i % 3 == 0 else i),
        ("an integer beyond 2^53 next to decimals", lambda i, n: big if i == 0 else (0.5 if i == 1 else i % 5)),
        ("integers beyond 2^53, one decimal last", lambda i, n: 0.5 if i == n - 1 else big + 2 * i),
        ("integers beyond 2^64 among small ones", lambda i, n: 2 ** 64 + i if i % 97 == 5 else i),
        ("booleans among numbers", lambda i, n: (i % 2 == 0) if i % 50 == 3 else (i if i % 2 else i / 4.0)),
        ("numbers and numbers given as text", lambda i, n: [str(i), "%d.5" % i, i, i + 0.5, "%de1" % i][i % 5]),
        ("all integers", lambda i, n: i - 40),
        ("all decimals", lambda i, n: i / 8.0),
        ("random kinds", None),
    ]
    kinds = [lambda r: r.randrange(-10 ** 6, 10 ** 6), lambda r: r.randrange(-99, 99) / 4.0, lambda r: float(r.randrange(-99, 99)), lambda r: 2 ** 53 + 1 + r.randrange(1000),
             lambda r: str(r.randrange(1000)), lambda r: "%d.25" % r.randrange(100), lambda r: r.random() < 0.5]
    cfgs = [("List(Number)", P.ListParameter(P.NumberParameter()), lambda raw: raw), ("List", P.ListParameter(), lambda raw: raw),
            ("List(String)", P.ListParameter(P.StringParameter()), lambda raw: raw), ("List(Boolean)", P.ListParameter(P.BooleanParameter()), lambda raw: [x % 2 if isinstance(x, int) else ("true", "False", "1")[i % 3] for i, x in enumerate(raw)]),
            ("List(List(Number))", P.ListParameter(P.ListParameter(P.NumberParameter())), lambda raw: [raw, raw[:3], []])]
    lengths = [70, 300, 1500, 5000] + ([20000, 70000] if ctx.thorough else [])
    for n in lengths:
        for label, f in mixes:
            base = [f(i, n) for i in range(n)] if f is not None else [rng.choice(kinds)(rng) for _ in range(n)]
            for cname, param, shape in cfgs:
                if cname != "List(Number)" and (label not in ("integers, one decimal", "random kinds", "numbers and numbers given as text") or n > 5000):
                    continue
                raw = shape(base)
                before = snap(raw)
                r1 = call_clean(param, raw, program)
                desc = {"parameter": cname, "length": n, "mix": label, "raw_head": repr(raw)[:160]}
                ctx.case("long-list %s %d %s" % (cname, n, label), sample=None)
                ctx.count("long_list_cases")
                if r1[0] != "ok":
                    ctx.fail("%s.clean(<list of %d items: %s>) gives %r" % (cname, n, label, r1[:3]), desc)
                    continue
                if before != snap(raw):
                    ctx.fail("%s.clean altered its raw argument (a list of %d items: %s)" % (cname, n, label), desc)
                got = r1[1]
                if not isinstance(got, list) or len(got) != len(raw):
                    ctx.fail("%s.clean(<list of %d items>) returned %s of %s items" % (cname, n, type(got).__name__, len(got) if hasattr(got, "__len__") else "?"), desc)
                    continue
                pairs = list(zip(raw, got)) if cname != "List(List(Number))" else list(zip(raw[0], got[0]))
                item_type = param.value_type if cname != "List(List(Number))" else param.value_type.value_type
                for k, (item, got_item) in enumerate(pairs):
                    alone = call_clean(item_type, item, program)
                    if not same_clean(("ok", got_item), alone):
                        ctx.fail("%s.clean(<list of %d items: %s>): item %d, %r, came back as %r (%s); cleaned alone it gives %r (%s)" % (
                            cname, n, label, k, item, got_item, type(got_item).__name__, alone[1] if alone[0] == "ok" else alone[:2], type(alone[1]).__name__), desc)
                        break
                r3 = call_clean(param, got, program)
                if r3[0] != "ok" or snap(r3[1]) != snap(got):
                    ctx.fail("%s: cleaning the cleaned list of %d items (%s) changes it" % (cname, n, label), desc)
    # the same through a command file and a user command: every value reaches the body as the item cleaned alone
    num = P.NumberParameter()
    for n in (40, 1500, 4000):
        for label, f in mixes[:4]:
            base = [f(i, n) for i in range(n)]
            text = ", ".join('"%s"' % x if isinstance(x, str) else repr(x) for x in base)
            src = "E = Echo(\n    LN = [[%s],\n          [1, 2.5]]\n)\n" % text
            echo.GOT.clear()
            try:
                p = Program.from_source(src, libraries=(name,))
                p.run()
                got, outcome = echo.GOT["E"].get("LN"), "ok"
            except Exception as e:
                got, outcome = None, progrun.classify(e)
            ctx.case("long-list-file %d %s" % (n, label), sample=None)
            ctx.count("long_list_file_cases")
            desc = {"source": src[:300] + " ...", "length": n, "mix": label}
            want = [num.clean(x) for x in base]
            if outcome != "ok" or not isinstance(got, list) or len(got) != 2 or not isinstance(got[0], list):
                ctx.fail("a command file with a list of %d numbers (%s): %s, handed %r" % (n, label, outcome, repr(got)[:80]), desc)
            elif [(type(x).__name__, repr(x)) for x in got[0]] != [(type(x).__name__, repr(x)) for x in want]:
                k = next(i for i, (x, y) in enumerate(zip(got[0], want)) if (type(x), repr(x)) != (type(y), repr(y))) if len(got[0]) == len(want) else -1
                ctx.fail("a command file with a list of %d numbers (%s): item %d, written %r, reaches the command as %r; written in a short list it arrives as %r" % (
                    n, label, k, base[k], got[0][k] if k >= 0 else None, want[k]), desc)


def documented_datatypes(ctx):
    """data-type names are mapped to the documented types, per library, whatever other libraries the process has loaded"""
    import numpy
    from mpilot import params as P
    from mpilot.libraries.eems.csv.io import EEMSRead as CsvRead
    from mpilot.libraries.eems.netcdf.io import EEMSRead as NcRead
    std = {"Float": float, "Integer": int}
    nc = {"Float": numpy.float64, "Integer": int, "Positive Float": numpy.float64, "Positive Integer": numpy.uint, "Fuzzy": numpy.float64}
    names = ["Float", "Integer", "Positive Float", "Positive Integer", "Fuzzy", "float", "String"]
    subjects = [("DataTypeParameter()", P.DataTypeParameter(), std), ("csv EEMSRead.DataType", CsvRead.inputs["DataType"], std),
                ("csv EEMSRead.ReturnType", CsvRead.inputs["ReturnType"], std), ("netcdf EEMSRead.DataType", NcRead.inputs["DataType"], nc)]
    for label, param, table in subjects:
        for n in names:
            r = call_clean(param, n, None)
            ctx.case("datatype %s %s" % (label, n), sample=None)
            ctx.count("documented_datatype_cases")
            want = table.get(n)
            if want is None:
                if not (r[0] == "mp" and r[1] == "ParameterNotValid"):
                    ctx.fail("%s.clean(%r) = %r; %r is not a data type of this parameter (documented: %s)" % (label, n, r[:2], n, ", ".join(table)), {"parameter": label, "raw": n})
            elif not (r[0] == "ok" and r[1] is want):
                ctx.fail("%s.clean(%r) = %r, documented type %r" % (label, n, r[:2], want), {"parameter": label, "raw": n})
        for t in set(table.values()):
            r = call_clean(param, t, None)
            if not (r[0] == "ok" and r[1] is t):
                ctx.fail("%s: the already-clean value %r is not returned unchanged (%r)" % (label, t, r[:2]), {"parameter": label, "raw": repr(t)})


# ---------------------------------------------------------------- data arrays: the form is part of the value

FORMS_LIB = "mpverif_forms"
FORMS_SRC = '''
from mpilot import params
from mpilot.commands import Command

HOLD = {}     # result name -> the array the command hands out


class Held(Command):
    """a plug-in producer: hands out the array held for its result name"""
    inputs = {}
    output = params.DataParameter()

    def execute(self, **kw):
        return HOLD[self.result_name]


class HeldFuzzy(Held):
    is_fuzzy = True
    inputs = {}
    output = params.DataParameter()


class Peek(Command):
    """a consumer that only looks: the number of cells it was given"""
    inputs = {"In": params.ResultParameter(params.DataParameter()), "More": params.ListParameter(params.ResultParameter(params.DataParameter()), required=False)}
    output = params.NumberParameter()

    def execute(self, **kw):
        return sum(c.result.size for c in [kw["In"]] + list(kw.get("More", [])))
'''


def forms_lib():
    import sys, types
    if FORMS_LIB not in sys.modules:
        m = types.ModuleType(FORMS_LIB)
        sys.modules[FORMS_LIB] = m
        exec(compile(FORMS_SRC, FORMS_LIB, "exec"), m.__dict__)
    return sys.modules[FORMS_LIB]


def array_form(a):
    """everything an observer can tell about an array without touching it: not only the values and which cells are missing (on which an array without a mask
    array and one with an all-clear mask array agree) but the form - class, element type, layout, whether a mask array is there and which object it is,
    hard / shared mask, fill value, what may be written"""
    import hashlib
    import numpy
    nomask = numpy.ma.nomask
    masked = isinstance(a, numpy.ma.MaskedArray)
    m = a._mask if masked else None
    plain = numpy.ndarray.view(a, numpy.ndarray)

    def digest(x):
        return hashlib.sha1(numpy.ascontiguousarray(x).tobytes()).hexdigest()[:12]
    out = {"class": "%s.%s" % (type(a).__module__, type(a).__name__), "dtype": a.dtype.str, "shape": tuple(a.shape), "strides": tuple(a.strides),
           "writeable": bool(a.flags.writeable), "values": digest(plain), "owner": id(a.base)}
    if masked:
        out.update({"mask array": "none (nomask)" if m is nomask else "object %d" % id(m), "mask": None if m is nomask else digest(m),
                    "mask writeable": None if m is nomask else bool(m.flags.writeable), "hard mask": bool(a._hardmask), "shared mask": bool(a._sharedmask),
                    "fill value": repr(a._fill_value)})
    return out


def same_form(x, y, identity=True):
    """two snapshots agree (identity=False: up to which objects hold the cells and the mask - what a faithful copy may differ in)"""
    def strip(f):
        f = dict(f)
        if not identity:
            f.pop("owner", None)
            f.pop("strides", None)
            f.pop("shared mask", None)
            if str(f.get("mask array", "")).startswith("object"):
                f["mask array"] = "object"
        return f
    return strip(x) == strip(y)


def form_diff(x, y):
    return ", ".join("%s: %s -> %s" % (k, x.get(k), y.get(k)) for k in sorted(set(x) | set(y)) if x.get(k) != y.get(k))


def array_forms(rng, thorough):
    """(label, builder): builder() -> (the array, other arrays that own / share its cells or mask and must stay as they are too).  Built afresh for every use"""
    import numpy
    ma = numpy.ma

    class Field(ma.MaskedArray):
        """a plug-in's own masked-array class"""

    class Grid(numpy.ndarray):
        """a plug-in's own array class"""

    def hard(a):
        a.harden_mask()
        return a

    def frozen(a):
        m = ma.getmask(a)
        if m is not ma.nomask:
            m.flags.writeable = False
        a.flags.writeable = False
        return a

    def piece(a):
        return (a[1:], [a])

    def twin(a):
        return (a.view(), [a])

    def big(n, kind):
        base = numpy.arange(n, dtype=float).reshape(-1, 100) / 7.0
        if kind == "plain":
            return base
        if kind == "nomask":
            return ma.array(base)
        if kind == "clear":
            return ma.array(base, mask=False)
        return ma.array(base, mask=(numpy.arange(n).reshape(-1, 100) % 11 == 3))
    forms = [
        ("plain array", lambda: numpy.array([1.0, 2.0, 3.0])), ("plain 2-d integers", lambda: numpy.arange(6).reshape(2, 3)), ("plain booleans", lambda: numpy.array([True, False])),
        ("plain 0-d", lambda: numpy.array(2.5)), ("plain, no cells", lambda: numpy.zeros((0,))), ("plain read-only", lambda: frozen(numpy.array([1.0, 2.0]))),
        ("plain, every second cell of another", lambda: (lambda a: (a[::2], [a]))(numpy.arange(10.0))), ("plain, a plug-in's array class", lambda: numpy.arange(4.0).view(Grid)),
        ("plain float32 in column order", lambda: numpy.asfortranarray(numpy.arange(6, dtype="f4").reshape(2, 3))),
        ("masked, no mask array", lambda: ma.array([1.0, 2.0, 3.0])), ("masked 2-d integers, no mask array", lambda: ma.array([[1, 2], [3, 4]])),
        ("result of arithmetic, no mask array", lambda: ma.array([1.0, 2.0]) * 2), ("masked float32, no mask array", lambda: ma.array([0.5, 0.25], dtype="f4")),
        ("masked, all-clear mask array", lambda: ma.array([1.0, 2.0, 3.0], mask=False)), ("masked, some cells missing", lambda: ma.array([1.0, 2.0, 3.0], mask=[0, 1, 0])),
        ("masked, every cell missing", lambda: ma.masked_all((3,))), ("masked_invalid", lambda: ma.masked_invalid([1.0, float("nan"), 3.0])),
        ("masked_equal (fill value set)", lambda: ma.masked_equal([1, -9999, 3], -9999)), ("masked, own fill value, no mask array", lambda: ma.array([1.0, 2.0], fill_value=-9999.0)),
        ("hard mask", lambda: hard(ma.array([1.0, 2.0, 3.0], mask=[0, 1, 0]))), ("hard mask, no mask array", lambda: hard(ma.array([1.0, 2.0, 3.0]))),
        ("part of a masked array (shared mask)", lambda: piece(ma.array(numpy.arange(5.0), mask=[0, 1, 0, 0, 1]))), ("part of a masked array without mask array", lambda: piece(ma.array(numpy.arange(5.0)))),
        ("second view of a masked array (same mask object)", lambda: twin(ma.array([1.0, 2.0, 3.0], mask=[0, 0, 1]))), ("second view of an array without mask array", lambda: twin(ma.array([1.0, 2.0, 3.0]))),
        ("the masked constant", lambda: ma.masked), ("masked 0-d, no mask array", lambda: ma.array(3.5)), ("masked 0-d, missing", lambda: ma.array(3.5, mask=True)),
        ("masked read-only, no mask array", lambda: frozen(ma.array([1.0, 2.0]))), ("masked read-only with mask array", lambda: frozen(ma.array([1.0, 2.0], mask=[0, 1]))),
        ("a plug-in's masked-array class, no mask array", lambda: ma.array([1.0, 2.0]).view(Field)), ("a plug-in's masked-array class, mask array", lambda: ma.array([1.0, 2.0], mask=[1, 0]).view(Field)),
        ("masked, no cells", lambda: ma.array([], dtype=float)), ("masked unsigned bytes, mask array", lambda: ma.array([1, 2, 3], dtype="u1", mask=[0, 0, 1])),
    ]
    # the same forms at the sizes of real grids (a change that only touches large arrays, or small ones, is a change)
    sizes = [10 ** 4, 10 ** 6, 2500000] + ([4 * 10 ** 6] if thorough else [])
    large = [("%s of %d cells" % (label, n), (lambda n=n, kind=kind: big(n, kind))) for n in sizes
             for kind, label in (("plain", "plain"), ("nomask", "masked, no mask array"), ("clear", "masked, all-clear mask array"), ("some", "masked, some cells missing"))]
    return forms, large


def data_forms(ctx):
    """a data array is clean as it is: whatever its form, cleaning hands it back in that form and leaves it - and whatever shares its cells or mask - exactly as
    it was; as a raw value of the Data kind (fresh parameter objects and the ones the command classes carry), as a list item, and as the stored result of a
    finished producer referenced by name / by object / through a list, and when Program.run validates a second consumer after the producer has finished"""
    import numpy
    from mpilot import params as P
    from mpilot.commands import Command
    from mpilot.program import Program
    lib = forms_lib()
    rng = ctx.rng
    forms, large = array_forms(rng, ctx.thorough)

    def unpack(built):
        value, owners = built if isinstance(built, tuple) else (built, [])
        for x in [value] + owners:
            if isinstance(x, numpy.ma.MaskedArray) and x is not numpy.ma.masked:
                x.fill_value        # numpy works out the default fill value when it is first asked for and keeps it: asked for now, so that printing the array later is no change
        return value, owners
    # --- the Data kind itself (and kinds that take any value)
    subjects = [("Data", P.DataParameter(), False), ("Parameter", P.Parameter(), False), ("List(Data)", P.ListParameter(P.DataParameter()), True), ("List", P.ListParameter(), True)]
    seen = set()
    import mpilot.libraries.eems.basic, mpilot.libraries.eems.fuzzy, mpilot.libraries.eems.csv.io       # noqa
    prog.testlib()
    for info in sorted(Command.get_commands(), key=lambda i: (i.module, i.command.__name__)):
        cls = info.command
        cands = [("output of %s" % cls.name, cls.output)]
        for n, q in cls.inputs.items():
            while type(q) is P.ListParameter:
                q = q.value_type
            if type(q) is P.ResultParameter:
                cands.append(("wanted by %s.%s" % (cls.name, n), q.output_type))
        for label, q in cands:
            if type(q) is P.DataParameter and id(q) not in seen:
                seen.add(id(q))
                subjects.append(("Data (%s, %s)" % (label, cls.__module__), q, False))
    program = make_program(None)
    for si, (cname, param, listy) in enumerate(subjects):
        for label, build in forms + (large if si < 4 else []):
            if si >= 4 and not ctx.thorough and (len(label) + si) % 4:
                continue                # the command classes' own Data parameters: a quarter of the forms each (rotating), all in the thorough tier
            value, owners = unpack(build())
            raw = [value, value] if listy else value
            watched = [value] + owners
            before = [array_form(x) for x in watched]
            state = program_state(program)
            desc = {"parameter": cname, "raw": "%s%s: %s" % ("a list holding twice " if listy else "", label, repr(value)[:100]), "form_before": before[0]}
            r1 = call_clean(param, raw, program)
            r2 = call_clean(param, raw, program)
            ctx.case("data-form %s %s" % (cname, label), sample=None)
            ctx.count("data_form_cases")
            after = [array_form(x) for x in watched]
            for k, (b, a) in enumerate(zip(before, after)):
                if b != a:
                    ctx.fail("%s.clean altered %s (%s): %s" % (cname, "its raw argument" if k == 0 else "the array its raw argument is a part / view of", label, form_diff(b, a)), dict(desc, form_after=a))
                    break
            if program_state(program) != state:
                ctx.fail("%s.clean(<%s>) changed the program" % (cname, label), desc)
            for r in (r1, r2):
                got = r[1] if r[0] == "ok" else None
                items = (got if isinstance(got, list) and len(got) == 2 else [None, None]) if listy else [got]
                if r[0] != "ok":
                    ctx.fail("%s.clean(<%s>) raised %s: a data array is a value of the Data kind" % (cname, label, r[1]), dict(desc, error=repr(r[1:])[:200]))
                    break
                bad = next((g for g in items if not (g is value or (isinstance(g, numpy.ndarray) and same_form(array_form(g), before[0], identity=False)))), "none")
                if not isinstance(bad, str):
                    ctx.fail("%s.clean(<%s>) returned %s: an already clean value does not come back unchanged (%s)" % (
                        cname, label, repr(bad)[:80], form_diff(before[0], array_form(bad)) if isinstance(bad, numpy.ndarray) else type(bad).__name__), desc)
                    break
                ctx.count("data_form_identical" if all(g is value for g in items) else "data_form_equal_copy")
            if r1[0] == "ok":
                r3 = call_clean(param, r1[1], program)
                if r3[0] != "ok" or [array_form(x) for x in watched] != before:
                    ctx.fail("%s: cleaning the cleaned value (%s) %s" % (cname, label, "raised " + str(r3[1]) if r3[0] != "ok" else "altered it: " + form_diff(before[0], array_form(value))), desc)
    # --- the stored result of a finished producer
    rparams = [("Result(Data)", P.ResultParameter(P.DataParameter()), False, None), ("Result(Data,nonfuzzy)", P.ResultParameter(P.DataParameter(), is_fuzzy=False), False, False),
               ("Result(Data,fuzzy)", P.ResultParameter(P.DataParameter(), is_fuzzy=True), False, True), ("Result", P.ResultParameter(), False, None),
               ("List(Result(Data))", P.ListParameter(P.ResultParameter(P.DataParameter())), True, None), ("Peek.In", lib.Peek.inputs["In"], False, None), ("Peek.More", lib.Peek.inputs["More"], True, None)]
    for label, build in forms + large:
        islarge = any(label == l for l, _ in large)
        value, owners = unpack(build())
        lib.HOLD.clear()
        lib.HOLD["Src"] = lib.HOLD["FSrc"] = value
        p = Program(libraries=(FORMS_LIB,))
        p.add_command(lib.Held, "Src", {})
        p.add_command(lib.HeldFuzzy, "FSrc", {})
        p.add_command(lib.Peek, "T1", {"In": "Src"})
        p.add_command(lib.Peek, "T2", {"In": "Src", "More": ["Src", "FSrc", "Src"]})
        watched = [value] + owners
        before = [array_form(x) for x in watched]
        desc = {"program": "Src = Held(); FSrc = HeldFuzzy(); T1 = Peek(In = Src); T2 = Peek(In = Src, More = [Src, FSrc, Src])", "held array": "%s: %s" % (label, repr(value)[:100]), "form_before": before[0]}
        try:
            p.commands["T1"].result             # runs Src and T1; FSrc on its own
            p.commands["FSrc"].result
        except Exception as e:
            ctx.fail("a model whose producer hands out an array (%s) fails: %s" % (label, progrun.classify(e)), desc)
            continue
        src, fsrc = p.commands["Src"], p.commands["FSrc"]

        def verdict(what):
            after = [array_form(x) for x in watched]
            if src._result is not value or fsrc._result is not value or not src.is_finished:
                ctx.fail("%s replaced the stored result of a finished producer (%s)" % (what, label), desc)
                return False
            for k, (b, a) in enumerate(zip(before, after)):
                if b != a:
                    ctx.fail("%s altered %s (%s): %s" % (what, "the stored result of the finished producer" if k == 0 else "the array the producer's result is a part / view of", label, form_diff(b, a)), dict(desc, form_after=a))
                    return False
            return True
        if not verdict("running the producer and its first consumer"):
            continue            # (what a body or run() does with a result is not cleaning: only a broken scenario ends here)
        ok = True
        for cname, param, listy, fuzzy in (rparams if not islarge else rparams[:1]):
            for ref in (("Src", src) if fuzzy is not True else ()) + (("FSrc", fsrc) if fuzzy is not False else ()):
                raw = [ref, ref] if listy else ref
                r = call_clean(param, raw, p)
                ctx.case("data-form-result %s %s %r" % (cname, label, type(ref).__name__), sample=None)
                ctx.count("data_form_result_cases")
                if r[0] != "ok":
                    ctx.fail("%s.clean(%s) raised %s although the finished producer holds a data array (%s)" % (cname, "the producer's name" if isinstance(ref, str) else "the producer", r[1], label), dict(desc, parameter=cname))
                    ok = False
                ok = ok and verdict("%s.clean(%s)" % (cname, "the finished producer's name" if isinstance(ref, str) else "the finished producer"))
                if not ok:
                    break
            if not ok:
                break
        if not ok:
            continue
        # Program.run validates T2's arguments while Src is finished, then runs T2 (which only looks)
        try:
            p.run()
            outcome = "ok"
        except Exception as e:
            outcome = progrun.classify(e)
        ctx.case("data-form-run %s" % label, sample=None)
        ctx.count("data_form_run_cases")
        if outcome != "ok":
            ctx.fail("Program.run with a second consumer of a finished producer (%s) fails: %s" % (label, outcome), desc)
        elif verdict("Program.run (validating the second consumer of a finished producer)") and p.commands["T2"].result != 4 * value.size:
            ctx.fail("the second consumer saw %r cells, the producer holds %d" % (p.commands["T2"].result, value.size), desc)
    lib.HOLD.clear()


# ---------------------------------------------------------------- must-exist paths: judged at every cleaning

def path_subjects():
    """must-exist path parameters: fresh ones, and the objects the command classes carry (shared by every program of the process)"""
    from mpilot import params as P
    from mpilot.commands import Command
    import mpilot.libraries.eems.csv.io, mpilot.libraries.eems.netcdf.io       # noqa
    prog.testlib()
    out = [("Path(must_exist)", P.PathParameter(must_exist=True), False), ("List(Path(must_exist))", P.ListParameter(P.PathParameter(must_exist=True)), True)]
    for info in sorted(Command.get_commands(), key=lambda i: (i.module, i.command.__name__)):
        for n, q in info.command.inputs.items():
            listy = type(q) is P.ListParameter
            item = q.value_type if listy else q
            if type(item) is P.PathParameter and item.must_exist and not any(q is s[1] for s in out):
                out.append(("%s.%s of %s" % (info.command.name, n, info.module), q, listy))
    return out


def clean_path(param, listy, raw, program):
    from mpilot.exceptions import MPilotError
    try:
        got = param.clean([raw] if listy else raw, program, 23)
        return ("ok", got[0] if listy and isinstance(got, list) and len(got) == 1 else got)
    except MPilotError as e:
        return ("mp", type(e).__name__, getattr(e, "path", None), getattr(e, "lineno", None))
    except Exception as e:
        return ("raw", type(e).__name__, str(e)[:80], None)


def path_histories(ctx):
    """a path that must exist is judged against the disk - and, under a relative working directory, the current directory - as they are when it is cleaned:
    on ONE parameter object (a fresh one, and each one a command class carries) the same raw values are cleaned while files are written, removed, renamed,
    links left dangling, the current directory changed, for programs with different working directories.  Every single answer is the resolved path when
    something exists there at that moment and PathDoesNotExist naming that path otherwise - whatever was cleaned before"""
    from mpilot.program import Program
    rng = ctx.rng
    start = os.getcwd()
    root = os.path.realpath(common.tmpdir("mpv_c20p_"))
    here, there = os.path.join(root, "here"), os.path.join(root, "there")
    places = [os.path.join(root, "w1"), os.path.join(root, "w2"), os.path.join(here, "data"), os.path.join(there, "data"), here, there]
    for d in places:
        os.makedirs(d, exist_ok=True)
    programs = [("absolute working directory", Program(libraries=(prog.TESTLIB,), working_dir=places[0])), ("another absolute working directory", Program(libraries=(prog.TESTLIB,), working_dir=places[1])),
                ("relative working directory", Program(libraries=(prog.TESTLIB,), working_dir="data")), ("empty working directory", Program(libraries=(prog.TESTLIB,), working_dir="")),
                ("no working directory", Program(libraries=(prog.TESTLIB,), working_dir=None))]
    names = ["in.csv", "t/deep.nc", "7", "link.csv"]

    def toggle(place, name, log):
        path = os.path.join(place, name)
        if name == "link.csv":          # a link to target.csv in the same place: the link stays, its target comes and goes
            if not os.path.lexists(path):
                os.symlink("target.csv", path)
            path = os.path.join(place, "target.csv")
        if os.path.exists(path):
            os.remove(path)
            log.append("remove " + path)
        else:
            os.makedirs(os.path.dirname(path), exist_ok=True)
            with open(path, "w") as f:
                f.write("a,b\n1,2\n")
            log.append("write " + path)

    def wipe():
        for d in places:
            for dp, dn, fn in os.walk(d):
                for f in fn:
                    os.remove(os.path.join(dp, f))

    def clean_step(cname, param, listy, pi, raw, log):
        plabel, program = programs[pi]
        wd = program.working_dir
        text = str(raw)
        resolved = text if os.path.isabs(text) else None if wd is None else os.path.join(wd, text)
        there_now = resolved is not None and os.path.exists(resolved)
        r = clean_path(param, listy, raw, program)
        log.append("clean %r for the program with %s %r (current directory %s) -> %s" % (raw, plabel, wd, os.getcwd(), r[:3]))
        ctx.case("path-history %s %s" % (cname, len(log)), nontrivial=False, sample=None)
        ctx.count("path_history_cleanings")
        desc = {"parameter": cname, "history": list(log), "raw": repr(raw), "working_dir": wd, "current_dir": os.getcwd(), "resolved": resolved, "exists_now": there_now}
        if resolved is None:
            if r[:2] != ("mp", "InvalidRelativePath"):
                ctx.fail("%s.clean(%r) without a working directory gave %r instead of InvalidRelativePath" % (cname, raw, r[:2]), desc)
        elif there_now:
            if r != ("ok", resolved):
                ctx.fail("%s.clean(%r) gave %r although %s exists at this moment (history of this parameter object in the replay)" % (cname, raw, r[:3], resolved), desc)
        elif r[0] == "ok":
            ctx.fail("%s.clean(%r) returned %r although nothing exists there at this moment (it did at an earlier cleaning of this parameter object)" % (cname, raw, r[1]), desc)
        elif r[:3] != ("mp", "PathDoesNotExist", resolved) or r[3] != 23:
            ctx.fail("%s.clean(%r): nothing exists at %s, reported %r (line %r) instead of PathDoesNotExist naming that path on the argument's line" % (cname, raw, resolved, r[:3], r[3]), desc)
        return len(ctx.failures)
    try:
        for cname, param, listy in path_subjects():
            # directed: found, removed, written again; the same relative name under two working directories; the current directory changed under a relative one
            directed = []
            for name in names:
                directed.append([("cd", here), ("clean", 0, name), ("toggle", 0, name), ("clean", 0, name), ("clean", 0, os.path.join(places[0], name)), ("clean", 1, name), ("toggle", 0, name),
                                 ("clean", 0, name), ("clean", 0, os.path.join(places[0], name)), ("clean", 4, os.path.join(places[0], name)), ("toggle", 1, name), ("clean", 1, name), ("clean", 0, name),
                                 ("toggle", 0, name), ("clean", 0, name), ("toggle", 0, name), ("toggle", 1, name), ("clean", 0, name), ("clean", 1, name)])
                directed.append([("cd", here), ("toggle", 2, name), ("clean", 2, name), ("cd", there), ("clean", 2, name), ("cd", here), ("clean", 2, name), ("cd", there), ("toggle", 3, name), ("clean", 2, name),
                                 ("toggle", 3, name), ("clean", 2, name), ("toggle", 5, name), ("clean", 3, name), ("cd", here), ("clean", 3, name), ("clean", 4, name)])
            randoms = []
            for _ in range(ctx.budget(4, 60)):
                h = [("cd", here)]
                for _ in range(rng.randrange(8, 30)):
                    x = rng.random()
                    if x < 0.5:
                        pi = rng.randrange(len(programs))
                        name = rng.choice(names)
                        raw = rng.choice([name, name, os.path.join(rng.choice(places), name)]) if name != "7" else rng.choice([7, "7"])
                        h.append(("clean", pi, raw))
                    elif x < 0.85:
                        h.append(("toggle", rng.randrange(len(places)), rng.choice(names)))
                    else:
                        h.append(("cd", rng.choice([here, there])))
                randoms.append(h)
            for h in directed + randoms:
                wipe()
                log = []
                n0 = len(ctx.failures)
                for step in h:
                    if step[0] == "cd":
                        os.chdir(step[1])
                        log.append("chdir " + step[1])
                    elif step[0] == "toggle":
                        toggle(places[step[1]], step[2], log)
                    elif clean_step(cname, param, listy, step[1], step[2], log) > n0:
                        break
                ctx.count("path_histories")
    finally:
        os.chdir(start)
    # the same at program level: a model read and run, its input removed (or only then written), the same text read and run again
    from mpilot.libraries.eems.csv.io import EEMSRead       # noqa
    src = "A = EEMSRead(\n    InFileName = input.csv,\n    InFieldName = a\n)\nB = Copy(\n    InFieldName = A\n)\n"
    wd = places[0]
    for first_there in (True, False, True):
        wipe()
        outcomes = []
        for there_now in (first_there, not first_there, first_there):
            if there_now:
                with open(os.path.join(wd, "input.csv"), "w") as f:
                    f.write("a,b\n1,2\n3,4\n")
            elif os.path.exists(os.path.join(wd, "input.csv")):
                os.remove(os.path.join(wd, "input.csv"))
            p = None
            try:
                p = Program.from_source(src, working_dir=wd)
                p.run()
                outcomes.append((there_now, "ok", [n for n, c in p.commands.items() if c.is_finished]))
            except Exception as e:
                outcomes.append((there_now, progrun.classify(e), [n for n, c in p.commands.items() if c.is_finished] if p is not None else []))
        ctx.case("path-history-program %r" % (first_there,), sample=None)
        ctx.count("path_history_programs")
        want = [(t, "ok", ["A", "B"]) if t else (t, "mp:PathDoesNotExist:2", []) for t, _, _ in outcomes]
        if outcomes != want:
            ctx.fail("a model naming input.csv, loaded and run three times while the file %s: outcomes (file there, outcome, commands finished) %r, expected %r" % (
                "is there, removed, written again" if first_there else "is missing, written, removed", outcomes, want), {"source": src, "working_dir": wd, "outcomes": repr(outcomes)})
    wipe()


def run(ctx):
    ctx.check_proofs(["MPilot.Props.C20", "MPilot.Props.C20Path", "MPilot.Props.C20Num"])
    model = common.Model()
    tmp = common.tmpdir("mpv_c20_")
    os.makedirs(os.path.join(tmp, "sub"))
    for f in ("a.csv", "sub/b.nc"):
        open(os.path.join(tmp, f), "w").write("x\n1\n")
    lines, metas = [], []
    rng = ctx.rng
    # the parameter objects are created once and used for every program / working directory, as the library's own parameter objects are:
    # what an earlier cleaning did (under another working directory, for another program) must not influence a later one
    cfgs = configs()
    tmp2 = common.tmpdir("mpv_c20b_")
    open(os.path.join(tmp2, "a.csv"), "w").write("x\n2\n")
    wds = [None, tmp, "rel", "", tmp2]
    rng.shuffle(wds)
    for wd in wds + [wds[0]]:
        program = make_program(wd)
        raws = raw_values(rng, program, tmp)
        nfixed = len(fixed_values(list(program.commands), list(program.commands.values())))
        for cname, param in cfgs:
            pool = raws if ctx.thorough else rng.sample(raws[:-nfixed], min(len(raws) - nfixed, 55)) + raws[-nfixed:]
            for v in pool:
                before_raw = snap(v)
                before_state = program_state(program)
                files_before = sorted(os.listdir(tmp))
                r1 = call_clean(param, v, program)
                r2 = call_clean(param, v, program)
                desc = {"parameter": cname, "raw": repr(v)[:120], "working_dir": wd}
                ctx.count("param:" + cname.split("(")[0])
                ctx.count("outcome:" + (r1[0] if r1[0] == "ok" else r1[0] + ":" + r1[1]))
                # --- oracles on the implementation
                if r1[0] == "raw":
                    ctx.fail("%s.clean(%r) raised %s instead of a parameter error" % (cname, v, r1[1]), desc)
                elif r1[0] == "mp" and r1[1] not in PARAM_ERRORS:
                    ctx.fail("%s.clean(%r) raised %s, not one of the parameter errors" % (cname, v, r1[1]), desc)
                elif r1[0] == "mp" and r1[2] != 17:
                    ctx.fail("%s.clean(%r): error carries line %r, not the argument's line" % (cname, v, r1[2]), desc)
                elif r1[0] == "ok" and not typed_ok(cname, param, r1[1]):
                    ctx.fail("%s.clean(%r) returned %r: not the documented type" % (cname, v, r1[1]), desc)
                elif r1[0] == "ok" and cname.startswith("Path") and isinstance(v, str) and not os.path.isabs(v) and wd is not None \
                        and r1[1] != os.path.join(wd, v):
                    ctx.fail("%s.clean(%r) under working directory %r returned %r, not the path joined to the working directory" % (cname, v, wd, r1[1]), desc)
                elif r1[0] == "ok" and cname.startswith("Path") and isinstance(v, str) and not os.path.isabs(v) and wd is None:
                    ctx.fail("%s.clean(%r) without a working directory returned %r instead of raising InvalidRelativePath" % (cname, v, r1[1]), desc)
                from numbers import Number
                from mpilot.commands import Command
                if r1[0] == "ok" and cname.startswith("Number") and isinstance(v, Number) and r1[1] is not v:
                    ctx.fail("%s.clean(%r): a value that is a number already came back as %r (%s)" % (cname, v, r1[1], type(r1[1]).__name__), desc)
                if r1[0] == "ok" and cname.startswith("Result") and isinstance(v, Command) and r1[1] is not v:
                    ctx.fail("%s.clean(<command object %s>) returned another command object (of program %r)" % (cname, v.result_name, getattr(r1[1], "program", None)), desc)
                if r1[0] == "ok" and cname.startswith("List") and isinstance(v, (list, tuple)) and isinstance(r1[1], list) and len(r1[1]) == len(v):
                    # a list is cleaned item by item: each cleaned item is what cleaning that item alone gives (same value, same type), wherever it stands
                    for item, got_item in zip(v, r1[1]):
                        alone = call_clean(param.value_type, item, program)
                        if not same_clean(("ok", got_item), alone):
                            ctx.fail("%s.clean(%r): the item %r came back as %r (%s); cleaned alone it gives %r" % (
                                cname, v, item, got_item, type(got_item).__name__, alone[1] if alone[0] == "ok" else alone[:2]), desc)
                            break
                if not same_clean(r1, r2):
                    ctx.fail("%s.clean(%r) gives different answers on repetition: %r then %r" % (cname, v, r1[:2], r2[:2]), desc)
                if before_raw != snap(v):
                    ctx.fail("%s.clean altered its raw argument: %r -> %r" % (cname, before_raw, snap(v)), desc)
                if program_state(program) != before_state or sorted(os.listdir(tmp)) != files_before:
                    ctx.fail("%s.clean(%r) changed the program (a command ran, or a file appeared)" % (cname, v), desc)
                    program = make_program(wd)
                if r1[0] == "ok" and (wd is None or os.path.isabs(wd) or "Path" not in cname):
                    r3 = call_clean(param, r1[1], program)
                    if not same_clean(r1, r3):
                        ctx.fail("%s: cleaning the cleaned value %r gives %r" % (cname, r1[1], r3[:2]), desc)
                # --- correspondence
                try:
                    exist = sorted(set(p_ for p_ in candidate_paths(wd, v) if os.path.exists(p_)))
                    line = "clean %s %s %s" % (enc_ctx(program, wd, exist), prog.enc_spec(param), prog.enc_raw(v))
                except ValueError:
                    ctx.count("not_encodable")
                    continue
                lines.append(line)
                r3c = None
                if r1[0] == "ok":
                    r3c = call_clean(param, r1[1], program)
                metas.append((desc, cname, r1, r3c, param))
    documented_datatypes(ctx)
    program_purity(ctx)
    from_file_values(ctx)
    long_lists(ctx)
    data_forms(ctx)
    path_histories(ctx)
    answers = model.ask(lines)
    for line, (desc, cname, r1, r3, param), ans in zip(lines, metas, answers):
        impl = "ok" if r1[0] == "ok" else r1[0] + " " + r1[1]
        ctx.case(line, nontrivial=True, sample={"case": desc, "impl": impl + (" " + canon(r1[1], param)[:80] if r1[0] == "ok" else ""), "model": ans[:160]})
        if "OutsideModel" in ans.split(" | ")[0]:
            ctx.count("outside_model_domain")
            continue
        if ans.startswith("err "):
            if r1[0] != "mp" or r1[1] != ans[4:]:
                ctx.disagree("clean", desc, impl, ans)
            continue
        first, _, second = ans.partition(" | ")
        if r1[0] != "ok":
            ctx.disagree("clean", desc, impl, ans)
            continue
        got = canon(r1[1], param)
        if not prog.model_float_matches(got, first[3:]):
            ctx.disagree("clean", desc, "ok " + got, ans)
            continue
        if second and "OutsideModel" not in second and r3 is not None:
            if second.startswith("ok "):
                if r3[0] != "ok" or not prog.model_float_matches(canon(r3[1], param), second[3:]):
                    ctx.disagree("clean∘clean", desc, repr(r3[:2])[:100], second)
            elif r3[0] != "mp" or r3[1] != second[4:]:
                ctx.disagree("clean∘clean", desc, repr(r3[:2])[:100], second)
    return ctx.finish(
        rule="cases = (parameter class/configuration: 25 of them incl. nested lists and result parameters with output type and fuzziness, "
             "raw value: ints, floats, bools, numeric/boolean/path/name strings, lists, nested lists, dicts, Command objects, type objects, None; "
             "working directory: none / absolute / relative / empty); distinct by protocol line",
        explanation="theorems in Props/C20.lean (typed results, parameter errors only, idempotence) hold for the model's clean; clean and "
                    "clean∘clean of the real parameter classes are compared with the model on every case; type, error-kind, determinism, "
                    "idempotence and purity oracles run on the implementation")


def replay(path):
    import json
    print(json.dumps(json.load(open(path)), indent=1)[:4000])
    return 0
