"""C17 — CSV reading and writing are faithful.

proof:          lean/MPilot/Props/C17.lean
correspondence: the real EEMSRead/EEMSWrite bodies vs the model (csv reader/writer model + column reading) on random tables: any number of rows
                and columns, header names needing CSV quoting, blank lines, both element types, every missing-value choice
oracles:        values in row order with blank lines skipped and the requested element type; exactly the cells equal to the declared missing value
                (after conversion to the element type) missing; unaffected by the other columns; missing header / non-numeric cell reported with the
                file line; written header = result names in order, one row per cell; a written file read back gives bit-identical doubles for all
                non-missing finite numbers (subnormals, extremes, negative zero)
known finding:  a missing cell is written as `--`, which cannot be read back (C17-F16-masked-write)
"""
import csv
import io
import math
import os
import struct
from fractions import Fraction

import numpy

from .. import common, eems
from ..common import enc_str

HEADERS = ["a", "b", "col 3", "x,y", 'q"uote', "é", "A", "value", "1", "new\nline", " lead", "", "a", "trail ", " b", "  both  "]
DOUBLES = [0.0, -0.0, 1.0, -1.0, 0.1, 1 / 3.0, 5e-324, 2.2250738585072014e-308, 2.225073858507201e-308, 1.7976931348623157e+308, -1.7976931348623157e+308,
           1e16, 1e15, 123456789.12345679, 9007199254740993.0, 1e-7, 1.5e-5, 0.30000000000000004, 2.5, -99.0, 1e22, 1e23, 4.9e-324, 1e-300, 3.141592653589793]
CELLS = ["1", "2.5", "-3", "2.7", "-1.6", "0.9", "3.5", "1.5", "-0.5", "99.99", " 4 ", "1e3", "1_0", ".5", "5.", "+7", "0", "-0.0", "1E-2", "007"]
BAD_CELLS = ["x", "", "1,5", "--", "NULL", "1 2", "0x10", "1e", "nan", "inf"]


def write_file(path, text):
    with open(path, "w", encoding="utf-8", newline="") as f:
        f.write(text)


def read_impl(path, field, missing, integer):
    """real EEMSRead, evaluated the way a program evaluates it: arguments as written (names, numbers, type names), cleaned by
    `validate_params`, body run by `Command.run`.  Exceptions of the body that are no MPilot errors arrive wrapped; they are reported as raw."""
    from mpilot.libraries.eems.csv.io import EEMSRead
    from mpilot.arguments import Argument
    from mpilot.exceptions import MPilotError, UnexpectedError
    args = [Argument("InFileName", path, 6), Argument("InFieldName", field, 7)]
    if missing is not None:
        args.append(Argument("MissingVal", missing, 8))
    if integer is not None:
        args.append(Argument("DataType", "Integer" if integer else "Float", 9))
    try:
        with numpy.errstate(all="ignore"):
            return ("ok", EEMSRead("R", args, lineno=5).result)
    except UnexpectedError as e:
        return ("raw", type(e.exc).__name__, str(e.exc))
    except MPilotError as e:
        return ("mp", type(e).__name__, str(e))
    except Exception as e:
        return ("raw", type(e).__name__, str(e))


def table_text(rng, ncols, nrows, wild):
    headers = rng.sample(HEADERS, ncols) if not wild else [rng.choice(HEADERS) for _ in range(ncols)]
    rows = []
    truth = []          # per data row: list of cell strings (None = blank line)
    for _ in range(nrows):
        if rng.random() < 0.12:
            rows.append(None); continue
        cells = []
        for _ in range(ncols):
            r = rng.random()
            if wild and r < 0.04:
                cells.append(rng.choice(BAD_CELLS))
            elif r < 0.5:
                cells.append(rng.choice(CELLS))
            else:
                cells.append(repr(rng.choice(DOUBLES + [float(rng.randrange(-5, 6)), rng.choice([-99.0, 2.0, 2.5])])))
        if wild and rng.random() < 0.05 and ncols > 1:
            cells = cells[:-1]          # ragged row
        rows.append(cells)
    buf = io.StringIO()
    w = csv.writer(buf, lineterminator="\n")
    w.writerow(headers)
    text = buf.getvalue()
    for r in rows:
        if r is None:
            text += "\n"
        else:
            b = io.StringIO(); csv.writer(b, lineterminator="\n").writerow(r); text += b.getvalue()
    if rng.random() < 0.2 and text.endswith("\n"):
        text = text[:-1]                 # no newline at the end of the file
    return headers, rows, text


def bits(x):
    return struct.pack(">d", float(x))


def reread_after_fault(ctx, tmp):
    """one EEMSRead command asked again after its file was repaired step by step: every failed attempt names the file line of the (then) first bad cell,
    and the last attempt returns the column"""
    from mpilot.libraries.eems.csv.io import EEMSRead
    from mpilot.arguments import Argument
    from mpilot.exceptions import MPilotError
    rng = ctx.rng
    for rep in range(ctx.budget(6, 60)):
        n = rng.randrange(5, 12)
        rows = [[str(rng.randrange(100)), str(rng.randrange(100))] for _ in range(n)]
        blanks = sorted(rng.sample(range(1, n), rng.randrange(0, 3)))
        bad = sorted(rng.sample(range(n), rng.randrange(2, 4)))
        for k in bad:
            rows[k][1] = rng.choice(["x", "n/a", "", "1,5".replace(",", ";")])

        def text():
            out, line, where = ["a,b"], 1, {}
            for i, r in enumerate(rows):
                if i in blanks:
                    out.append(""); line += 1
                out.append(",".join(r)); line += 1
                where[i] = line
            return "\n".join(out) + "\n", where
        path = os.path.join(tmp, "reread_%d.csv" % rep)
        cmd = EEMSRead("R", [Argument("InFileName", path, 2), Argument("InFieldName", "b", 3)], lineno=1)
        history = []
        for step in range(len(bad) + 1):
            t, where = text()
            write_file(path, t)
            try:
                with numpy.errstate(all="ignore"):
                    r = cmd.result
                got = ("ok", r)
            except MPilotError as e:
                got = ("mp", type(e).__name__, str(e))
            except Exception as e:
                got = ("raw", type(e).__name__, str(e))
            history.append(t)
            ctx.count("reads_after_a_failed_read")
            desc = {"file_texts_in_turn": history, "InFieldName": "b"}
            if step < len(bad):
                want = where[bad[step]]
                if not (got[0] == "mp" and got[1] == "InvalidDataFile" and ("line %d." % want) in got[2]):
                    ctx.fail("attempt %d of the same EEMSRead command: the first non-numeric cell is on file line %d, reported: %s %r" % (step + 1, want, got[1], got[2][:120]), desc)
                    break
                rows[bad[step]][1] = str(rng.randrange(100))
            else:
                want = [float(r[1]) for r in rows]
                if got[0] != "ok" or numpy.ma.getdata(got[1]).tolist() != want or numpy.ma.getmaskarray(got[1]).any():
                    ctx.fail("after the file was repaired the same EEMSRead command returns %s, the column is %r" % (got[1] if got[0] != "ok" else got[1].tolist(), want), desc)
        ctx.case("reread %d %r" % (rep, rows), sample=None)


def run(ctx):
    ctx.check_proofs(["MPilot.Props.C17"])
    model = common.Model()
    rng = ctx.rng
    tmp = common.tmpdir("mpv_c17_")
    lines, metas = [], []
    for i in range(ctx.budget(60, 3000)):
        wild = i % 3 == 0
        ncols = rng.randrange(1, 7)
        nrows = rng.choice([0, 1, 2, 3, 5, 8, 20, 40])
        headers, rows, text = table_text(rng, ncols, nrows, wild)
        path = os.path.join(tmp, "t%d.csv" % (i % 20))
        write_file(path, text)
        field = rng.choice(headers) if rng.random() < 0.9 else "nosuch"
        missing = rng.choice([None, None, -99, -99.0, 2, 2.5, 0, 1e22, "2"][:8])
        integer = rng.choice([None, False, True])
        out = read_impl(path, field, missing, integer)
        ctx.case("read %s %r %r %r" % (text, field, missing, integer), sample={"text": text[:200], "field": field, "missing": missing, "integer": integer,
                                                                              "impl": (out[0] + " " + (repr(out[1].tolist())[:100] if out[0] == "ok" else out[1]))})
        ctx.count("read_outcome:" + out[0] + ("" if out[0] == "ok" else ":" + out[1]))
        desc = {"file_text": text, "InFieldName": field, "MissingVal": missing, "DataType": "Integer" if integer else "Float" if integer is False else None}
        # ---- oracles on the implementation (independent of the model): expected column from the generator's own table
        idx = headers.index(field) if field in headers else None
        data_rows = [r for r in rows if r is not None]

        def too_big(c):
            try:
                return abs(float(c)) >= 2.0 ** 62
            except (ValueError, TypeError):
                return False
        if integer and (too_big(missing) or (idx is not None and any(len(r) > idx and too_big(r[idx]) for r in data_rows))):
            ctx.count("outside_int64_range")          # Integer columns holding numbers beyond int64: overflow is outside the exact-integer model
            continue
        clean = idx is not None and all(len(r) > idx and r[idx] not in BAD_CELLS for r in data_rows) and not any("\n" in h for h in headers)
        if idx is None and not any("\n" in h for h in headers):
            if not (out[0] == "mp" and out[1] == "InvalidDataFile"):
                ctx.fail("a missing header is not reported as InvalidDataFile: %s" % (out[:2],), desc)
        elif clean:
            if out[0] != "ok":
                ctx.fail("a well-formed column fails to read: %s %s" % (out[1], out[2][:100]), desc)
            else:
                arr = out[1]
                want = [float(r[idx]) for r in data_rows]
                if integer:
                    want = [float(int(v)) for v in want]
                mv = None if missing is None else (float(int(float(missing))) if integer else float(missing))
                wmask = [mv is not None and v == mv for v in want]
                if arr.dtype.kind != ("i" if integer else "f"):
                    ctx.fail("column read with element type %s, requested %s" % (arr.dtype, "Integer" if integer else "Float"), desc)
                elif len(arr) != len(want):
                    ctx.fail("column has %d cells, the file has %d data rows" % (len(arr), len(want)), desc)
                else:
                    gm = numpy.ma.getmaskarray(arr).tolist()
                    if gm != wmask:
                        ctx.fail("missing cells %r; exactly the cells equal to the missing value %r are %r" % (gm, missing, wmask), desc)
                    else:
                        gd = numpy.ma.getdata(arr).tolist()
                        for k, (g, w, m) in enumerate(zip(gd, want, wmask)):
                            if not m and (bits(g) != bits(w) if not integer else g != w):
                                ctx.fail("row %d: read %r, the file says %r" % (k, g, w), desc)
                                break
                # other columns are irrelevant
                if ncols > 1 and rng.random() < 0.5:
                    rows2 = [None if r is None else [c if j == idx else rng.choice(CELLS) for j, c in enumerate(r)] for r in rows]
                    t2 = io.StringIO(); w2 = csv.writer(t2, lineterminator="\n"); w2.writerow(headers)
                    text2 = t2.getvalue() + "".join("\n" if r is None else _row(r) for r in rows2)
                    write_file(path + ".twin", text2)
                    out2 = read_impl(path + ".twin", field, missing, integer)
                    ctx.count("other_column_twins")
                    if out2[0] != "ok" or common.vis_arr(out2[1]) != common.vis_arr(arr):
                        ctx.fail("changing only the other columns changed the column read", {"file_text": text, "twin_text": text2, "InFieldName": field})
        elif idx is not None and not any("\n" in h for h in headers):
            # first offending row decides: a non-numeric cell -> InvalidDataFile naming its file line
            for k, r in enumerate(rows):
                if r is None:
                    continue
                if len(r) <= idx:
                    break
                if r[idx] in BAD_CELLS and r[idx] not in ("nan", "inf"):
                    if not (out[0] == "mp" and out[1] == "InvalidDataFile" and ("line %d." % (k + 2)) in out[2]):
                        ctx.fail("non-numeric cell %r on file line %d reported as %s %r" % (r[idx], k + 2, out[1], out[2][:120] if len(out) > 2 else ""), desc)
                    break
        # ---- correspondence
        try:
            mtxt = "-" if missing is None else common.enc_rat(Fraction(str(missing)) if not isinstance(missing, str) else Fraction(missing))
        except Exception:
            mtxt = "-"
        lines.append("csvread %s %s %s %d" % (enc_str(text), enc_str(field), mtxt, 1 if integer else 0))
        metas.append((out, desc))
    answers = model.ask(lines)
    for (out, desc), ans in zip(metas, answers):
        if ans == "outside":
            ctx.count("outside_model_domain")
            continue
        if ans.startswith("ok "):
            if out[0] != "ok":
                ctx.disagree("csvread", desc, "%s %s" % (out[0], out[1]), ans[:200])
            else:
                try:
                    d = common.same_vis(common.vis_arr(out[1]), common.parse_model_arr(ans[3:]), tol=1e-15)
                except Exception as e:
                    d = "unparsable model answer: %s" % e
                if d:
                    ctx.disagree("csvread", desc, repr(out[1])[:200], ans[:200] + " :: " + d)
        elif ans.startswith("err raw"):
            if out[0] != "raw":
                ctx.disagree("csvread", desc, "%s %s" % (out[0], out[1] if out[0] != "ok" else ""), ans)
        else:
            want_cls = ans.split(" ")[1]
            if out[0] != "mp" or out[1] != want_cls or (" line " in ans and ("line %s." % ans.split(" ")[-1]) not in out[2]):
                ctx.disagree("csvread", desc, "%s %s %s" % (out[0], out[1] if out[0] != "ok" else "", out[2][:80] if len(out) > 2 and out[0] != "ok" else ""), ans)
    write_checks(ctx, model, tmp)
    reread_after_fault(ctx, tmp)
    return ctx.finish(
        rule="tables of 0-40 rows x 1-6 columns with header names that need CSV quoting (comma, quote, line break, blanks, empty, duplicates), blank lines, cells in "
             "many numeric spellings and doubles from subnormal to extreme, a third of the tables with non-numeric cells / ragged rows; each read with a random column, "
             "missing value (none, int, float, fractional, string) and element type; written tables of 1-5 columns; distinct by file text + request",
        explanation="theorems in Props/C17.lean hold for the column-reading model; the real EEMSRead/EEMSWrite bodies are compared with the model (csv reader/writer model included) "
                    "on every table; order/type/mask/independence/line oracles and the bit-identity of the write-read round trip are evaluated on the implementation")


def _row(r):
    b = io.StringIO(); csv.writer(b, lineterminator="\n").writerow(r); return b.getvalue()


def write_checks(ctx, model, tmp):
    from mpilot.libraries.eems.csv.io import EEMSWrite, EEMSRead
    from .. import prog
    rng = ctx.rng
    wlines, wmetas = [], []
    for i in range(ctx.budget(25, 1200)):
        n = rng.randrange(1, 12)
        k = rng.randrange(1, 6)
        names = rng.sample([h for h in HEADERS if h and "\n" not in h] + ["R1", "Res_2", "z"], k)
        cols = []
        for _ in range(k):
            if rng.random() < 0.3:
                cols.append(numpy.ma.array([rng.randrange(-5, 50) for _ in range(n)], dtype=int))
            else:
                cols.append(numpy.ma.array([rng.choice(DOUBLES) for _ in range(n)], dtype=float))
        producers = [eems.Producer(a, nm, False) for a, nm in zip(cols, names)]
        path = os.path.join(tmp, "w%d.csv" % (i % 10))
        try:
            EEMSWrite("W", []).execute(OutFileName=path, OutFieldNames=producers)
        except Exception as e:
            ctx.fail("EEMSWrite failed on plain 1-D results: %s" % type(e).__name__, {"names": names})
            continue
        text = open(path, encoding="utf-8", newline="").read()
        ctx.case("write " + text, sample={"names": names, "text": text[:200]})
        ctx.count("write_cases")
        desc = {"result_names": names, "columns": [c.tolist() for c in cols], "written": text}
        recs = list(csv.reader(io.StringIO(text)))
        if not recs or recs[0] != names:
            ctx.fail("header %r is not the result names in order %r" % (recs[:1], names), desc)
            continue
        if len(recs) != n + 1:
            ctx.fail("%d data rows written for %d cells" % (len(recs) - 1, n), desc)
            continue
        # read every column back: bit-identical doubles
        all_float = any(c.dtype.kind == "f" for c in cols)
        for j, (nm, col) in enumerate(zip(names, cols)):
            if names.count(nm) > 1:
                continue
            out = read_impl(path, nm, None, None)
            if out[0] != "ok":
                ctx.fail("a written column cannot be read back: %s %s" % (out[1], out[2][:80]), desc)
                break
            back = numpy.ma.getdata(out[1]).tolist()
            orig = [float(v) for v in col.tolist()]
            if [bits(x) for x in back] != [bits(x) for x in orig]:
                bad = next(p for p in zip(orig, back) if bits(p[0]) != bits(p[1]))
                ctx.fail("write + read back changed a value: %r came back as %r" % bad, desc)
                break
        # model of the writer: cell texts as Python renders them, table structure from the model
        cells = list(names)
        promoted = [c.astype(float) if all_float else c for c in cols]
        for r in range(n):
            for c in promoted:
                v = c[r]
                cells.append(repr(float(v)) if c.dtype.kind == "f" else str(int(v)))
        wlines.append("csvwrite %d %d %s" % (n + 1, k, " ".join(enc_str(x) for x in cells)))
        wmetas.append((text, desc))
    for (text, desc), ans in zip(wmetas, model.ask(wlines)):
        if common.dec_str(ans) != text:
            ctx.disagree("csvwrite", desc, text[:300], common.dec_str(ans)[:300])
    # the same path rewritten at once with another table of the same size in bytes: a read returns what the file holds now
    path = os.path.join(tmp, "again.csv")
    for rnd in range(3):
        for a, b in (([1.5, 2.5, 3.5], [4.5, 9.5, 0.5]), ([10, 20, 30], [11, 21, 31]), ([0.25, 0.75], [0.75, 0.25]), ([-0.0, 1.0, 3.0], [2.0, -0.0, 5.0]), ([-0.0], [0.0])):
            got = []
            for col in (a, b):
                EEMSWrite("W", []).execute(OutFileName=path, OutFieldNames=[eems.Producer(numpy.ma.array(col), "v", False)])
                out = read_impl(path, "v", None, None)
                got.append(numpy.ma.getdata(out[1]).tolist() if out[0] == "ok" else out[1])
            ctx.count("rewritten_file_reads")
            if repr(got) != repr([[float(x) for x in a], [float(x) for x in b]]):          # (by text: the sign of zero counts)
                ctx.fail("a file written, read, rewritten with other values of the same length and read again: the reads return %r and %r, the file held %r then %r" % (got[0], got[1], a, b),
                         {"first": a, "second": b})
                break
    # a long table (twenty thousand rows, three columns): written and read back bit for bit, rows in order
    n = 20000
    big = [numpy.ma.array(numpy.arange(n, dtype=float) * 0.1 - 777.7), numpy.ma.array(numpy.arange(n, dtype=int) * 7 - 50000, dtype=int),
           numpy.ma.array(numpy.array([DOUBLES[j % len(DOUBLES)] for j in range(n)], dtype=float))]
    path = os.path.join(tmp, "long.csv")
    ctx.case("write-long %d" % n, sample=None)
    ctx.count("long_table_cases")
    try:
        EEMSWrite("W", []).execute(OutFileName=path, OutFieldNames=[eems.Producer(a, nm, False) for a, nm in zip(big, ["x", "k", "d"])])
        for nm, col in zip(["x", "k", "d"], big):
            out = read_impl(path, nm, None, None)
            back = numpy.ma.getdata(out[1]) if out[0] == "ok" else None
            if back is None or back.shape != (n,) or not numpy.array_equal(back.astype(float).view(numpy.int64), numpy.ma.getdata(col).astype(float).view(numpy.int64)):
                j = None if back is None or back.shape != (n,) else int(numpy.nonzero(back.astype(float).view(numpy.int64) != numpy.ma.getdata(col).astype(float).view(numpy.int64))[0][0])
                ctx.fail("a table of %d rows written and read back: column %s %s" % (n, nm, "cannot be read: %s" % (out[1],) if back is None else
                         "has %r rows" % (back.shape,) if j is None else "differs first in row %d: %r written, %r read" % (j, col[j], back[j])), {"rows": n, "column": nm})
                break
    except Exception as e:
        ctx.fail("a table of %d rows cannot be written: %s" % (n, type(e).__name__), {"rows": n})
    # known finding: a missing cell is written as "--"
    path = os.path.join(tmp, "masked.csv")
    col = numpy.ma.array([1.0, -9999.0, 3.0], mask=[False, True, False])
    EEMSWrite("W", []).execute(OutFileName=path, OutFieldNames=[eems.Producer(col, "A", False)])
    back = read_impl(path, "A", None, None)
    ctx.count("known_finding_witnesses")
    if back[0] != "ok":
        ctx.fail("a column with a missing cell is written as %r and cannot be read back (%s)" % (open(path).read(), back[1]), {"column": "[1.0, --, 3.0]"}, finding="C17-F16-masked-write")


def replay(path):
    import json
    print(json.dumps(json.load(open(path)), indent=1)[:6000])
    return 0
