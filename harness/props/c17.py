"""C17 — CSV reading and writing are faithful.

proof:          lean/MPilot/Props/C17.lean
correspondence: the real EEMSRead/EEMSWrite bodies vs the model (csv reader/writer model + column reading) on random tables: any number of rows
                and columns, header names needing CSV quoting, blank lines, both element types, every missing-value choice
oracles:        values in row order with blank lines skipped and the requested element type; exactly the cells equal to the declared missing value
                (after conversion to the element type) missing; unaffected by the other columns; missing header / non-numeric cell reported with the
                file line; written header = result names in order, one row per cell; a written file read back gives bit-identical doubles for all
                non-missing finite numbers (subnormals, extremes, negative zero)
                directed classes (oracles only): text columns whose cells / header names hold VT, FF, FS/GS/RS, NEL, U+2028/9 and result names holding line breaks
                (`text_columns`); tables of 150 KiB - 3 MiB with multi-line quoted cells in the text columns (`large_tables`); models that write the file
                they read, named by another spelling, in several command orders (`in_place_models`)
known finding:  a missing cell is written as `--`, which cannot be read back (C17-F16-masked-write)
"""
import csv
import io
import math
import os
import struct
from fractions import Fraction

import numpy

from .. import common, eems
from ..common import enc_str

HEADERS = ["a", "b", "col 3", "x,y", 'q"uote', "é", "A", "value", "1", "new\nline", " lead", "", "a", "trail ", " b", "  both  "]
DOUBLES = [0.0, -0.0, 1.0, -1.0, 0.1, 1 / 3.0, 5e-324, 2.2250738585072014e-308, 2.225073858507201e-308, 1.7976931348623157e+308, -1.7976931348623157e+308,
           1e16, 1e15, 123456789.12345679, 9007199254740993.0, 1e-7, 1.5e-5, 0.30000000000000004, 2.5, -99.0, 1e22, 1e23, 4.9e-324, 1e-300, 3.141592653589793]
CELLS = ["1", "2.5", "-3", "2.7", "-1.6", "0.9", "3.5", "1.5", "-0.5", "99.99", " 4 ", "1e3", "1_0", ".5", "5.", "+7", "0", "-0.0", "1E-2", "007"]
BAD_CELLS = ["x", "", "1,5", "--", "NULL", "1 2", "0x10", "1e", "nan", "inf"]


def write_file(path, text):
    with open(path, "w", encoding="utf-8", newline="") as f:
        f.write(text)


def read_impl(path, field, missing, integer):
    """real EEMSRead, evaluated the way a program evaluates it: arguments as written (names, numbers, type names), cleaned by
    `validate_params`, body run by `Command.run`.  Exceptions of the body that are no MPilot errors arrive wrapped; they are reported as raw."""
    from mpilot.libraries.eems.csv.io import EEMSRead
    from mpilot.arguments import Argument
    from mpilot.exceptions import MPilotError, UnexpectedError
    args = [Argument("InFileName", path, 6), Argument("InFieldName", field, 7)]
    if missing is not None:
        args.append(Argument("MissingVal", missing, 8))
    if integer is not None:
        args.append(Argument("DataType", "Integer" if integer else "Float", 9))
    try:
        with numpy.errstate(all="ignore"):
            return ("ok", EEMSRead("R", args, lineno=5).result)
    except UnexpectedError as e:
        return ("raw", type(e.exc).__name__, str(e.exc))
    except MPilotError as e:
        return ("mp", type(e).__name__, str(e))
    except Exception as e:
        return ("raw", type(e).__name__, str(e))


def table_text(rng, ncols, nrows, wild):
    headers = rng.sample(HEADERS, ncols) if not wild else [rng.choice(HEADERS) for _ in range(ncols)]
    rows = []
    truth = []          # per data row: list of cell strings (None = blank line)
    for _ in range(nrows):
        if rng.random() < 0.12:
            rows.append(None); continue
        cells = []
        for _ in range(ncols):
            r = rng.random()
            if wild and r < 0.04:
                cells.append(rng.choice(BAD_CELLS))
            elif r < 0.5:
                cells.append(rng.choice(CELLS))
            else:
                cells.append(repr(rng.choice(DOUBLES + [float(rng.randrange(-5, 6)), rng.choice([-99.0, 2.0, 2.5])])))
        if wild and rng.random() < 0.05 and ncols > 1:
            cells = cells[:-1]          # ragged row
        rows.append(cells)
    buf = io.StringIO()
    w = csv.writer(buf, lineterminator="\n")
    w.writerow(headers)
    text = buf.getvalue()
    for r in rows:
        if r is None:
            text += "\n"
        else:
            b = io.StringIO(); csv.writer(b, lineterminator="\n").writerow(r); text += b.getvalue()
    if rng.random() < 0.2 and text.endswith("\n"):
        text = text[:-1]                 # no newline at the end of the file
    return headers, rows, text


def bits(x):
    return struct.pack(">d", float(x))


def reread_after_fault(ctx, tmp):
    """one EEMSRead command asked again after its file was repaired step by step: every failed attempt names the file line of the (then) first bad cell,
    and the last attempt returns the column"""
    from mpilot.libraries.eems.csv.io import EEMSRead
    from mpilot.arguments import Argument
    from mpilot.exceptions import MPilotError
    rng = ctx.rng
    for rep in range(ctx.budget(6, 60)):
        n = rng.randrange(5, 12)
        rows = [[str(rng.randrange(100)), str(rng.randrange(100))] for _ in range(n)]
        blanks = sorted(rng.sample(range(1, n), rng.randrange(0, 3)))
        bad = sorted(rng.sample(range(n), rng.randrange(2, 4)))
        for k in bad:
            rows[k][1] = rng.choice(["x", "n/a", "", "1,5".replace(",", ";")])

        def text():
            out, line, where = ["a,b"], 1, {}
            for i, r in enumerate(rows):
                if i in blanks:
                    out.append(""); line += 1
                out.append(",".join(r)); line += 1
                where[i] = line
            return "\n".join(out) + "\n", where
        path = os.path.join(tmp, "reread_%d.csv" % rep)
        cmd = EEMSRead("R", [Argument("InFileName", path, 2), Argument("InFieldName", "b", 3)], lineno=1)
        history = []
        for step in range(len(bad) + 1):
            t, where = text()
            write_file(path, t)
            try:
                with numpy.errstate(all="ignore"):
                    r = cmd.result
                got = ("ok", r)
            except MPilotError as e:
                got = ("mp", type(e).__name__, str(e))
            except Exception as e:
                got = ("raw", type(e).__name__, str(e))
            history.append(t)
            ctx.count("reads_after_a_failed_read")
            desc = {"file_texts_in_turn": history, "InFieldName": "b"}
            if step < len(bad):
                want = where[bad[step]]
                if not (got[0] == "mp" and got[1] == "InvalidDataFile" and ("line %d." % want) in got[2]):
                    ctx.fail("attempt %d of the same EEMSRead command: the first non-numeric cell is on file line %d, reported: %s %r" % (step + 1, want, got[1], got[2][:120]), desc)
                    break
                rows[bad[step]][1] = str(rng.randrange(100))
            else:
                want = [float(r[1]) for r in rows]
                if got[0] != "ok" or numpy.ma.getdata(got[1]).tolist() != want or numpy.ma.getmaskarray(got[1]).any():
                    ctx.fail("after the file was repaired the same EEMSRead command returns %s, the column is %r" % (got[1] if got[0] != "ok" else got[1].tolist(), want), desc)
        ctx.case("reread %d %r" % (rep, rows), sample=None)


# characters at which `str.splitlines()` ends a line and a text file does not (a file's lines end at LF, CR, CRLF only): inside a cell they are content
SEPARATORS = [("VT", "\x0b"), ("FF", "\x0c"), ("FS", "\x1c"), ("GS", "\x1d"), ("RS", "\x1e"), ("NEL", "\x85"), ("LS", "\u2028"), ("PS", "\u2029")]


def _table(headers, rows, nl="\n"):
    b = io.StringIO()
    w = csv.writer(b, lineterminator=nl)
    w.writerow(headers)
    w.writerows(rows)
    return b.getvalue()


def _column_wrong(out, want, integer=False):
    """None when the read `out` is the column `want` (doubles bit for bit, row order, nothing missing, requested element type); else what is wrong"""
    if out[0] != "ok":
        return "the read fails: %s %s" % (out[1], " / ".join(out[2].split("\n"))[:160])
    arr = out[1]
    if arr.dtype.kind != ("i" if integer else "f"):
        return "element type %s" % arr.dtype
    if arr.shape != (len(want),):
        return "%r cells read, the table has %d data rows" % (arr.shape, len(want))
    if numpy.ma.getmaskarray(arr).any():
        return "cells are missing although no missing value was declared"
    got = numpy.ma.getdata(arr).astype(float).view(numpy.int64)
    exp = numpy.array(want, dtype=float).view(numpy.int64)
    if not numpy.array_equal(got, exp):
        k = int(numpy.nonzero(got != exp)[0][0])
        return "%d rows differ, first row %d: read %r, the file says %r" % (int((got != exp).sum()), k, numpy.ma.getdata(arr)[k].item(), want[k])
    return None


def text_columns(ctx, tmp):
    """tables with free-text columns next to the numeric ones: a text cell (or a header name) may hold any character - a vertical tab (a spreadsheet's in-cell
    break), a form feed (text taken from a PDF), the separators FS/GS/RS, NEL, U+2028/U+2029; a quoted one also line breaks.  The requested column's values
    come back in row order whatever the other columns hold, a bad cell is reported with its file line (tables without line breaks inside cells: the file
    line is unambiguous), and a column written by EEMSWrite under a name that holds a line break is found again."""
    from mpilot.libraries.eems.csv.io import EEMSWrite
    values = [1.5, -0.0, 2.5, 5e-324, 0.1, -99.0, 1e22, 4.25, 7.0, 1 / 3.0]
    ints = [3, -1, 0, 12, 7, 7, -40, 5, 1000000, 2]
    path = os.path.join(tmp, "text.csv")
    combos = SEPARATORS + [("all", "".join(c for _, c in SEPARATORS)), ("none", "-")]
    for nm, ch in combos:
        for nl in ("\n", "\r\n"):
            # the character alone in a cell, at the start / end / middle of a cell, in a quoted cell (comma, quote) and in header names - of a text column and of a numeric one
            texts = ["plain text", "page one%spage two" % ch, ch, "ends with%s" % ch, "%sstarts with" % ch, 'a, quoted "cell"%swith it' % ch, "x", "%s%s" % (ch, ch), "last%sbut one" % ch, "the end"]
            headers = ["remarks", "score", "foot%snote" % ch, "count%sof" % ch]
            rows = [[t, repr(v), texts[-1 - i], str(k)] for i, (t, v, k) in enumerate(zip(texts, values, ints))]
            text = _table(headers, rows, nl)
            write_file(path, text)
            desc = {"file_text": text, "character_in_the_text_cells": nm}
            ctx.case("text-columns %s %r" % (nm, nl), sample=None)
            for field, want, integer in (("score", values, None), (headers[3], [float(k) for k in ints], True), ("score", values, False)):
                ctx.count("text_column_reads")
                bad = _column_wrong(read_impl(path, field, None, integer), want, bool(integer))
                if bad:
                    ctx.fail("a numeric column next to text columns whose cells hold %s: %s" % (nm, bad), dict(desc, InFieldName=field))
                    break
            # the file line of a bad cell (cells hold no line break: row k of the table is line k + 2 of the file)
            for k in (1, 6, 9):
                rows2 = [list(r) for r in rows]
                rows2[k][1] = "n/a"
                text2 = _table(headers, rows2, nl)
                write_file(path, text2)
                out = read_impl(path, "score", None, None)
                ctx.count("text_column_bad_cell_reads")
                if not (out[0] == "mp" and out[1] == "InvalidDataFile" and ("line %d." % (k + 2)) in out[2]):
                    ctx.fail("a non-numeric cell on file line %d (text cells of other columns hold %s) is reported as %s %r" % (k + 2, nm, out[1] if out[0] != "ok" else "a column", out[2][:120] if out[0] != "ok" else ""),
                             {"file_text": text2, "InFieldName": "score", "character_in_the_text_cells": nm})
                    break
    # header names that need CSV quoting because they hold a line break: written by EEMSWrite, every column is found again under its name, bit for bit
    for names in (["A", "Mean annual\ntemperature"], ["two\nline\nname", "B", "C"], ["trailing\n", "x"], ["x", "\nleading"], ["a\n\nb", "a", "b"], ["k", "line\nbreak, and comma", 'line\nbreak and "quote"'],
                  ["Mean annual\ntemperature", "Mean annual", "temperature"], ["v\x0bt", "f\x0cf", "l\u2028s"]):
        cols = [numpy.ma.array([values[(i + 3 * j) % len(values)] for i in range(6)], dtype=float) for j in range(len(names))]
        wpath = os.path.join(tmp, "names.csv")
        desc = {"result_names": names, "columns": [c.tolist() for c in cols]}
        ctx.case("names-with-breaks %r" % (names,), sample=None)
        try:
            EEMSWrite("W", []).execute(OutFileName=wpath, OutFieldNames=[eems.Producer(a, nm, False) for a, nm in zip(cols, names)])
        except Exception as e:
            ctx.fail("EEMSWrite failed on result names holding line breaks: %s" % type(e).__name__, desc)
            continue
        desc["written"] = open(wpath, encoding="utf-8", newline="").read()
        recs = list(csv.reader(io.StringIO(desc["written"])))
        if not recs or recs[0] != names or len(recs) != 7:
            ctx.fail("header %r / %d rows written; the result names in order are %r, 6 cells each" % (recs[:1], len(recs) - 1, names), desc)
            continue
        for nm, col in zip(names, cols):
            ctx.count("reads_by_a_name_with_line_break" if "\n" in nm else "reads_next_to_a_name_with_line_break")
            bad = _column_wrong(read_impl(wpath, nm, None, None), col.tolist())
            if bad:
                ctx.fail("a column written by EEMSWrite under the name %r and read back by that name: %s" % (nm, bad), dict(desc, InFieldName=nm))
                break


def big_table(nrows, variant, flat_until=0, bad=None):
    """a table of `nrows` rows (a pure function of its arguments): id, notes, value, site, k.  variant "lines": the quoted notes / site cells hold several
    line breaks (what a spreadsheet export of a remarks column looks like) - most line ends of the file lie inside a cell; "flat" (and the rows before
    `flat_until`): quoted cells with commas and quotes but no line break, a blank line now and then.  The value cell of row `bad` is not a number.
    Returns (text, value column, k column, file line of every row)."""
    vals, ks, lines = [], [], []
    line = 2
    b = io.StringIO()
    w = csv.writer(b, lineterminator="\n")
    w.writerow(["id", "notes", "value", "site", "k"])
    for i in range(nrows):
        v = ((i * 37) % 1009) / 7.0 - 50.0 if i % 11 else DOUBLES[(i // 11) % len(DOUBLES)]
        k = (i * 7919) % 100003 - 50000
        if variant == "lines" and i >= flat_until:
            note = "site %d\nvisit 1: dry\nvisit 2: wet, \"flooded\"\n\nsee sheet %d\n%s\nq\nr\n s\nend" % (i, i % 13, "x" * (i % 57))
            site = 'plot "%d"\nrow %d\n' % (i % 89, i) if i % 3 else "p%d" % i
        else:
            note = 'site %d, surveyed twice; see "sheet %d" %s' % (i, i % 13, "x" * (i % 57))
            site = "p%d" % i
            if i % 97 == 50:
                b.write("\n"); line += 1                # a blank line: skipped, but it is a line of the file
        w.writerow([i, note, "n/a" if i == bad else repr(v), site, k])
        vals.append(v); ks.append(k); lines.append(line)
        line += 1 + note.count("\n") + site.count("\n")
    return b.getvalue(), vals, ks, lines


def large_tables(ctx, tmp):
    """tables of some hundred KiB to a few MiB (a ladder: a reader that works through the file piece by piece has its seams somewhere) whose text columns hold
    multi-line quoted cells: both numeric columns come back complete, in row order, bit for bit, whatever the text columns hold; a bad cell far down in a
    large table is reported with its file line"""
    path = os.path.join(tmp, "large.csv")
    for nrows in (1200, 5000, 21000):
        for variant, nl in (("lines", "\n"), ("flat", "\n")) + ((("lines", "\r\n"),) if nrows == 5000 else ()):
            text, vals, ks, lines = big_table(nrows, variant)
            text = text.replace("\n", nl)          # (line breaks inside cells too: a file read in text mode delivers them as \n either way)
            write_file(path, text)
            recipe = {"table": "harness.props.c17.big_table(%d, %r)" % (nrows, variant), "line_ends": nl, "bytes": len(text.encode("utf-8")), "rows": nrows, "file_text_starts": text[:700]}
            ctx.case("large-table %d %s %r" % (nrows, variant, nl), sample=None)
            ctx.count("large_table_reads:%s" % variant)
            for field, want, integer in (("value", vals, None), ("k", [float(k) for k in ks], True)):
                bad = _column_wrong(read_impl(path, field, None, integer), want, bool(integer))
                if bad:
                    ctx.fail("a table of %d rows / %d bytes with %s: column %s: %s" % (
                        nrows, recipe["bytes"], "multi-line quoted cells in its text columns" if variant == "lines" else "quoted text cells and blank lines", field, bad), dict(recipe, InFieldName=field))
                    break
            # a non-numeric cell far down: its file line (no line break inside a cell above the bad row - multi-line cells only below it: the line is unambiguous)
            for k in ((nrows * 9) // 10, nrows - 1):
                text2, _, _, lines2 = big_table(nrows, variant, flat_until=k + 1, bad=k)
                write_file(path, text2.replace("\n", nl))
                out = read_impl(path, "value", None, None)
                ctx.count("large_table_bad_cell_reads")
                if not (out[0] == "mp" and out[1] == "InvalidDataFile" and ("line %d." % lines2[k]) in out[2]):
                    ctx.fail("a table of %d bytes: the non-numeric cell on file line %d is reported as %s %r" % (len(text2), lines2[k], out[1] if out[0] != "ok" else "a column", out[2][:120] if out[0] != "ok" else ""),
                             dict(recipe, table="harness.props.c17.big_table(%d, %r, flat_until=%d, bad=%d)" % (nrows, variant, k + 1, k), InFieldName="value", bad_cell_on_file_line=lines2[k],
                                  that_line=text2.split("\n")[lines2[k] - 1][:200]))
                    break


IN_PLACE_SPELLINGS = ["data.csv", "./data.csv", "sub/../data.csv", "ABS", "link.csv", ".//data.csv"]


def in_place_models(ctx, tmp):
    """models that extend a table in place: they read columns from a file and write them, with a derived one, to that same file - named by the same or by
    another spelling (`./data.csv`, through a folder and back, absolute, through a symbolic link).  The order of the commands in the file is free and the
    writer may be the only command asked: the columns read are those of the table as it was, the file ends up with the listed header, one row per cell,
    and reads back bit for bit."""
    import itertools
    from mpilot.program import Program
    rng = ctx.rng
    A = [0.1, -0.0, 5e-324, 1.7976931348623157e308, 3.0, 2.5]
    B = [0.2, 1.0, 2.5, -1.0e300, -3.0, 0.25]
    orders = list(itertools.permutations(range(4)))
    picks = [(0, 1, 2, 3), (3, 2, 0, 1), (3, 0, 1, 2), (1, 3, 0, 2)] + rng.sample(orders, min(24, ctx.budget(2, 24)))
    n = 0
    for order in picks:
        for how in ("run", "writer-only"):
            spelling = IN_PLACE_SPELLINGS[n % len(IN_PLACE_SPELLINGS)]
            rd = IN_PLACE_SPELLINGS[(n // len(IN_PLACE_SPELLINGS)) % 2]
            n += 1
            d = os.path.join(tmp, "inplace%d" % (n % 3))
            os.makedirs(os.path.join(d, "sub"), exist_ok=True)
            path = os.path.join(d, "data.csv")
            if os.path.lexists(os.path.join(d, "link.csv")):
                os.remove(os.path.join(d, "link.csv"))
            os.symlink("data.csv", os.path.join(d, "link.csv"))
            original = "A,B\n" + "".join("%r,%r\n" % p for p in zip(A, B))
            write_file(path, original)
            out_name = path if spelling == "ABS" else spelling
            cmds = ['A = EEMSRead(InFileName = "%s", InFieldName = "A")' % rd, 'B = EEMSRead(InFileName = "%s", InFieldName = "B")' % rd, "Total = Sum(InFieldNames = [A, B])",
                    'Out = EEMSWrite(OutFileName = "%s", OutFieldNames = [B, Total, A])' % out_name]
            src = "\n".join(cmds[i] for i in order) + "\n"
            desc = {"source": src, "working_dir_holds": {"data.csv": original, "link.csv": "symbolic link to data.csv", "sub/": "folder"}, "evaluated_by": "Program.run()" if how == "run" else "asking only the writer for its result"}
            ctx.case("in-place %r %s" % (src, how), sample=None)
            ctx.count("in_place_models")
            try:
                with numpy.errstate(all="ignore"):
                    p = Program.from_source(src, working_dir=d)
                    if how == "run":
                        p.run()
                    else:
                        p.commands["Out"].result
                    total = numpy.ma.getdata(p.commands["Total"].result).tolist()
            except Exception as e:
                left = open(path, encoding="utf-8", newline="").read() if os.path.exists(path) else None
                ctx.fail("a model that reads columns A, B of a table and writes B, Total, A back to the same file (as %r) fails: %s %s; the file now holds %r" % (
                    out_name, type(e).__name__, " / ".join(str(e).split("\n"))[:160], None if left is None else left[:80]), desc)
                continue
            text = open(path, encoding="utf-8", newline="").read()
            recs = list(csv.reader(io.StringIO(text)))
            desc["written"] = text
            if not recs or recs[0] != ["B", "Total", "A"] or len(recs) != len(A) + 1:
                ctx.fail("the table extended in place has header %r and %d rows; listed were B, Total, A with %d cells" % (recs[:1], len(recs) - 1, len(A)), desc)
                continue
            for nm, want in (("A", A), ("B", B), ("Total", total)):
                bad = _column_wrong(read_impl(path, nm, None, None), want)
                if bad:
                    ctx.fail("the table extended in place, column %s read back: %s" % (nm, bad), dict(desc, InFieldName=nm))
                    break
            if [bits(x) for x in total] != [bits(a + b) for a, b in zip(A, B)]:
                ctx.fail("the columns read from the table were not its columns: Total is %r, the table held A = %r, B = %r" % (total, A, B), desc)


def template_headers(ctx, tmp):
    """column names that look like templates to a formatter - braces, percent signs, backslashes, dollar signs: a column is found under such a name, its
    values are returned, and a non-numeric or empty cell in it (first row, last row) is reported as the invalid-data error with its file line and the name"""
    names = ["NDVI{2019}", "{}", "{0}", "set{a,b}", "open{", "a}b", "pct%", "%s", "%(x)s", "100%d", "C:\\dir\\col", "$total", "{{x}}", "a{b}c{d}", "{!r}", "{:>8}"]
    for name in names:
        for bad_row, bad in ((None, None), (0, "x"), (2, ""), (2, "n/a")):
            cells = ["1.5", "2.5", "3.5"]
            if bad_row is not None:
                cells[bad_row] = bad
            text = _table(["id", name, "other{}"], [[str(i), c, "7"] for i, c in enumerate(cells)])
            path = os.path.join(tmp, "tmpl.csv")
            write_file(path, text)
            out = read_impl(path, name, None, None)
            ctx.case("template header %r %r" % (name, bad_row), sample=None)
            ctx.count("template_header_reads")
            desc = {"file_text": text, "InFieldName": name}
            if bad_row is None:
                if out[0] != "ok" or numpy.ma.getdata(out[1]).tolist() != [1.5, 2.5, 3.5]:
                    ctx.fail("the column named %r holds 1.5, 2.5, 3.5; EEMSRead returns %s" % (name, out[1] if out[0] != "ok" else out[1].tolist()), desc)
            elif not (out[0] == "mp" and out[1] == "InvalidDataFile" and ("line %d." % (bad_row + 2)) in out[2]):
                ctx.fail("a non-numeric cell (%r) on file line %d of the column named %r is reported as %s %r - not as the invalid-data error with that line" % (
                    bad, bad_row + 2, name, out[1], str(out[2])[:160]), desc)


def run(ctx):
    ctx.check_proofs(["MPilot.Props.C17", "MPilot.Props.C17Table", "MPilot.Props.Findings"])
    model = common.Model()
    rng = ctx.rng
    tmp = common.tmpdir("mpv_c17_")
    lines, metas = [], []
    for i in range(ctx.budget(60, 3000)):
        wild = i % 3 == 0
        ncols = rng.randrange(1, 7)
        nrows = rng.choice([0, 1, 2, 3, 5, 8, 20, 40])
        headers, rows, text = table_text(rng, ncols, nrows, wild)
        path = os.path.join(tmp, "t%d.csv" % (i % 20))
        write_file(path, text)
        field = rng.choice(headers) if rng.random() < 0.9 else "nosuch"
        missing = rng.choice([None, None, -99, -99.0, 2, 2.5, 0, 1e22, "2"][:8])
        integer = rng.choice([None, False, True])
        out = read_impl(path, field, missing, integer)
        ctx.case("read %s %r %r %r" % (text, field, missing, integer), sample={"text": text[:200], "field": field, "missing": missing, "integer": integer,
                                                                              "impl": (out[0] + " " + (repr(out[1].tolist())[:100] if out[0] == "ok" else out[1]))})
        ctx.count("read_outcome:" + out[0] + ("" if out[0] == "ok" else ":" + out[1]))
        desc = {"file_text": text, "InFieldName": field, "MissingVal": missing, "DataType": "Integer" if integer else "Float" if integer is False else None}
        # ---- oracles on the implementation (independent of the model): expected column from the generator's own table
        idx = headers.index(field) if field in headers else None
        data_rows = [r for r in rows if r is not None]

        def too_big(c):
            try:
                return abs(float(c)) >= 2.0 ** 62
            except (ValueError, TypeError):
                return False
        if integer and (too_big(missing) or (idx is not None and any(len(r) > idx and too_big(r[idx]) for r in data_rows))):
            ctx.count("outside_int64_range")          # Integer columns holding numbers beyond int64: overflow is outside the exact-integer model
            continue
        clean = idx is not None and all(len(r) > idx and r[idx] not in BAD_CELLS for r in data_rows) and not any("\n" in h for h in headers)
        if idx is None and not any("\n" in h for h in headers):
            if not (out[0] == "mp" and out[1] == "InvalidDataFile"):
                ctx.fail("a missing header is not reported as InvalidDataFile: %s" % (out[:2],), desc)
        elif clean:
            if out[0] != "ok":
                ctx.fail("a well-formed column fails to read: %s %s" % (out[1], out[2][:100]), desc)
            else:
                arr = out[1]
                want = [float(r[idx]) for r in data_rows]
                if integer:
                    want = [float(int(v)) for v in want]
                mv = None if missing is None else (float(int(float(missing))) if integer else float(missing))
                wmask = [mv is not None and v == mv for v in want]
                if arr.dtype.kind != ("i" if integer else "f"):
                    ctx.fail("column read with element type %s, requested %s" % (arr.dtype, "Integer" if integer else "Float"), desc)
                elif len(arr) != len(want):
                    ctx.fail("column has %d cells, the file has %d data rows" % (len(arr), len(want)), desc)
                else:
                    gm = numpy.ma.getmaskarray(arr).tolist()
                    if gm != wmask:
                        ctx.fail("missing cells %r; exactly the cells equal to the missing value %r are %r" % (gm, missing, wmask), desc)
                    else:
                        gd = numpy.ma.getdata(arr).tolist()
                        for k, (g, w, m) in enumerate(zip(gd, want, wmask)):
                            if not m and (bits(g) != bits(w) if not integer else g != w):
                                ctx.fail("row %d: read %r, the file says %r" % (k, g, w), desc)
                                break
                # other columns are irrelevant
                if ncols > 1 and rng.random() < 0.5:
                    rows2 = [None if r is None else [c if j == idx else rng.choice(CELLS) for j, c in enumerate(r)] for r in rows]
                    t2 = io.StringIO(); w2 = csv.writer(t2, lineterminator="\n"); w2.writerow(headers)
                    text2 = t2.getvalue() + "".join("\n" if r is None else _row(r) for r in rows2)
                    write_file(path + ".twin", text2)
                    out2 = read_impl(path + ".twin", field, missing, integer)
                    ctx.count("other_column_twins")
                    if out2[0] != "ok" or common.vis_arr(out2[1]) != common.vis_arr(arr):
                        ctx.fail("changing only the other columns changed the column read", {"file_text": text, "twin_text": text2, "InFieldName": field})
        elif idx is not None and not any("\n" in h for h in headers):
            # first offending row decides: a non-numeric cell -> InvalidDataFile naming its file line
            for k, r in enumerate(rows):
                if r is None:
                    continue
                if len(r) <= idx:
                    break
                if r[idx] in BAD_CELLS and r[idx] not in ("nan", "inf"):
                    if not (out[0] == "mp" and out[1] == "InvalidDataFile" and ("line %d." % (k + 2)) in out[2]):
                        ctx.fail("non-numeric cell %r on file line %d reported as %s %r" % (r[idx], k + 2, out[1], out[2][:120] if len(out) > 2 else ""), desc)
                    break
        # ---- correspondence
        try:
            mtxt = "-" if missing is None else common.enc_rat(Fraction(str(missing)) if not isinstance(missing, str) else Fraction(missing))
        except Exception:
            mtxt = "-"
        lines.append("csvread %s %s %s %d" % (enc_str(text), enc_str(field), mtxt, 1 if integer else 0))
        metas.append((out, desc))
    answers = model.ask(lines)
    for (out, desc), ans in zip(metas, answers):
        if ans == "outside":
            ctx.count("outside_model_domain")
            continue
        if ans.startswith("ok "):
            if out[0] != "ok":
                ctx.disagree("csvread", desc, "%s %s" % (out[0], out[1]), ans[:200])
            else:
                try:
                    d = common.same_vis(common.vis_arr(out[1]), common.parse_model_arr(ans[3:]), tol=1e-15)
                except Exception as e:
                    d = "unparsable model answer: %s" % e
                if d:
                    ctx.disagree("csvread", desc, repr(out[1])[:200], ans[:200] + " :: " + d)
        elif ans.startswith("err raw"):
            if out[0] != "raw":
                ctx.disagree("csvread", desc, "%s %s" % (out[0], out[1] if out[0] != "ok" else ""), ans)
        else:
            want_cls = ans.split(" ")[1]
            if out[0] != "mp" or out[1] != want_cls or (" line " in ans and ("line %s." % ans.split(" ")[-1]) not in out[2]):
                ctx.disagree("csvread", desc, "%s %s %s" % (out[0], out[1] if out[0] != "ok" else "", out[2][:80] if len(out) > 2 and out[0] != "ok" else ""), ans)
    write_checks(ctx, model, tmp)
    reread_after_fault(ctx, tmp)
    text_columns(ctx, tmp)
    template_headers(ctx, tmp)
    large_tables(ctx, tmp)
    in_place_models(ctx, tmp)
    return ctx.finish(
        rule="tables of 0-40 rows x 1-6 columns with header names that need CSV quoting (comma, quote, line break, blanks, empty, duplicates), blank lines, cells in "
             "many numeric spellings and doubles from subnormal to extreme, a third of the tables with non-numeric cells / ragged rows; each read with a random column, "
             "missing value (none, int, float, fractional, string) and element type; written tables of 1-5 columns; distinct by file text + request",
        explanation="theorems in Props/C17.lean hold for the column-reading model; the real EEMSRead/EEMSWrite bodies are compared with the model (csv reader/writer model included) "
                    "on every table; order/type/mask/independence/line oracles and the bit-identity of the write-read round trip are evaluated on the implementation")


def _row(r):
    b = io.StringIO(); csv.writer(b, lineterminator="\n").writerow(r); return b.getvalue()


def write_checks(ctx, model, tmp):
    from mpilot.libraries.eems.csv.io import EEMSWrite, EEMSRead
    from .. import prog
    rng = ctx.rng
    wlines, wmetas = [], []
    for i in range(ctx.budget(25, 1200)):
        n = rng.randrange(1, 12)
        k = rng.randrange(1, 6)
        names = rng.sample([h for h in HEADERS if h and "\n" not in h] + ["R1", "Res_2", "z"], k)
        cols = []
        for _ in range(k):
            if rng.random() < 0.3:
                cols.append(numpy.ma.array([rng.randrange(-5, 50) for _ in range(n)], dtype=int))
            else:
                cols.append(numpy.ma.array([rng.choice(DOUBLES) for _ in range(n)], dtype=float))
        producers = [eems.Producer(a, nm, False) for a, nm in zip(cols, names)]
        path = os.path.join(tmp, "w%d.csv" % (i % 10))
        try:
            EEMSWrite("W", []).execute(OutFileName=path, OutFieldNames=producers)
        except Exception as e:
            ctx.fail("EEMSWrite failed on plain 1-D results: %s" % type(e).__name__, {"names": names})
            continue
        text = open(path, encoding="utf-8", newline="").read()
        ctx.case("write " + text, sample={"names": names, "text": text[:200]})
        ctx.count("write_cases")
        desc = {"result_names": names, "columns": [c.tolist() for c in cols], "written": text}
        recs = list(csv.reader(io.StringIO(text)))
        if not recs or recs[0] != names:
            ctx.fail("header %r is not the result names in order %r" % (recs[:1], names), desc)
            continue
        if len(recs) != n + 1:
            ctx.fail("%d data rows written for %d cells" % (len(recs) - 1, n), desc)
            continue
        # read every column back: bit-identical doubles
        all_float = any(c.dtype.kind == "f" for c in cols)
        for j, (nm, col) in enumerate(zip(names, cols)):
            if names.count(nm) > 1:
                continue
            out = read_impl(path, nm, None, None)
            if out[0] != "ok":
                ctx.fail("a written column cannot be read back: %s %s" % (out[1], out[2][:80]), desc)
                break
            back = numpy.ma.getdata(out[1]).tolist()
            orig = [float(v) for v in col.tolist()]
            if [bits(x) for x in back] != [bits(x) for x in orig]:
                bad = next(p for p in zip(orig, back) if bits(p[0]) != bits(p[1]))
                ctx.fail("write + read back changed a value: %r came back as %r" % bad, desc)
                break
        # model of the writer: cell texts as Python renders them, table structure from the model
        # (the model assembles the table itself - Model/Csv.csvWriteTable, Props/C17Table.lean: header in the listed order, record i = cell i of every result)
        promoted = [c.astype(float) if all_float else c for c in cols]
        cells = [repr(float(c[r])) if c.dtype.kind == "f" else str(int(c[r])) for c in promoted for r in range(n)]
        wlines.append("csvtable %d %d %s %s" % (k, n, " ".join(enc_str(x) for x in names), " ".join(enc_str(x) for x in cells)))
        wmetas.append((text, desc))
    for (text, desc), ans in zip(wmetas, model.ask(wlines)):
        if common.dec_str(ans) != text:
            ctx.disagree("csvwrite", desc, text[:300], common.dec_str(ans)[:300])
    # the same path rewritten at once with another table of the same size in bytes: a read returns what the file holds now
    path = os.path.join(tmp, "again.csv")
    for rnd in range(3):
        for a, b in (([1.5, 2.5, 3.5], [4.5, 9.5, 0.5]), ([10, 20, 30], [11, 21, 31]), ([0.25, 0.75], [0.75, 0.25]), ([-0.0, 1.0, 3.0], [2.0, -0.0, 5.0]), ([-0.0], [0.0])):
            got = []
            for col in (a, b):
                EEMSWrite("W", []).execute(OutFileName=path, OutFieldNames=[eems.Producer(numpy.ma.array(col), "v", False)])
                out = read_impl(path, "v", None, None)
                got.append(numpy.ma.getdata(out[1]).tolist() if out[0] == "ok" else out[1])
            ctx.count("rewritten_file_reads")
            if repr(got) != repr([[float(x) for x in a], [float(x) for x in b]]):          # (by text: the sign of zero counts)
                ctx.fail("a file written, read, rewritten with other values of the same length and read again: the reads return %r and %r, the file held %r then %r" % (got[0], got[1], a, b),
                         {"first": a, "second": b})
                break
    # a long table (twenty thousand rows, three columns): written and read back bit for bit, rows in order
    n = 20000
    big = [numpy.ma.array(numpy.arange(n, dtype=float) * 0.1 - 777.7), numpy.ma.array(numpy.arange(n, dtype=int) * 7 - 50000, dtype=int),
           numpy.ma.array(numpy.array([DOUBLES[j % len(DOUBLES)] for j in range(n)], dtype=float))]
    path = os.path.join(tmp, "long.csv")
    ctx.case("write-long %d" % n, sample=None)
    ctx.count("long_table_cases")
    try:
        EEMSWrite("W", []).execute(OutFileName=path, OutFieldNames=[eems.Producer(a, nm, False) for a, nm in zip(big, ["x", "k", "d"])])
        for nm, col in zip(["x", "k", "d"], big):
            out = read_impl(path, nm, None, None)
            back = numpy.ma.getdata(out[1]) if out[0] == "ok" else None
            if back is None or back.shape != (n,) or not numpy.array_equal(back.astype(float).view(numpy.int64), numpy.ma.getdata(col).astype(float).view(numpy.int64)):
                j = None if back is None or back.shape != (n,) else int(numpy.nonzero(back.astype(float).view(numpy.int64) != numpy.ma.getdata(col).astype(float).view(numpy.int64))[0][0])
                ctx.fail("a table of %d rows written and read back: column %s %s" % (n, nm, "cannot be read: %s" % (out[1],) if back is None else
                         "has %r rows" % (back.shape,) if j is None else "differs first in row %d: %r written, %r read" % (j, col[j], back[j])), {"rows": n, "column": nm})
                break
    except Exception as e:
        ctx.fail("a table of %d rows cannot be written: %s" % (n, type(e).__name__), {"rows": n})
    # known finding: a missing cell is written as "--"
    path = os.path.join(tmp, "masked.csv")
    col = numpy.ma.array([1.0, -9999.0, 3.0], mask=[False, True, False])
    EEMSWrite("W", []).execute(OutFileName=path, OutFieldNames=[eems.Producer(col, "A", False)])
    back = read_impl(path, "A", None, None)
    ctx.count("known_finding_witnesses")
    if back[0] != "ok":
        ctx.fail("a column with a missing cell is written as %r and cannot be read back (%s)" % (open(path).read(), back[1]), {"column": "[1.0, --, 3.0]"}, finding="C17-F16-masked-write")


def replay(path):
    import json
    print(json.dumps(json.load(open(path)), indent=1)[:6000])
    return 0
