"""C02 — model results equal the evaluation of the graph, whatever the file order.

proof:          lean/MPilot/Props/C02.lean  (the run loop computes the denotation of the graph; the denotation does not depend on the textual
                order, on other consumers, or on metadata)
correspondence: random well-typed EEMS models over all built-in commands on CSV tables (int/float columns, missing cells), run with the REAL bodies:
                every execute call is recorded with its actual input arrays and replayed on the model's `exec`; the run loop itself is tied by C01
oracles:        results identical (same error, or same kind/type/shape/mask and values within 1e-9) across permutations of the file, with/without
                metadata, with/without extra consumers of intermediate results; no element-type/kind error arises in a well-typed model;
                wide fan-in (33-300 fields, partly missing cells) for every list command against the cell-wise definitions; fields of user-defined
                commands in unusual element types (bool, narrow/unsigned, half/single, big-endian) with 1-3 consumers in every file order; the
                table a path denotes for the operating system (links, link/.., second names, such working directories)
"""
import contextlib
import io
import os

import numpy

from .. import common, eems, prog, progrun
from ..progrun import Scenario, Name
from . import numeric

LIBS = progrun.EEMS_LIBS


def make_table(rng, tmp, idx):
    n = rng.choice([4, 5, 6, 8])
    cols = []
    for j in range(rng.randrange(2, 5)):
        integer = rng.random() < 0.4
        vals = [rng.choice(eems.INTS) if integer else float(rng.choice(eems.QUARTERS)) for _ in range(n)]
        if not integer and rng.random() < 0.3:
            # decimals that are no binary fractions (sums of them round): measurements as they come, within [-1, 1] so that fuzzy chains stay in range
            vals = [round(rng.uniform(-1, 1), rng.choice([1, 2, 3])) for _ in range(n)]
        if len(set(vals)) < 2:
            vals[0] = vals[0] + 1
        missing = None
        if rng.random() < 0.5:
            missing = rng.choice([-99, -99, 0])
            for k in rng.sample(range(n), rng.randrange(1, max(2, n // 3))):
                vals[k] = missing
            if not integer and rng.random() < 0.5:
                # a valid value very close to the marker: it is data, not a missing cell
                vals[rng.randrange(n)] = rng.choice([-98.9995, -99.0005]) if missing == -99 else rng.choice([4e-9, -4e-9])
        cols.append(("col%d" % j, integer, vals, missing))
    path = "table%d.csv" % (idx % 5)          # later models rewrite the files of earlier ones: each model reads what its file holds now
    with open(os.path.join(tmp, path), "w") as f:
        f.write(",".join(c[0] for c in cols) + "\n")
        for i in range(n):
            f.write(",".join(repr(c[2][i]) for c in cols) + "\n")
    return path, cols, n


def gen_model(rng, tmp, idx, depth):
    path, cols, n = make_table(rng, tmp, idx)
    cmds, nonfuzzy, fuzzy = [], [], []
    for name, integer, vals, missing in cols:
        args = [("InFileName", path), ("InFieldName", name)]
        if integer or rng.random() < 0.3:
            args.append(("DataType", "Integer" if integer else "Float"))
        if missing is not None:
            args.append(("MissingVal", missing))
        cmds.append(("R_" + name, "EEMSRead", args))
        nonfuzzy.append("R_" + name)
    pool = list(eems.COMMANDS)
    for i in range(depth):
        cmd = rng.choice(pool)
        fz_in = cmd in eems.FUZZY_CONSUMERS
        src = fuzzy if fz_in else nonfuzzy
        if not src:
            cmd = rng.choice(["CvtToFuzzy", "CvtToFuzzyZScore", "CvtToBinary"])
            src = nonfuzzy
        how = eems.COMMANDS[cmd][1]
        k = 1 if how == "one" else 2 if how == "ab" else rng.choice([1, 2, 2, 3, 4])
        if cmd == "FuzzyXOr":
            k = max(k, 2)
        hot = src[-3:] if rng.random() < 0.5 else src          # recent results get several consumers
        ins = [rng.choice(hot) for _ in range(k)]
        fake_inputs = [None] * k
        params = eems.gen_params(rng, cmd, fake_inputs, "valid")
        args = []
        if how == "one":
            args.append(("InFieldName", Name(ins[0])))
        elif how == "ab":
            args += [("A", Name(ins[0])), ("B", Name(ins[1]))]
        else:
            args.append(("InFieldNames", [Name(x) for x in ins]))
        for kname, v in params.items():
            args.append((kname, v))
        rng.shuffle(args)
        name = "%s_%d" % (cmd[:6], i)
        cmds.append((name, cmd, args))
        (fuzzy if cmd in eems.FUZZY_PRODUCERS else nonfuzzy).append(name)
    # models end by writing some of their results (the missing-value marker is sometimes 0: still a marker)
    if rng.random() < 0.7:
        outs = rng.sample(nonfuzzy + fuzzy, min(len(nonfuzzy + fuzzy), rng.randrange(1, 4)))
        cmds.append(("Out", "EEMSWrite", [("OutFileName", "out%d.csv" % idx), ("OutFieldNames", [Name(x) for x in outs])]))
    return cmds, path, cols


def check_reads(ctx, rec, cmds, cols, desc):
    """every EEMSRead of the model returned its column of the file as it is now: the numbers in row order, missing exactly at the cells equal to the marker"""
    by_name = {"R_" + c[0]: c for c in cols}
    for cname, rname, params, ins, (st, out) in rec.calls:
        if cname != "EEMSRead" or rname not in by_name or st != "ok":
            continue
        _, integer, vals, missing = by_name[rname]
        ctx.count("reader_results_checked")
        want_mask = [missing is not None and v == missing for v in vals]
        got_mask = numpy.ma.getmaskarray(out).tolist()
        got = numpy.ma.getdata(out).tolist()
        if len(got) != len(vals) or got_mask != want_mask:
            ctx.fail("EEMSRead %s of the model returned missing cells %r; the file holds %r with marker %r" % (rname, got_mask, vals, missing), desc)
            return
        bad = [(g, v) for g, v, m in zip(got, vals, want_mask) if not m and float(g) != float(v)]
        if bad:
            ctx.fail("EEMSRead %s of the model returned %r where the file holds %r" % ((rname,) + bad[0]), desc)
            return


def deep_chain(ctx, tmp):
    """a long model written in dependency order (450 accumulation steps through list inputs): evaluates like any other model"""
    n = 450
    with open(os.path.join(tmp, "chain.csv"), "w") as f:
        f.write("a,b\n1,0.5\n2,0.25\n")
    lines = ['Start = EEMSRead(InFileName = "chain.csv", InFieldName = a)', 'Inc = EEMSRead(InFileName = "chain.csv", InFieldName = b)']
    prev = "Start"
    for i in range(n):
        lines.append("Step_%d = Sum(InFieldNames = [%s, Inc])" % (i, prev))
        prev = "Step_%d" % i
    src = "\n".join(lines) + "\n"
    out = run_real(src, tmp)
    ctx.case("deep-chain %d" % n, sample=None)
    ctx.count("deep_chain_models")
    desc = {"source": src[:300] + " ... (%d steps in dependency order)" % n}
    if out["status"] != "ok":
        ctx.fail("a model of %d accumulation steps written in dependency order fails: %s" % (n, out["status"]), desc)
    else:
        got = out["results"].get(prev)
        want = [1 + n * 0.5, 2 + n * 0.25]
        if got is None or got[3] != want:
            ctx.fail("the last step of the %d-step model is %r, expected %r" % (n, got and got[3], want), desc)


def directed_models(ctx, tmp):
    """small models with hand-computed results, run in every order of their commands: one field with values outside [-1, 1] consumed by a conversion whose
    parameters make it the identity inside the range (thresholds 1 / -1, unit weights, a normalisation onto the field's own range) and by other commands"""
    import itertools
    with open(os.path.join(tmp, "dm.csv"), "w") as f:
        f.write("a,b\n-2.5,1\n0.5,0\n3,2\n1,4\n")
    a = [-2.5, 0.5, 3.0, 1.0]
    models = [
        (['A = EEMSRead(InFileName = "dm.csv", InFieldName = a)', "F = CvtToFuzzy(InFieldName = A, TrueThreshold = 1, FalseThreshold = -1)", "S = Sum(InFieldNames = [A, A])",
          "N = Normalize(InFieldName = A, StartVal = -2.5, EndVal = 3)", "M = Maximum(InFieldNames = [A])"],
         {"F": [-1.0, 0.5, 1.0, 1.0], "S": [2 * x for x in a], "N": a, "M": a, "A": a}),
        (['A = EEMSRead(InFileName = "dm.csv", InFieldName = a)', "W = WeightedSum(InFieldNames = [A], Weights = [1])", "F = CvtToFuzzy(InFieldName = A, TrueThreshold = 1.0, FalseThreshold = -1.0)",
          "G = FuzzyOr(InFieldNames = [F])", "D = AMinusB(A = A, B = W)"],
         {"W": a, "F": [-1.0, 0.5, 1.0, 1.0], "G": [-1.0, 0.5, 1.0, 1.0], "D": [0.0] * 4, "A": a}),
    ]
    # values exactly ON a boundary of a definition (round 8: `<` for `<=`, the tie at the mean, a cell on a threshold / control point / category code):
    # 1 2 3 4 5 has its mean, 3, among its cells; the halves of mean-to-mid are {1,2,3} and {4,5}, so the curve runs through (1,0) (2,.25) (3,.5) (4.5,.75) (5,1)
    with open(os.path.join(tmp, "dm2.csv"), "w") as f:
        f.write("t\n1\n2\n3\n4\n5\n")
    t = [1.0, 2.0, 3.0, 4.0, 5.0]
    models.append(
        (['T = EEMSRead(InFileName = "dm2.csv", InFieldName = t)', "M = NormalizeMeanToMid(InFieldName = T, IgnoreZeros = False, NormalValues = [0, 0.25, 0.5, 0.75, 1])",
          "B = CvtToBinary(InFieldName = T, Threshold = 3, Direction = LowToHigh)", "C = NormalizeCurve(InFieldName = T, RawValues = [2, 4], NormalValues = [0, 1])",
          "Z = CvtToFuzzyMeanToMid(InFieldName = T, IgnoreZeros = False, FuzzyValues = [-1, -0.5, 0, 0.5, 1])"],
         {"M": [0.0, 0.25, 0.5, 0.5 + 0.25 / 1.5, 1.0], "C": [0.0, 0.0, 0.5, 1.0, 1.0], "Z": [-1.0, -0.5, 0.0, 0.5 / 1.5, 1.0], "B": [0.0, 0.0, 1.0, 1.0, 1.0], "T": t}))
    # rarely used options on data that makes them matter (round 9): IgnoreZeros with zeros at the low end of the field - the ends of the curve are the field's
    # own minimum and maximum (0 and 6), only the three means ignore the zeros: 2 4 6 -> mean 4, halves {2,4} and {6}: curve (0,0) (3,.25) (4,.5) (6,1)
    with open(os.path.join(tmp, "dm3.csv"), "w") as f:
        f.write("z\n0\n0\n2\n4\n6\n")
    z = [0.0, 0.0, 2.0, 4.0, 6.0]
    models.append(
        (['Z = EEMSRead(InFileName = "dm3.csv", InFieldName = z)', "M = NormalizeMeanToMid(InFieldName = Z, IgnoreZeros = True, NormalValues = [0, 0.25, 0.5, 0.75, 1])",
          "N = NormalizeMeanToMid(InFieldName = Z, IgnoreZeros = False, NormalValues = [0, 0.25, 0.5, 0.75, 1])", "S = Sum(InFieldNames = [Z, M])",
          "F = CvtToFuzzyMeanToMid(InFieldName = Z, IgnoreZeros = True, FuzzyValues = [-1, -0.5, 0, 0.5, 1])"],
         {"M": [0.0, 0.0, 0.25 * 2 / 3, 0.5, 1.0], "N": [0.0, 0.0, 0.25 + 0.25 * (2 - 2.0 / 3) / (2.4 - 2.0 / 3), 0.5 + 0.25 * (4 - 2.4) / (5 - 2.4), 1.0],
          "F": [-1.0, -1.0, -1 + 0.5 * 2 / 3, 0.0, 1.0], "Z": z}))
    for lines, want in models:
        for perm in itertools.permutations(lines):
            src = "\n".join(perm) + "\n"
            out = run_real(src, tmp)
            ctx.case("directed " + src, sample=None)
            ctx.count("directed_model_orders")
            bad = None
            if out["status"] != "ok":
                bad = "fails: %s" % out["status"]
            else:
                for n, w in want.items():
                    got = out["results"].get(n)
                    if got is None or got[3] is None or any(g is None or abs(g - x) > 1e-9 for g, x in zip(got[3], w)):
                        bad = "%s = %r, expected %r" % (n, got and got[3], w)
                        break
            if bad:
                ctx.fail("a model whose results are known by hand, in one of the orders of its commands: %s" % bad, {"source": src})
                break



def directed_listings(ctx, tmp):
    """measured decimals (no binary fractions) made fuzzy and combined by every command that orders its inputs itself (maximum, minimum, the k truest or
    falsest - all k up to all of them -, exclusive or), and plain fields by Minimum / Maximum: every listing of the inputs gives bit-identical results,
    downstream commands included"""
    import itertools
    rng = ctx.rng
    n = 9
    cols = [[round(rng.uniform(-3, 3), rng.choice([1, 2, 3])) for _ in range(n)] for _c in range(4)]
    with open(os.path.join(tmp, "dl.csv"), "w") as f:
        f.write("a,b,c,d\n")
        for i in range(n):
            f.write(",".join(repr(c[i]) for c in cols) + "\n")
    head = ['%s = EEMSRead(InFileName = "dl.csv", InFieldName = %s)' % (x.upper(), x) for x in "abcd"]
    head += ["F%s = CvtToFuzzy(InFieldName = %s, TrueThreshold = %r, FalseThreshold = %r)" % (x, x, round(rng.uniform(0.5, 3), 2), round(rng.uniform(-3, -0.5), 2)) for x in "ABCD"]
    fz = ["FA", "FB", "FC", "FD"]
    combos = [("FuzzyOr", ""), ("FuzzyAnd", ""), ("FuzzyXOr", "")]
    for k in (1, 2, 3, 4):
        for tf in (1, -1):
            combos.append(("FuzzySelectedUnion", ", TruestOrFalsest = %s, NumberToConsider = %d" % ("Truest" if tf == 1 else "Falsest", k)))
    for cmd, extra in combos:
        m = rng.choice([3, 4]) if "NumberToConsider = 4" not in extra else 4
        if "NumberToConsider = 3" in extra:
            m = rng.choice([3, 4])
        ins = fz[:m]
        ref = None
        perms = list(itertools.permutations(ins))
        for perm in perms:
            src = "\n".join(head + ["R = %s(InFieldNames = [%s]%s)" % (cmd, ", ".join(perm), extra), "T = FuzzyNot(InFieldName = R)", "U = FuzzyUnion(InFieldNames = [R, FA])"]) + "\n"
            out = run_real(src, tmp)
            ctx.case("listing " + src, sample=None)
            ctx.count("directed_listings")
            if out["status"] != "ok":
                ctx.fail("a well-typed model fails: %s" % out["status"], {"source": src})
                break
            if ref is None:
                ref, ref_src = out, src
                continue
            d = same_run(ref, out, ["R", "T", "U"], exact_for={"R", "T", "U"})
            if d:
                ctx.fail("%s brings its inputs into its own order before computing, yet another listing of the same inputs changes results: %s" % (cmd, d), {"source": ref_src, "relisted": src})
                break
    for cmd in ("Minimum", "Maximum"):
        ref = None
        for perm in itertools.permutations("ABCD"):
            src = "\n".join(head[:4] + ["R = %s(InFieldNames = [%s])" % (cmd, ", ".join(perm)), "S = Sum(InFieldNames = [R, A])"]) + "\n"
            out = run_real(src, tmp)
            ctx.count("directed_listings")
            if ref is None:
                ref, ref_src = out, src
                continue
            d = same_run(ref, out, ["R", "S"], exact_for={"R", "S"})
            if d:
                ctx.fail("%s: another listing of the same inputs changes results: %s" % (cmd, d), {"source": ref_src, "relisted": src})
                break

NARY = ["Sum", "Multiply", "Minimum", "Maximum", "Mean", "WeightedSum", "WeightedMean", "FuzzyOr", "FuzzyAnd", "FuzzyUnion", "FuzzyWeightedUnion", "FuzzyXOr",
        "FuzzySelectedUnion", "FuzzySelectedUnion"]


def wide_models(ctx, tmp, classes, lines, metas):
    """fan-in varied upwards: every command that takes a list of fields, over 33 ... 300 fields of one table (integer and decimal columns; one row complete, one
    with a single missing cell, one with two, one missing in every other column, one missing everywhere), written in dependency order and consumers first.
    Every execute call joins the replay against the model and the cell-wise definitions (a cell is missing as soon as it is missing in any input)"""
    rows = 6
    for n in [33, 64, 130, 300] + ([1100] if ctx.thorough else []):
        cols, MISS = [], -99
        for j in range(n):
            integer = j % 5 == 0
            vals = [((j * 7 + i * 3) % 3 - 1) if integer else ((j * 7 + i * 3) % 9 - 4) / 4.0 for i in range(rows)]
            if j == 1:
                vals[1] = MISS
            if j in (3, n - 1):
                vals[2] = MISS
            if j % 2 == 1:
                vals[3] = MISS
            vals[4] = MISS
            cols.append(("w%d" % j, integer, vals, MISS))
        path = "wide%d.csv" % n
        with open(os.path.join(tmp, path), "w") as f:
            f.write(",".join(c[0] for c in cols) + "\n")
            for i in range(rows):
                f.write(",".join(repr(c[2][i]) for c in cols) + "\n")
        reads, fz = [], []
        for name, integer, vals, missing in cols:
            reads.append(("R_" + name, "EEMSRead", [("InFileName", path), ("InFieldName", name), ("MissingVal", MISS)] + ([("DataType", "Integer")] if integer else [])))
            fz.append(("F_" + name, "CvtToFuzzy", [("InFieldName", Name("R_" + name)), ("TrueThreshold", 1), ("FalseThreshold", -1)]))
        rn, fn = [Name(r[0]) for r in reads], [Name(r[0]) for r in fz]
        weights = [[1, 0.5, 2, 0.25][j % 4] for j in range(n)]
        wide = []
        for k, cmd in enumerate(NARY):
            args = [("InFieldNames", fn if cmd in eems.FUZZY_CONSUMERS else rn)]
            if "Weight" in cmd:
                args.append(("Weights", weights))
            if cmd == "FuzzySelectedUnion":
                args += [("TruestOrFalsest", "Truest" if k % 2 else "Falsest"), ("NumberToConsider", n // 3 if k % 2 else n)]
            wide.append(("%s_%d" % (cmd[:9], k), cmd, args))
        names = [c[0] for c in reads + fz + wide]
        ref = None
        for order in (reads + fz + wide, wide[::-1] + fz[::-1] + reads):
            sc = Scenario(order, wd=tmp, libs=LIBS)
            rec = Recording()
            out = run_real(sc.source, tmp, classes, rec)
            ctx.case("wide %d %s" % (n, order is not reads), sample={"fields": n, "commands": len(order), "outcome": out["status"]})
            ctx.count("wide_fan_in_models")
            desc = {"source": "%d EEMSRead of the columns of %s (marker %d), each made fuzzy by CvtToFuzzy(TrueThreshold = 1, FalseThreshold = -1), and over all %d of them:\n%s" % (
                n, path, MISS, n, "\n".join("%s = %s(%s)" % (r, c, ", ".join("%s = %s" % (a, "[... all %d ...]" % n if isinstance(v, list) else v) for a, v in args)) for r, c, args in wide)),
                "table": "column w_j, row i: (j*7 + i*3) %% 9 - 4 quarters (every fifth column: integers (j*7 + i*3) %% 3 - 1); missing: row 1 of w1; row 2 of w3 and w%d; row 3 of every odd column; row 4 everywhere" % (n - 1),
                "consumers_first": order is not reads}
            if out["status"] != "ok":
                ctx.fail("a well-typed model over %d fields fails: %s" % (n, out["status"]), desc)
                continue
            check_reads(ctx, rec, order, cols, desc)
            for cname, rname, params, ins, (st, res) in rec.calls:
                if cname not in NARY:
                    continue
                ctx.count("wide_fan_in_calls")
                # said directly (the replay below says the same through the reference definitions): missing exactly where an input is missing
                want_mask = numpy.zeros(rows, dtype=bool)
                for a in ins:
                    want_mask |= numpy.ma.getmaskarray(a)
                if st == "ok" and isinstance(res, numpy.ndarray) and numpy.ma.getmaskarray(res).tolist() != want_mask.tolist():
                    ctx.fail("%s over %d fields: missing cells %r; a cell is missing in some input exactly at %r" % (cname, len(ins), numpy.ma.getmaskarray(res).astype(int).tolist(), want_mask.astype(int).tolist()),
                             dict(desc, command=rname, result=repr(res)))
                case = eems.Case(cname, params, ins)
                try:
                    line = case.line()
                except (common.NonFinite, ValueError, OverflowError):
                    ctx.count("skipped_non_finite_input")
                    continue
                lines.append(line)
                metas.append((case, st, res, desc, rname))
            if ref is None:
                ref = out
            else:
                d = same_run(ref, out, names)
                if d:
                    ctx.fail("a model over %d fields: results depend on the order of the commands in the file: %s" % (n, d), desc)


PLUGINS = "mpverif_c02_plugins"
PLUGINS_SRC = """
import numpy
from mpilot import params
from mpilot.commands import Command


class IsAbove(Command):
    \"\"\" true where the field exceeds the threshold: a mask-like field, as comparisons deliver it \"\"\"
    inputs = {"InFieldName": params.ResultParameter(params.DataParameter(), is_fuzzy=False), "Threshold": params.NumberParameter()}
    output = params.DataParameter()

    def execute(self, **kw):
        return kw["InFieldName"].result > kw["Threshold"]


class AsType(Command):
    \"\"\" the field held in another element type (what a reader of another file format, or a classification, delivers) \"\"\"
    inputs = {"InFieldName": params.ResultParameter(params.DataParameter(), is_fuzzy=False), "Type": params.StringParameter()}
    output = params.DataParameter()

    def execute(self, **kw):
        arr = kw["InFieldName"].result
        return numpy.ma.array(numpy.ma.getdata(arr.filled(0)).astype(kw["Type"]), mask=numpy.ma.getmaskarray(arr).copy())
"""


def plugin_models(ctx, tmp):
    """"any data result may feed any data input": fields delivered by user-defined commands in the element types numpy users meet - booleans from a comparison, narrow and
    unsigned integers, half / single precision, big-endian numbers - consumed by one, two and three built-in commands (directly and through a list), in every order
    of the file: every order runs, and every result is the hand-computed one"""
    import itertools, sys, types
    if PLUGINS not in sys.modules:
        m = types.ModuleType(PLUGINS)
        sys.modules[PLUGINS] = m
        exec(compile(PLUGINS_SRC, PLUGINS, "exec"), m.__dict__)
    libs = LIBS + (PLUGINS,)
    rng = ctx.rng
    x = [1.0, 5.0, 3.0, 8.0, -99.0, 2.0]
    with open(os.path.join(tmp, "plug.csv"), "w") as f:
        f.write("x\n" + "\n".join(repr(v) for v in x) + "\n")
    mask = [v == -99.0 for v in x]
    xs = numpy.array(x)
    read = 'X = EEMSRead(InFileName = "plug.csv", InFieldName = x, MissingVal = -99)'
    producers_ = [("P = IsAbove(InFieldName = X, Threshold = 2.5)", (xs > 2.5).astype(float), "bool")]
    for t in ("bool", "int8", "uint8", "int16", "uint32", "float16", "float32", ">f8", ">i4"):
        producers_.append(('P = AsType(InFieldName = X, Type = "%s")' % t, (xs != 0).astype(float) if t == "bool" else xs, t))
    for ptext, pv, tname in producers_:
        consumers = {"C1": ("C1 = Copy(InFieldName = P)", pv), "C2": ("C2 = AMinusB(A = X, B = P)", xs - pv), "C3": ("C3 = Multiply(InFieldNames = [P, X])", pv * xs),
                     "C4": ("C4 = Mean(InFieldNames = [X, P])", (xs + pv) / 2), "C5": ("C5 = Maximum(InFieldNames = [P, X])", numpy.maximum(pv, xs)),
                     "C6": ("C6 = WeightedSum(InFieldNames = [P, X], Weights = [2, 0.5])", 2 * pv + 0.5 * xs)}
        sets = [(c,) for c in sorted(consumers)] + [("C1", "C2"), ("C1", "C3"), ("C2", "C4"), ("C3", "C6"), ("C5", "C1")] + [tuple(rng.sample(sorted(consumers), 3))]
        for cs in sets:
            blocks = [read, ptext] + [consumers[c][0] for c in cs]
            orders = list(itertools.permutations(blocks))
            if len(orders) > 24:
                orders = [orders[0], orders[-1]] + rng.sample(orders[1:-1], 22)
            for order in orders:
                src = "\n".join(order) + "\n"
                out = run_real(src, tmp, libs=libs)
                ctx.case("plugin " + src, sample={"source": src, "outcome": out["status"]})
                ctx.count("plugin_field_models")
                desc = {"source": src, "libraries": list(libs), "plug-in library": PLUGINS_SRC, "table plug.csv": "x = %r, marker -99" % x, "element_type_of_P": tname}
                if out["status"] != "ok":
                    ctx.fail("a well-typed model in which a user-defined command delivers a field of element type %s, consumed by %d built-in command(s), is refused in this order of its commands: %s %s" % (
                        tname, len(cs), out["status"], " ".join(str(out.get("exc")).split())[:160]), desc)
                    break
                bad = None
                for c in ("P",) + cs:
                    want = pv if c == "P" else consumers[c][1]
                    got = out["results"].get(c)
                    if got is None or got[3] is None or len(got[3]) != len(x):
                        bad = "%s = %r" % (c, got)
                    elif [g is None for g in got[3]] != mask:
                        bad = "%s: missing cells %r, the table's are %r" % (c, [g is None for g in got[3]], mask)
                    elif any(g is not None and abs(float(g) - float(w)) > 1e-9 for g, w in zip(got[3], want)):
                        bad = "%s = %r, by hand %r" % (c, got[3], [None if m_ else float(w) for w, m_ in zip(want, mask)])
                    if bad:
                        break
                if bad:
                    ctx.fail("a model in which a user-defined command delivers a field of element type %s: %s" % (tname, bad), desc)
                    break


def path_spellings(ctx, tmp):
    """the input data of a model is the file its path denotes for the operating system (relative paths from the working directory): plain names, ./, a folder and back
    (sub/..), doubled separators, a symbolic link to a folder, through the link and back up (which leads to the parent of the link's TARGET), a link to the file, a second
    name of the file (hard link), absolute spellings, working directories that are such paths themselves - with tables of the same name and other numbers next to every
    place a lexical short-cut would look.  Every result is the evaluation on the table the spelling denotes; an output written through such a path is found there"""
    root = os.path.realpath(os.path.join(tmp, "paths"))
    project, shared = os.path.join(root, "project"), os.path.join(root, "shared", "2026")
    os.makedirs(os.path.join(project, "sub", "deeper"))
    os.makedirs(os.path.join(shared, "tables"))
    tables = {"A": ([90.0, 80.0, 70.0], [9.0, 9.0, 9.0]), "B": ([10.0, 20.0, 30.0, 40.0], [1.0, 2.0, 3.0, 4.0]), "C": ([11.0, 21.0, 31.0, 41.0], [5.0, 6.0, 7.0, 8.0]),
              "D": ([0.5, 1.5], [2.0, 4.0]), "E": ([7.0, 7.5, 8.0], [1.0, 0.0, -1.0])}
    where = {"A": os.path.join(project, "data.csv"), "B": os.path.join(shared, "data.csv"), "C": os.path.join(shared, "tables", "data.csv"), "D": os.path.join(project, "sub", "data.csv"),
             "E": os.path.join(root, "data.csv")}
    for k, pth in where.items():
        with open(pth, "w") as f:
            f.write("elev,slope\n" + "".join("%r,%r\n" % (e, s_) for e, s_ in zip(*tables[k])))
    try:
        os.symlink(os.path.join(shared, "tables"), os.path.join(project, "inputs"))            # a folder elsewhere
        os.symlink(os.path.join("..", "shared", "2026", "data.csv"), os.path.join(project, "alias.csv"))      # the file itself, relative link
        os.symlink(os.path.join(project, "sub", "deeper"), os.path.join(shared, "back"))       # from the data set back into the project
        os.link(where["A"], os.path.join(project, "same.csv"))
    except (OSError, NotImplementedError, AttributeError):
        ctx.count("path_spellings_skipped_no_links")
        return
    rel = [("data.csv", "A"), ("./data.csv", "A"), ("sub/../data.csv", "A"), ("sub/data.csv", "D"), ("sub/./data.csv", "D"), ("sub//data.csv", "D"), ("sub/deeper/../data.csv", "D"),
           ("sub/deeper/../../data.csv", "A"), ("inputs/data.csv", "C"), ("inputs/./data.csv", "C"), ("inputs/../data.csv", "B"), ("inputs/../tables/data.csv", "C"),
           ("inputs/../../2026/data.csv", "B"), ("./inputs/../data.csv", "B"), ("sub/../inputs/../data.csv", "B"), ("alias.csv", "B"), ("same.csv", "A"), ("../project/data.csv", "A"),
           ("../data.csv", "E"), ("../shared/2026/tables/../data.csv", "B"), ("../shared/2026/back/../data.csv", "D"), ("../shared/2026/back/../../data.csv", "A"),
           ("inputs/../back/../data.csv", "D")]
    cases = [(project, sp, k) for sp, k in rel]
    cases += [(project, os.path.join(project, sp), k) for sp, k in rel[::3]] + [(None, os.path.join(project, sp), k) for sp, k in rel[1::4]]
    # the working directory itself given through a link and back, or with a folder and back
    cases += [(os.path.join(project, "inputs", ".."), "data.csv", "B"), (os.path.join(project, "inputs", ".."), "tables/data.csv", "C"), (os.path.join(project, "sub", ".."), "data.csv", "A"),
              (os.path.join(project, "inputs"), "../data.csv", "B"), (os.path.join(project, "inputs") + os.sep, "data.csv", "C"), (os.path.join(shared, "back"), "../data.csv", "D")]
    from mpilot.program import Program
    for i, (wd, sp, k) in enumerate(cases):
        full = sp if wd is None else os.path.join(wd, sp)
        if not os.path.samefile(full, where[k]):
            ctx.count("path_spellings_skipped_unexpected_file_system")        # (the harness' own table of what denotes what does not hold here)
            continue
        outsp = os.path.join(os.path.dirname(sp), "written_%d.csv" % i)
        src = ('total = Sum(InFieldNames = [elev, slope])\nelev = EEMSRead(InFileName = "%s", InFieldName = elev)\nslope = EEMSRead(InFileName = "%s", InFieldName = slope)\n'
               'Out = EEMSWrite(OutFileName = "%s", OutFieldNames = [total])\n' % (sp, sp, outsp))
        out = run_real(src, wd)
        ctx.case("path-spelling %s %s" % (wd, sp), sample={"working_dir": wd, "path": sp, "outcome": out["status"]})
        ctx.count("path_spelling_models")
        e, s_ = tables[k]
        desc = {"source": src, "working_dir": wd, "denotes": os.path.relpath(os.path.realpath(full), root),
                "layout": "project/{data.csv, same.csv (second name of data.csv), sub/data.csv, sub/deeper/, inputs -> shared/2026/tables, alias.csv -> ../shared/2026/data.csv}, shared/2026/{data.csv, tables/data.csv, back -> project/sub/deeper}, data.csv; "
                          "every data.csv holds other numbers",
                "table_it_denotes": {"elev": e, "slope": s_}}
        if out["status"] != "ok":
            ctx.fail("a model reading %r (working directory %s) - an existing table, %s - fails: %s %s" % (sp, wd, desc["denotes"], out["status"], " ".join(str(out.get("exc")).split())[:200]), desc)
            continue
        for name, want in (("elev", e), ("slope", s_), ("total", [a + b for a, b in zip(e, s_)])):
            got = out["results"].get(name)
            if got is None or got[3] != want:
                ctx.fail("a model reading %r (working directory %s): %s = %r; the table this path denotes (%s) gives %r" % (sp, wd, name, got and got[3], desc["denotes"], want), desc)
                break
        else:
            outfull = outsp if wd is None else os.path.join(wd, outsp)
            try:
                text = open(outfull).read()
            except (IOError, OSError):
                text = None
            if text is None:
                elsewhere = [os.path.relpath(os.path.join(d, f_), root) for d, _, fs in os.walk(root) for f_ in fs if f_ == "written_%d.csv" % i]
                ctx.fail("a model writing to %r (working directory %s): no such file afterwards (a file of that name appeared at %r)" % (outsp, wd, elsewhere), desc)
            elif [l for l in text.replace("\r", "").split("\n")[1:] if l] != [repr(a + b) for a, b in zip(e, s_)] and \
                    [float(l) for l in text.replace("\r", "").split("\n")[1:] if l] != [a + b for a, b in zip(e, s_)]:
                ctx.fail("a model writing to %r: the file holds %r" % (outsp, text[:200]), desc)


class Recording(object):
    def __init__(self):
        self.calls = []
        self.kwargs = {}      # result name -> the keyword arguments its body was called with


@contextlib.contextmanager
def recorded(classes, rec):
    """wraps the REAL execute of every class: records the input arrays (copies), the other keyword values and the result"""
    from mpilot.commands import Command
    saved = {}
    for c in classes:
        if "execute" not in c.__dict__:
            continue
        orig = c.__dict__["execute"]
        saved[c] = orig

        def make(orig, cname):
            def execute(self, **kw):
                if getattr(self, "_mpv_depth", 0) or type(self).__name__ != cname:
                    return orig(self, **kw)          # a subclass calling its parent's body: only the outermost call is a command execution
                self._mpv_depth = 1
                try:
                    return outer(self, **kw)
                finally:
                    self._mpv_depth = 0

            def outer(self, **kw):
                ins, params = [], {}
                for k, v in kw.items():
                    if isinstance(v, Command):
                        ins.append(v.result.copy())
                    elif isinstance(v, list) and v and all(isinstance(x, Command) for x in v):
                        ins += [x.result.copy() for x in v]
                    elif k != "Metadata":
                        params[k] = v
                if cname in ("AMinusB", "ADividedByB"):
                    ins = [kw["A"].result.copy(), kw["B"].result.copy()]
                try:
                    out = orig(self, **kw)
                except Exception as e:
                    rec.calls.append((cname, self.result_name, params, ins, ("err", e)))
                    rec.kwargs[self.result_name] = dict(kw)
                    raise
                rec.calls.append((cname, self.result_name, params, ins, ("ok", out.copy() if hasattr(out, "copy") else out)))
                rec.kwargs[self.result_name] = dict(kw)
                return out
            return execute
        c.execute = make(orig, c.__name__)
    try:
        yield
    finally:
        for c, o in saved.items():
            c.execute = o


def run_real(source, tmp, classes=None, rec=None, fault=None, libs=None):
    """fault = (path of a table, text to put there for the first run): the first run() meets a broken table and fails; the table is restored and
    the SAME Program is run again"""
    from mpilot.program import Program
    import warnings
    out = {}
    cm = recorded(classes, rec) if rec is not None else contextlib.nullcontext()
    with cm, warnings.catch_warnings(), contextlib.redirect_stdout(io.StringIO()):
        warnings.simplefilter("ignore")
        old = numpy.seterr(all="ignore")
        try:
            p = Program.from_source(source, libraries=libs or LIBS, working_dir=tmp)
            if fault is not None:
                good = open(fault[0]).read()
                try:
                    with open(fault[0], "w") as f_:
                        f_.write(fault[1])
                    try:
                        if fault[2] is None:
                            p.run()
                        else:
                            p.commands[fault[2]].result
                        out["first"] = "ok"
                    except BaseException as e1:
                        out["first"] = progrun.classify(e1)
                finally:
                    with open(fault[0], "w") as f_:
                        f_.write(good)
            p.run()
            out["status"] = "ok"
        except BaseException as e:
            out["status"] = progrun.classify(e)
            out["exc"] = e
            p = locals().get("p")
        finally:
            numpy.seterr(**old)
    out["results"] = {}
    if p is not None:
        for n, c in p.commands.items():
            if c.is_finished:
                out["results"][n] = common.vis_arr(c._result) if isinstance(c._result, numpy.ndarray) else ("value", repr(c._result), None, None)
    return out


SYMMETRIC = {"Sum", "Multiply", "Minimum", "Maximum", "Mean", "WeightedSum", "WeightedMean", "FuzzyOr", "FuzzyAnd", "FuzzyUnion", "FuzzyWeightedUnion",
             "FuzzySelectedUnion", "FuzzyXOr"}
# commands that bring their inputs into an order of their own (maximum, minimum, sorting) before any arithmetic: bit-identical for every listing
ORDER_CANONICAL = {"Minimum", "Maximum", "FuzzyOr", "FuzzyAnd", "FuzzySelectedUnion", "FuzzyXOr"}


def same_run(a, b, names, exact_for=()):
    if (a["status"] == "ok") != (b["status"] == "ok"):
        return "outcome %s vs %s" % (a["status"], b["status"])
    if a["status"] != "ok":
        # a model with several independent faults reports whichever its first leaf reaches: which error is raised, and which
        # commands had finished by then, legitimately depends on the order.  Only success versus failure must agree.
        return None
    for n in names:
        ra, rb = a["results"].get(n), b["results"].get(n)
        if (ra is None) != (rb is None):
            return "%s finished in one run only" % n
        if ra is None:
            continue
        if ra[:3] != rb[:3]:
            return "%s: kind/type/shape %r vs %r" % (n, ra[:3], rb[:3])
        if ra[3] is not None:
            fd = numeric.first_diff(ra[3], rb[3]) if n not in exact_for else numeric.first_diff(ra[3], rb[3], 0)
            if fd:
                return "%s: cell %d: %r vs %r" % ((n,) + fd)
    return None


def run(ctx):
    ctx.check_proofs(["MPilot.Props.C02", "MPilot.Props.C02Meta"])
    model = common.Model()
    rng = ctx.rng
    tmp = common.tmpdir("mpv_c02_")
    base, classes = progrun.library_classes(LIBS)
    lines, metas = [], []
    for i in range(ctx.budget(30, 600)):
        cmds, table_path, cols = gen_model(rng, tmp, i, rng.randrange(3, 14))
        names = [c[0] for c in cmds]
        sc = Scenario(list(cmds), wd=tmp, libs=LIBS)
        rec = Recording()
        ref = run_real(sc.source, tmp, classes, rec)
        ctx.case(sc.source, sample={"source": sc.source[:700], "outcome": ref["status"], "n_results": len(ref["results"])})
        ctx.count("model_outcome:" + ":".join(ref["status"].split(":")[:2]))
        ctx.count("model_size:%02d" % len(cmds))
        desc = sc.describe()
        # no element-type / kind error in a well-typed model
        if ref["status"].startswith("unexpected:"):
            inner = ref["status"].split(":")[1]
            if inner in ("UFuncTypeError", "AttributeError", "_UFuncOutputCastingError") or "Cast" in inner:
                ctx.fail("well-typed model fails with a kind/element-type error: %s (%s)" % (ref["status"], str(getattr(ref.get("exc"), "exc", ""))[:100]), desc)
            else:
                ctx.count("unexpected_in_well_typed:" + inner)
        elif ref["status"].startswith("raw:") or ref["status"] == "syntax":
            ctx.fail("well-typed model: %s" % ref["status"], desc)
        elif ref["status"].startswith("mp:") and ref["status"].split(":")[1] in (
                "MissingParameters", "NoSuchParameter", "CommandDoesNotExist", "DuplicateResult", "ResultDoesNotExist", "ParameterNotValid",
                "ResultTypeNotValid", "ResultIsFuzzy", "ResultNotFuzzy", "PathDoesNotExist", "InvalidRelativePath", "RecursiveModelStructure"):
            ctx.fail("well-formed, well-typed model rejected: %s" % ref["status"], desc)
        check_reads(ctx, rec, cmds, cols, desc)
        # every argument written in the file reaches the body with its value (an argument equal to 0 or "" is still an argument)
        for rname, cname, args in cmds:
            kw = rec.kwargs.get(rname)
            if kw is None:
                continue
            for aname, aval in args:
                if aname == "Metadata":
                    continue
                if aname not in kw:
                    ctx.fail("argument %s = %r of command %s is written in the model but never reaches the command" % (aname, aval, rname), desc)
                    break
                got = kw[aname]
                if isinstance(aval, (int, float)) and not isinstance(aval, bool) and isinstance(got, (int, float)) and float(got) != float(progrun.raw_of(aval)):
                    ctx.fail("argument %s = %r of command %s reaches the command as %r" % (aname, aval, rname, got), desc)
                    break
        # every data command hands on a masked array (the type all consumers are written for), whatever its inputs look like
        for cname, rname, params, ins, (st, out) in rec.calls:
            if st == "ok" and cname in eems.COMMANDS and isinstance(out, numpy.ndarray) and not isinstance(out, numpy.ma.MaskedArray):
                ctx.fail("command %s (%s) of the model returned a plain ndarray, not a masked array: its consumers lose the missing-cell bookkeeping" % (rname, cname), desc)
                break
        # a command's result, read after the run, is still what its body returned (no later consumer overwrote it)
        for cname, rname, params, ins, (st, out) in rec.calls:
            if st == "ok" and isinstance(out, numpy.ndarray) and rname in ref["results"]:
                final = ref["results"][rname]
                produced = common.vis_arr(out)
                if final[:3] != produced[:3] or numeric.first_diff(final[3], produced[3]):
                    ctx.fail("the result of %s read after the run (%r) is not what the command computed (%r): a later consumer overwrote it, "
                             "so results depend on which commands consume it and in which order" % (rname, final[3], produced[3]), desc)
                    break
        # every real execute call against the model's exec, on the actual data of the run
        for cname, rname, params, ins, (st, out) in rec.calls:
            if cname not in eems.COMMANDS:
                continue
            case = eems.Case(cname, params, ins)
            try:
                if eems.near_discontinuity(case):
                    ctx.count("skipped_near_discontinuity")
                    continue
                line = case.line()
            except (common.NonFinite, ValueError, OverflowError):
                ctx.count("skipped_non_finite_input")
                continue
            lines.append(line)
            metas.append((case, st, out, desc, rname))
        # permutations of the file
        for k in range(3 if not ctx.thorough else 6):
            perm = list(cmds)
            rng.shuffle(perm)
            other = run_real(Scenario(perm, wd=tmp, libs=LIBS).source, tmp)
            ctx.count("permutation_twins")
            d = same_run(ref, other, names)
            if d:
                ctx.fail("results depend on the order of the commands in the file: %s" % d, {"source": sc.source, "permuted": Scenario(perm, wd=tmp, libs=LIBS).source})
                break
        # the inputs of a symmetric command listed in another order (weights alongside): the graph is the same graph.  Commands that bring their inputs into
        # an order of their own before any arithmetic (maximum, minimum, sorting) give bit-identical results, and so does everything computed from them;
        # sums in another order may round differently (compared within the tolerance)
        for group, tol_ in ((ORDER_CANONICAL, 0), (SYMMETRIC - ORDER_CANONICAL, None)):
            if ref["status"] != "ok":
                break
            re_cmds, changed = [], False
            for (r_, c_, args_) in cmds:
                d_ = dict(args_)
                lst = d_.get("InFieldNames")
                if c_ in group and isinstance(lst, list) and len(lst) > 1:
                    perm_ = list(range(len(lst)))
                    rng.shuffle(perm_)
                    new_args = []
                    for (an, av) in args_:
                        if an == "InFieldNames" or (an == "Weights" and isinstance(av, list) and len(av) == len(lst)):
                            av = [av[i] for i in perm_]
                        new_args.append((an, av))
                    changed = changed or perm_ != sorted(perm_)
                    re_cmds.append((r_, c_, new_args))
                else:
                    re_cmds.append((r_, c_, args_))
            if changed:
                other = run_real(Scenario(re_cmds, wd=tmp, libs=LIBS).source, tmp)
                ctx.count("list_order_twins" + ("_exact" if tol_ == 0 else ""))
                d = same_run(ref, other, names, exact_for=set(names) if tol_ == 0 else ())
                if d:
                    ctx.fail("results depend on the order in which a symmetric command lists its inputs: %s" % d, {"source": sc.source, "relisted": Scenario(re_cmds, wd=tmp, libs=LIBS).source})
        # a first run that meets a broken table (a cell that is no number) fails; the table is repaired and the same Program run again: the graph's values
        if ref["status"] == "ok" and rng.random() < 0.6:
            tp = os.path.join(tmp, table_path)
            rows = open(tp).read().split("\n")
            k_ = rng.randrange(1, len([r for r in rows if r]))
            cells = rows[k_].split(",")
            cells[rng.randrange(len(cells))] = "n/a"
            broken = "\n".join(rows[:k_] + [",".join(cells)] + rows[k_ + 1:])
            via = None if rng.random() < 0.6 else rng.choice([n_ for n_ in names])
            other = run_real(sc.source, tmp, fault=(tp, broken, via))
            ctx.count("fault_then_repair_models")
            ctx.count("fault_first_outcome:" + ":".join(other.get("first", "?").split(":")[:2]))
            if other.get("first", "").startswith("raw:"):
                ctx.fail("a table with a cell that is no number makes run() raise %s" % other["first"], {"source": sc.source, "broken_table": broken})
            d = same_run(ref, other, names)
            if d:
                ctx.fail("after a run that failed on a broken table, with the table repaired, running the same Program again does not give the graph's values: %s (first run: %s)" % (d, other.get("first")),
                         {"source": sc.source, "broken_table": broken, "first_access": via})
        # metadata is inert
        meta_cmds = [(r, c, [a for a in args if a[0] != "Metadata"] + ([("Metadata", {"Description": "note %d" % j, "Color": "red"})] if rng.random() < 0.6 else []))
                     for j, (r, c, args) in enumerate(cmds)]
        d = same_run(ref, run_real(Scenario(meta_cmds, wd=tmp, libs=LIBS).source, tmp), names)
        ctx.count("metadata_twins")
        if d:
            ctx.fail("results change when metadata is attached to commands: %s" % d, {"source": sc.source, "with_metadata": Scenario(meta_cmds, wd=tmp, libs=LIBS).source})
        # further consumers of intermediate results
        if ref["status"] == "ok":
            extra = list(cmds)
            data_names = [n for n in names if n != "Out"]
            for j in range(rng.randrange(1, 4)):
                tgt = rng.choice(data_names)
                extra.insert(rng.randrange(len(extra) + 1), ("Extra%d" % j, "Copy", [("InFieldName", Name(tgt))]))
            extra.append(("Printed", "PrintVars", [("InFieldNames", [Name(rng.choice(data_names))])]))
            d = same_run(ref, run_real(Scenario(extra, wd=tmp, libs=LIBS).source, tmp), names)
            ctx.count("consumer_twins")
            if d:
                ctx.fail("results change when other commands also consume intermediate results: %s" % d, {"source": sc.source, "with_consumers": Scenario(extra, wd=tmp, libs=LIBS).source})
    deep_chain(ctx, tmp)
    directed_models(ctx, tmp)
    directed_listings(ctx, tmp)
    wide_models(ctx, tmp, classes, lines, metas)
    plugin_models(ctx, tmp)
    path_spellings(ctx, tmp)
    answers = model.ask(lines)
    # independent reference definitions (exact arithmetic, written without looking at the model): they decide, on the implementation, whether a
    # command's result inside a running program equals the mathematical evaluation of its inputs
    from .. import reference
    from . import c08
    ref_orc = numeric.combine(numeric.oracle_definition(ctx, reference.FUZZY_OPS, "EEMS", in_range_only=True),
                              numeric.oracle_definition(ctx, reference.ARITH_OPS, "arithmetic"),
                              c08.oracle_mapping(ctx))
    for (case, st, out, desc, rname), ans in zip(metas, answers):
        ctx.count("execute_calls_replayed")
        if st == "ok" and isinstance(out, numpy.ndarray):
            nf = len(ctx.failures)
            ref_orc(case, {"status": "ok", "vis": common.vis_arr(out), "result": out}, ans)
            for f in ctx.failures[nf:]:
                f["what"] = "command %s of the model: %s" % (rname, f["what"])
                f["case"] = {"command": rname, "call": f["case"], "program": desc}
        if ans.startswith("err raw Degenerate") or ans.startswith("err raw NotAdmissible"):
            ctx.count("outside_model_domain")
            continue
        if st == "ok":
            o = {"status": "ok", "vis": common.vis_arr(out)}
        else:
            from mpilot.exceptions import MPilotError
            o = {"status": "err", "kind": "mp" if isinstance(out, MPilotError) else "raw", "cls": type(out).__name__, "ref": None}
        if ans.startswith("err mp") and o["status"] == "err":
            if o["kind"] == "mp" and o["cls"] == ans.split(" ")[2]:
                continue
        d = eems.compare(o, ans) if not (ans.startswith("err mp") and o["status"] == "err") else "error class %s vs %s" % (o["cls"], ans)
        if d:
            ctx.disagree("exec-in-program:" + case.cmd, {"command": rname, "case": case.describe(), "program": desc}, eems.impl_summary(o) if o["status"] == "ok" else "err " + o["cls"], ans + " :: " + d)
    return ctx.finish(
        rule="models = CSV table (2-4 int/float columns, 4-8 rows, missing cells) + EEMSRead per column + 3-13 commands drawn from all 31 data commands, "
             "inputs drawn from the results of matching fuzziness, valid parameters; each model is run once with every execute call recorded, then in 3 "
             "(thorough 6) random file orders, with metadata attached, and with extra consumers inserted; distinct by source text",
        explanation="theorems in Props/C02.lean hold for the model (run computes the denotation; the denotation is invariant under permutation of the file, "
                    "added consumers and metadata); every real execute call made while running each model is replayed on the model's exec with the call's "
                    "actual inputs; invariance oracles compare whole-program results of the implementation")


def replay(path):
    import json
    print(json.dumps(json.load(open(path)), indent=1)[:6000])
    return 0
