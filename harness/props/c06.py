"""C06 — fuzzy-logic operators compute the EEMS definitions and obey their algebra.

proof:          lean/MPilot/Props/C06.lean
correspondence: the seven operators, 1-5 inputs, admissible k and weights, dense lattice incl. missing cells
                (all lattice tuples for <= 3 inputs are enumerated in one array per operator)
oracles:        exact reference definitions (max, min, -, mean, weighted mean, mean of k truest/falsest, xor formula);
                order invariance; Not∘Not = id; De Morgan; And <= Union <= Or; SelectedUnion k=1 / k=n coincidences;
                the definitions again on grids of 10^4 .. 10^5 cells (4-6 inputs, every k); an accepted spelling of Truest / Falsest selects what it says
"""
import itertools
from fractions import Fraction

import numpy

from .. import common, eems, reference
from ..eems import Case
from . import numeric

OPS = ["FuzzyOr", "FuzzyAnd", "FuzzyNot", "FuzzyUnion", "FuzzyWeightedUnion", "FuzzySelectedUnion", "FuzzyXOr"]
WEIGHTS = [-1, 0, 0.5, 1, 2, 3]


def lattice_arrays(n, step):
    """n arrays whose columns enumerate every n-tuple over the lattice {-1..1 by step} ∪ {missing}"""
    vals = [Fraction(k) * step - 1 for k in range(int(2 / step) + 1)] + [None]
    cols = list(itertools.product(vals, repeat=n))
    arrs = []
    for j in range(n):
        d = [float(c[j]) if c[j] is not None else 9.0 for c in cols]
        m = [c[j] is None for c in cols]
        arrs.append(numpy.ma.array(d, mask=m))
    return arrs


def op_params(ctx, cmd, n, exhaustive=False):
    if cmd == "FuzzyWeightedUnion":
        if exhaustive:
            return [{"Weights": list(w)} for w in itertools.product(WEIGHTS, repeat=n)]
        return [{"Weights": [ctx.rng.choice(WEIGHTS) for _ in range(n)]} for _ in range(3)]
    if cmd == "FuzzySelectedUnion":
        return [{"TruestOrFalsest": s, "NumberToConsider": k} for s in ("Truest", "Falsest") for k in range(1, n + 1)]
    return [{}]


def gen_lattice(ctx, max_n, step, exhaustive_weights):
    cases = []
    for n in range(1, max_n + 1):
        arrs = lattice_arrays(n, step)
        for cmd in OPS:
            if cmd == "FuzzyNot" and n != 1:
                continue
            if cmd == "FuzzyXOr" and n < 2:
                continue
            for p in op_params(ctx, cmd, n, exhaustive_weights and n <= 2):
                cases.append(Case(cmd, p, [a.copy() for a in arrs]))
    return cases


def gen_crisp(ctx):
    """every tuple of crisp values {-1, 0, 1} ∪ {missing} for 1..3 inputs, held in integer arrays (int64 and int8): the operators compute the same numbers"""
    cases = []
    for n in (1, 2, 3):
        arrs = lattice_arrays(n, Fraction(1))
        for dt in (numpy.int64, numpy.int8):
            ins = [numpy.ma.array(numpy.ma.getdata(a).astype(dt), mask=numpy.ma.getmaskarray(a).copy()) for a in arrs]
            for cmd in OPS:
                if (cmd == "FuzzyNot" and n != 1) or (cmd == "FuzzyXOr" and n < 2):
                    continue
                for p in op_params(ctx, cmd, n):
                    cases.append(Case(cmd, p, [a.copy() for a in ins]))
    return cases


def gen_random(ctx, cmds, count):
    cases = []
    for cmd in cmds:
        for _ in range(count):
            n = ctx.rng.choice([4, 5]) if cmd != "FuzzyNot" else 1
            shape = eems.rand_shape(ctx.rng)
            inputs = [eems.rand_array(ctx.rng, shape, float, eems.FUZZY_LATTICE + [Fraction(k, 8) for k in (-7, -5, -3, -1, 1, 3, 5, 7)]) for _ in range(n)]
            p = ctx.rng.choice(op_params(ctx, cmd, n))
            cases.append(Case(cmd, p, inputs))
    return cases


def run_ok(case):
    out = eems.run_impl(case)
    return out if out["status"] == "ok" and out["vis"][3] is not None else None


def algebra(ctx, count):
    """identities between operators, evaluated on the implementation"""
    rng = ctx.rng
    for _ in range(count):
        n = rng.choice([1, 2, 3, 4, 5])
        shape = eems.rand_shape(rng)
        xs = [eems.rand_array(rng, shape, float, eems.FUZZY_LATTICE) for _ in range(n)]
        # on binary fractions every identity holds bit for bit (sums of them do not round); a third of the cases hold measured decimals instead, where the
        # identities that involve no sum (negation, maximum, minimum, the single truest / falsest value) are still exact and the others hold within rounding
        decimals = rng.random() < 0.33
        if decimals:
            for a in xs:
                d_ = numpy.ma.getdata(a)
                d_[...] = numpy.array([round(rng.uniform(-1, 1), rng.choice([1, 2, 3])) for _k in range(d_.size)]).reshape(d_.shape)
        t_sum = common.TOL if decimals else 0
        desc = Case("FuzzyOr", {}, xs).describe()
        ctx.case("algebra " + desc["protocol"], sample=None)
        ctx.count("c06_algebra_cases")

        def ex(cmd, arrays, **p):
            return run_ok(Case(cmd, p, arrays))
        o_or, o_and, o_un = ex("FuzzyOr", xs), ex("FuzzyAnd", xs), ex("FuzzyUnion", xs)
        if not (o_or and o_and and o_un):
            ctx.fail("FuzzyOr/And/Union failed on valid fuzzy inputs", desc)
            continue
        v_or, v_and, v_un = numeric.vals_of(o_or), numeric.vals_of(o_and), numeric.vals_of(o_un)
        # Not is an involution
        nn = ex("FuzzyNot", [ex("FuzzyNot", [xs[0]])["result"]])
        if numeric.first_diff(numeric.vals_of(nn), numeric.vis_inputs(Case("FuzzyNot", {}, [xs[0]]))[0], 0):
            ctx.fail("FuzzyNot(FuzzyNot(x)) != x", desc)
        # De Morgan: Not(Or(xs)) = And(Not xs), Not(And(xs)) = Or(Not xs)
        nots = [ex("FuzzyNot", [x])["result"] for x in xs]
        if numeric.first_diff(numeric.vals_of(ex("FuzzyNot", [o_or["result"]])), numeric.vals_of(ex("FuzzyAnd", nots)), 0):
            ctx.fail("Not(Or(xs)) != And(Not(xs))", desc)
        if numeric.first_diff(numeric.vals_of(ex("FuzzyNot", [o_and["result"]])), numeric.vals_of(ex("FuzzyOr", nots)), 0):
            ctx.fail("Not(And(xs)) != Or(Not(xs))", desc)
        # And <= Union <= Or
        for a, u, o in zip(v_and, v_un, v_or):
            if len(set(x is None for x in (a, u, o))) > 1:
                ctx.fail("And, Union and Or of the same inputs disagree on which cells are missing: %r %r %r" % (a, u, o), desc)
                break
            if a is not None and not (a <= u + 1e-12 * bool(decimals) and u <= o + 1e-12 * bool(decimals)):
                ctx.fail("And <= Union <= Or violated: %r %r %r" % (a, u, o), desc)
                break
        # SelectedUnion coincidences
        s1 = ex("FuzzySelectedUnion", xs, TruestOrFalsest="Truest", NumberToConsider=1)
        f1 = ex("FuzzySelectedUnion", xs, TruestOrFalsest="Falsest", NumberToConsider=1)
        sa = ex("FuzzySelectedUnion", xs, TruestOrFalsest=rng.choice(["Truest", "Falsest"]), NumberToConsider=n)
        if not (s1 and f1 and sa):
            ctx.fail("FuzzySelectedUnion failed for admissible k", desc)
            continue
        if numeric.first_diff(numeric.vals_of(s1), v_or, 0):
            ctx.fail("SelectedUnion(Truest, 1) != Or", desc)
        if numeric.first_diff(numeric.vals_of(f1), v_and, 0):
            ctx.fail("SelectedUnion(Falsest, 1) != And", desc)
        if numeric.first_diff(numeric.vals_of(sa), v_un, t_sum):
            ctx.fail("SelectedUnion(k = all) != Union", desc)


def at_scale(ctx):
    """the seven operators on grids of 10^4 to some 10^5 cells, 2 to 6 inputs (a body may sort, partition or select differently once the stack of its inputs passes
    some size).  Directed: FuzzySelectedUnion over 4, 5 and 6 inputs on a ladder of grids, Truest and Falsest, EVERY k from 1 to n; the other operators once per
    rung; many ties (a lattice of nine values), few missing cells, fields with and without a mask array.  Compared with the definition written in plain numpy
    (sort the column, take the mean of the k last / first): missing cells exactly, values to 1e-9; k = 1 is Or / And, k = n is Union"""
    rng = eems._rng2(ctx)
    seed = rng.randrange(2 ** 31)
    nr = numpy.random.RandomState(seed)

    def check(cmd, params, ins, shape, form):
        st, r = eems.execute_on(cmd, params, ins)
        ctx.case("at-scale %s %r %s %d %r" % (cmd, shape, form, len(ins), sorted(params.items())), sample=None)
        ctx.count("c06_at_scale_cases")
        desc = {"cmd": cmd, "params": {k: repr(v) for k, v in params.items()}, "shape": list(shape), "inputs": len(ins), "fields": form,
                "values": "quarters between -1 and 1, 3 %% of the cells missing (form mask) or none (form nomask: no mask array); numpy.random.RandomState(%d)" % seed,
                "first_cells": [repr(numpy.ma.getdata(a).ravel()[:6].tolist()) for a in ins]}
        if st != "ok":
            ctx.fail("%s over %d fields of %d cells fails with %s: %s" % (cmd, len(ins), ins[0].size, type(r).__name__, str(r)[:80]), desc)
            return None
        ref = numeric.np_reference(cmd, params, ins)
        d = numeric.field_differs(r, ref) if ref is not None else None
        if d:
            ctx.fail("%s(%s) over %d fields of %d cells: %s" % (cmd, ", ".join("%s = %r" % kv for kv in sorted(params.items())), len(ins), ins[0].size, d), desc)
        return r

    ladder = [(4, (150, 120)), (5, (30000,)), (6, (40, 50, 30)), (4, (700, 400)), (5, (1, 310000))] + ([(5, (1000, 1000))] if ctx.thorough else [])
    for j, (n, shape) in enumerate(ladder):
        form = ("mask", "nomask")[j % 2]
        ins = [eems.big_field(nr, shape, form, 4) for _ in range(n)]
        cells = ins[0].size
        results = {}
        for which in ("Truest", "Falsest"):
            for k in (range(1, n + 1) if cells * n < 1000000 else (1, 2, n - 1)):
                results[(which, k)] = check("FuzzySelectedUnion", {"TruestOrFalsest": which, "NumberToConsider": k}, ins, shape, form)
        for cmd in ("FuzzyOr", "FuzzyAnd", "FuzzyUnion", "FuzzyXOr", "FuzzyWeightedUnion", "FuzzyNot"):
            params = {"Weights": [rng.choice([1, 2, 0.5, 3, 0.25, -1]) for _ in range(n)]} if cmd == "FuzzyWeightedUnion" else {}
            if params and sum(params["Weights"]) == 0:
                params["Weights"][0] += 1
            results[cmd] = check(cmd, params, ins[:1] if cmd == "FuzzyNot" else ins, shape, form)
        # the coincidences of the property, on the implementation's own results
        for (which, k), other in ((("Truest", 1), "FuzzyOr"), (("Falsest", 1), "FuzzyAnd"), (("Truest", n), "FuzzyUnion"), (("Falsest", n), "FuzzyUnion")):
            a, b = results.get((which, k)), results.get(other)
            if a is not None and b is not None and isinstance(a, numpy.ndarray) and isinstance(b, numpy.ndarray) and a.shape == b.shape:
                d = numeric.field_differs(a, (numpy.ma.getdata(b).astype(float), numpy.ma.getmaskarray(b)))
                if d:
                    ctx.fail("FuzzySelectedUnion(%s, %d) of %d fields of %d cells differs from %s of the same fields: %s" % (which, k, n, cells, other, d),
                             {"cmd": "FuzzySelectedUnion", "params": {"TruestOrFalsest": which, "NumberToConsider": k}, "shape": list(shape), "inputs": n, "fields": form,
                              "values": "quarters between -1 and 1; numpy.random.RandomState(%d)" % seed})


SPELLINGS = ["truest", "falsest", "TRUEST", "FALSEST", "tRUEST", "fALSEST", "TruesT", "FalsesT", "truesT", "Truest ", " Falsest", "falsest\t", " truest "]


def spellings(ctx):
    """the keyword written in another capitalisation or with blanks around it (hand-written command files): the command may refuse it with its own error - but
    a spelling it ACCEPTS selects what the word says: `truest` is not Falsest.  Every spelling, 3 and 4 inputs, every k below n (where the two ends differ)"""
    cases = []
    cols = [[-1.0, -0.5, 0.25, 1.0, 0.0, 0.75], [0.5, -1.0, -0.25, 0.0, 1.0, 0.75], [0.0, 0.25, 1.0, -0.75, -1.0, 0.75], [1.0, 0.75, -1.0, 0.5, -0.5, 0.75]]
    for sp in SPELLINGS:
        for n, shape in ((3, (6,)), (4, (2, 3))):
            ins = [numpy.ma.array(numpy.array(cols[j]).reshape(shape), mask=numpy.array([False] * 5 + [j == 1]).reshape(shape)) for j in range(n)]
            for k in range(1, n):
                cases.append(Case("FuzzySelectedUnion", {"TruestOrFalsest": sp, "NumberToConsider": k}, [a.copy() for a in ins]))
    return cases


def oracle_spelling(ctx):
    def on_result(case, out, ans):
        if case.cmd != "FuzzySelectedUnion" or case.params.get("TruestOrFalsest") in ("Truest", "Falsest"):
            return
        if str(case.params.get("TruestOrFalsest")).strip().lower() not in numeric.SPELLED:
            return
        ctx.count("c06_spelling_cases")
        if out["status"] == "err" and not (out["kind"] == "mp" and out["cls"] in ("InvalidTruestOrFalsest", "InvalidNumberToConsider", "MixedArrayShapes")):
            ctx.fail("FuzzySelectedUnion(TruestOrFalsest = %r) is refused with %s %s, not with InvalidTruestOrFalsest" % (case.params["TruestOrFalsest"], out["kind"], out["cls"]), case.describe())
    return on_result


def run(ctx):
    ctx.check_proofs(["MPilot.Props.C06", "MPilot.Props.C06Cells", "MPilot.Props.C06DeMorgan"])
    model = common.Model()
    orc = numeric.combine(
        numeric.oracle_definition(ctx, reference.FUZZY_OPS, "EEMS", in_range_only=True),
        numeric.oracle_commutative(ctx, set(OPS) - {"FuzzyNot"}, max_perms=3 if not ctx.thorough else 24))
    step = Fraction(1, 4) if not ctx.thorough else Fraction(1, 8)
    lat = gen_lattice(ctx, 3, step, ctx.thorough)
    ctx.notes["lattice"] = "all tuples over {-1..1 step %s} ∪ {missing} for 1..3 inputs: %d columns per operator/parameter choice" % (step, sum((int(2 / step) + 2) ** n for n in (1, 2, 3)))
    ctx.notes["exhaustive_lattice_n_le_3"] = True
    eems.run_stream(ctx, model, lat, "exec:fuzzy-ops:lattice", on_result=orc)
    eems.run_stream(ctx, model, gen_crisp(ctx), "exec:fuzzy-ops:crisp-integer-fields", on_result=orc)
    eems.run_stream(ctx, model, gen_random(ctx, OPS, ctx.budget(12, 400)), "exec:fuzzy-ops:random-4-5", on_result=orc)
    wild = [eems.gen_case(ctx.rng, cmd, style="wild") for cmd in OPS for _ in range(ctx.budget(8, 200))]
    eems.run_stream(ctx, model, wild, "exec:fuzzy-ops:errors", on_result=orc)
    algebra(ctx, ctx.budget(40, 1500))
    # (added after the streams above so that those generate what they always generated under a given seed)
    eems.run_stream(ctx, model, spellings(ctx), "exec:fuzzy-ops:keyword-spellings", on_result=numeric.combine(orc, oracle_spelling(ctx)))
    at_scale(ctx)
    numeric.focus_search(ctx, model, lambda cmds, f: gen_random(ctx, cmds, 20 * f), orc)
    return ctx.finish(
        rule="(a) per operator and parameter choice one array case whose columns enumerate every tuple of the fuzzy lattice ∪ {missing} "
             "for 1, 2, 3 inputs; (b) random 4-5 input cases on rank 1-3 shapes; (c) malformed (k>n, bad selector, weight count, shapes); "
             "(d) algebra cases evaluated on the implementation only; distinct by protocol line",
        explanation="theorems in Props/C06.lean (definitions, order invariance, involution, De Morgan, ordering, k=1/k=n) hold for the "
                    "model over all rationals; differential execution ties the 7 operator bodies to the model; exact reference "
                    "definitions and the algebraic identities are evaluated on every implementation result")


def replay(path):
    from .c04 import replay as r
    return r(path)
