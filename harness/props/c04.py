"""C04 — fuzzy results always lie in [-1, +1].

proof:          lean/MPilot/Props/C04.lean  (fuzzy_range: all 14 producers, no hypothesis on inputs or parameters)
correspondence: real `execute` of the 14 producers vs the model's `exec`, parameters deliberately outside [-1, 1]
oracle:         min/max of the non-missing cells of every implementation result; the same when the producers are commands of plug-in classes
                derived from the built-in fuzzy commands (directly and inside Programs); every fuzzy result again after each of its consumers has run
                (every data command, CvtFromFuzzy, the writers; whole Programs); CvtToFuzzy with an omitted threshold whose data-derived value coincides with
                the given one (constant fields, a threshold at the field's minimum / maximum; masked and plain inputs): NaN at a present cell is outside the range
"""
from .. import common, eems


def oracle(ctx):
    def on_result(case, out, ans):
        if out["status"] != "ok":
            return
        kind, dt, shape, vals = out["vis"]
        if vals is None:
            ctx.fail("fuzzy producer %s returned %s, not an array" % (case.cmd, kind), case.describe())
            return
        bad = [v for v in vals if v is not None and not (-1.0 <= v <= 1.0)]
        if bad:
            ctx.fail("fuzzy producer %s returned value(s) outside [-1, 1]: %r" % (case.cmd, bad[:3]), case.describe())
    return on_result


def gen(ctx, n_per_cmd, cmds):
    cases = []
    for cmd in cmds:
        for i in range(n_per_cmd):
            cases.append(eems.gen_case(ctx.rng, cmd, style="wild" if i % 3 == 0 else "valid"))
    return cases


def directed_chains():
    """fixed multi-step models: fuzzy results of real executions (and arrays derived from them) fed into commands whose new values need limiting"""
    import numpy
    from ..eems import Case, run_impl
    raw = numpy.ma.array([-2.0, -1.0, -0.5, 0.0, 0.5, 1.0, 2.0, 3.0], mask=[False] * 7 + [True])

    def res(case):
        o = run_impl(case, copy_inputs=False)
        assert o["status"] == "ok", o
        return o["result"]
    f1 = res(Case("CvtToFuzzy", {"TrueThreshold": 1, "FalseThreshold": -1}, [raw.copy()]))
    f2 = res(Case("FuzzyNot", {}, [f1]))
    f3 = res(Case("CvtToFuzzy", {"TrueThreshold": 3, "FalseThreshold": -2}, [raw.copy()]))
    f4 = res(Case("FuzzyOr", {}, [f3]))
    g = res(Case("CvtFromFuzzy", {"TrueThreshold": 0.5, "FalseThreshold": -0.5}, [f1]))
    cases = []
    for ins, w in (([f1, f2], [2, -1]), ([f2, f1], [-1, 2]), ([f1, f3, f2], [0.1, 0.2, 0.3]), ([f3, f1], [3, -2]), ([f4, f2], [1.5, -0.5]), ([f1], [-1])):
        cases.append(Case("FuzzyWeightedUnion", {"Weights": w}, ins))
    cases.append(Case("CvtToFuzzy", {"TrueThreshold": 0.1, "FalseThreshold": -0.1}, [g]))
    cases.append(Case("CvtToFuzzy", {"TrueThreshold": -0.1, "FalseThreshold": 0.1}, [g]))
    cases.append(Case("CvtToFuzzyCurve", {"RawValues": [-0.5, 0.5], "FuzzyValues": [-3, 3]}, [g]))
    cases.append(Case("CvtToFuzzyCat", {"RawValues": [0.5, -0.5], "FuzzyValues": [5, -5], "DefaultFuzzyValue": 2}, [g]))
    # inputs declared fuzzy that hold values outside the range (a plug-in command, a reader): every fuzzy operator still returns values in range,
    # also for one-element lists and for lists of many
    wide = numpy.ma.array([1.25, -3.0, 0.5, -1.0, 7.0, 0.0], mask=[False, False, False, False, False, True])
    for cmd in ("FuzzyOr", "FuzzyAnd", "FuzzyUnion", "FuzzyNot", "FuzzyXOr", "FuzzySelectedUnion", "FuzzyWeightedUnion"):
        for k in ((1,) if cmd == "FuzzyNot" else (2, 3) if cmd == "FuzzyXOr" else (1, 2, 9)):
            params = {"FuzzySelectedUnion": {"TruestOrFalsest": "Truest", "NumberToConsider": 1}, "FuzzyWeightedUnion": {"Weights": [1] * k}}.get(cmd, {})
            cases.append(Case(cmd, params, [wide.copy() if j % 2 == 0 else -wide.copy() for j in range(k)]))
    # curves whose slopes are no binary fractions, with cells exactly on the control points and on the thresholds: the value at the end of a segment
    # may come out one unit in the last place beyond the control value - still inside the range after limiting
    for raw in ([1, 366], [1, 11], [2000, 2007], [0.1, 0.7], [3, 10], [1, 7, 13], [0.3, 0.9, 2.1, 3.3]):
        for fv in ([-1, 1], [1, -1]):
            vals = [fv[k % 2] for k in range(len(raw))]
            cells = sorted(set(list(raw) + [(a + b) / 2.0 for a, b in zip(raw, raw[1:])] + [raw[0] + (raw[-1] - raw[0]) / 3.0, raw[0] - 1, raw[-1] + 1]))
            cases.append(Case("CvtToFuzzyCurve", {"RawValues": list(raw), "FuzzyValues": vals}, [numpy.ma.array(numpy.array(cells, dtype=float))]))
            cases.append(Case("CvtToFuzzy", {"TrueThreshold": raw[-1], "FalseThreshold": raw[0]}, [numpy.ma.array(numpy.array(cells, dtype=float))]))
            cases.append(Case("CvtToFuzzyCat", {"RawValues": list(raw), "FuzzyValues": vals, "DefaultFuzzyValue": 0}, [numpy.ma.array(numpy.array(cells, dtype=float))]))
    for data in ([1.0, 2.0, 4.0, 11.0, 366.0], [0.1, 0.2, 0.7, 0.7, 0.3], [3.0, 3.0, 10.0, 7.0]):
        for cmd, params in (("CvtToFuzzyMeanToMid", {"IgnoreZeros": False, "FuzzyValues": [-1, -0.5, 0, 0.5, 1]}), ("CvtToFuzzyMeanToMid", {"IgnoreZeros": True, "FuzzyValues": [1, 0.3, 0, -0.3, -1]}),
                            ("CvtToFuzzyZScore", {}), ("CvtToFuzzyCurveZScore", {"ZScoreValues": [-1, 0.3, 1], "FuzzyValues": [-1, 0.1, 1]})):
            cases.append(Case(cmd, params, [numpy.ma.array(numpy.array(data))]))
    # fields without a missing cell, which the stream also hands over as plain ndarrays (a plug-in command's result): parameters that push the raw
    # result out of the range, every producer that combines fuzzy fields or converts raw ones
    u1 = numpy.ma.array([1.0, -1.0, 0.5, -0.25, 1.0, -1.0])
    u2 = numpy.ma.array([-1.0, 1.0, 0.75, 1.0, 1.0, -1.0])
    r1 = numpy.ma.array([0.0, 1.0, 2.0, 5.0, -3.0, 10.0])
    plain_cases = [Case("FuzzyWeightedUnion", {"Weights": w}, [a.copy() for a in ins]) for ins, w in (([u1, u2], [3, -1]), ([u2, u1], [2, -1.5]), ([u1, u2, u1], [-1, -1, 3]), ([u1], [-1]), ([u1, u2], [0.1, 0.2]))]
    plain_cases += [Case("FuzzyUnion", {}, [u1.copy(), u2.copy()]), Case("FuzzyOr", {}, [u1.copy() * 2]), Case("FuzzyAnd", {}, [u2.copy() * 3, u1.copy()]), Case("FuzzyNot", {}, [u1.copy() * 2]),
                    Case("FuzzyXOr", {}, [u1.copy(), u2.copy()]), Case("FuzzySelectedUnion", {"TruestOrFalsest": "Falsest", "NumberToConsider": 2}, [u1.copy() * 2, u2.copy(), u1.copy()]),
                    Case("CvtToFuzzy", {"TrueThreshold": 2, "FalseThreshold": 1}, [r1.copy()]), Case("CvtToFuzzy", {}, [r1.copy()]),
                    Case("CvtToFuzzyCurve", {"RawValues": [0, 5], "FuzzyValues": [-3, 3]}, [r1.copy()]), Case("CvtToFuzzyCat", {"RawValues": [1, 5], "FuzzyValues": [5, -5], "DefaultFuzzyValue": 2}, [r1.copy()]),
                    Case("CvtToFuzzyZScore", {"TrueThresholdZScore": 0.5, "FalseThresholdZScore": -0.5}, [r1.copy()]),
                    Case("CvtToFuzzyCurveZScore", {"ZScoreValues": [-1, 1], "FuzzyValues": [-4, 4]}, [r1.copy()]),
                    Case("CvtToFuzzyMeanToMid", {"IgnoreZeros": False, "FuzzyValues": [-2, -1, 0, 1, 2]}, [r1.copy()]), Case("CvtToBinary", {"Threshold": 2, "Direction": "LowToHigh"}, [r1.copy()])]
    for c_ in plain_cases:
        c_.always_plain = True
    cases += plain_cases
    for f in (f1, f2, f3, f4):
        cases.append(Case("FuzzyNot", {}, [f]))
        cases.append(Case("FuzzyUnion", {}, [f, f2]))
        cases.append(Case("FuzzyXOr", {}, [f, f1]))
        cases.append(Case("FuzzySelectedUnion", {"TruestOrFalsest": "Truest", "NumberToConsider": 1}, [f, f2]))
    return cases


def after_write(ctx, count):
    """fuzzy results handed to the writers (NetCDF: several fields with different missing cells in one file; CSV) are still fuzzy afterwards:
    the stored result of a fuzzy command stays within [-1, 1] at its non-missing cells whatever consumes it"""
    import os, numpy
    from . import c18
    from mpilot.libraries.eems.netcdf.io import EEMSWrite as NcWrite
    rng = ctx.rng
    tmp = common.tmpdir("mpv_c04_")
    for i in range(count):
        shape = rng.choice(c18.SHAPES)
        k = rng.randrange(2, 5)
        arrs = []
        for j in range(k):
            case = eems.gen_case(rng, rng.choice(["CvtToFuzzy", "FuzzyNot", "FuzzyUnion", "CvtToFuzzyCat"]), style="valid", shape=shape, mask_style=rng.choice(["one", "some", "none"]))
            out = eems.run_impl(case)
            if out["status"] == "ok" and isinstance(out["result"], numpy.ma.MaskedArray) and out["result"].shape == tuple(shape):
                arrs.append(out["result"])
        if len(arrs) < 2:
            continue
        tpl = os.path.join(tmp, "tpl%d.nc" % (i % 4))
        c18.make_template(tpl, shape, rng)
        outp = os.path.join(tmp, "out%d.nc" % (i % 4))
        if os.path.exists(outp):
            os.remove(outp)
        try:
            NcWrite("W", []).execute(OutFileName=outp, OutFieldNames=[eems.Producer(a, "f%d" % j, True) for j, a in enumerate(arrs)],
                                     DimensionFileName=tpl, DimensionFieldName="elev")
        except Exception as e:
            ctx.count("after_write_errors:" + type(e).__name__)
        ctx.case("after-write %d %r" % (i, [a.tolist() for a in arrs]), sample=None)
        ctx.count("after_write_cases")
        for j, a in enumerate(arrs):
            vis = [v for v, m in zip(numpy.ma.getdata(a).ravel().tolist(), numpy.ma.getmaskarray(a).ravel().tolist()) if not m]
            bad = [v for v in vis if not (-1.0 <= v <= 1.0)]
            if bad:
                ctx.fail("after a NetCDF write of %d fuzzy results, result no. %d holds %r at a non-missing cell" % (len(arrs), j, bad[:3]),
                         {"results": [repr(x.tolist()) for x in arrs], "shape": shape})
                break

def after_consumers(ctx):
    """time of check and time of use: a fuzzy result that was within [-1, +1] when it was returned is the command's result for as long as the model lives - it is
    read again by every later consumer, written, printed.  So every fuzzy result is range-checked again AFTER each of its consumers has run: the result of each
    of the 14 producers (floating fields as the real bodies return them, with and without missing cells, on vectors and grids) is consumed by every data command
    (fuzzy operators with the field first / last / listed twice among other fuzzy results, CvtFromFuzzy onto target ranges far outside the fuzzy range, arithmetic
    and conversion commands) and by the writers (NetCDF / CSV EEMSWrite, PrintVars); then as whole Programs in which every producer has several consumers"""
    import contextlib
    import io
    import os
    import warnings
    import numpy
    from collections import OrderedDict
    from mpilot.arguments import Argument, ListArgument
    from mpilot.libraries.eems.netcdf.io import EEMSWrite as NcWrite
    from mpilot.libraries.eems.csv.io import EEMSWrite as CsvWrite
    from mpilot.libraries.eems.basic import PrintVars
    from . import c18
    from ..eems import Case
    rng = eems._rng2(ctx)
    tmp = common.tmpdir("mpv_c04c_")
    back = [{"TrueThreshold": 100, "FalseThreshold": 0}, {"TrueThreshold": 0, "FalseThreshold": 250.0}, {"TrueThreshold": -5, "FalseThreshold": 5}, {"TrueThreshold": 3, "FalseThreshold": 2.5},
            {"TrueThreshold": 1, "FalseThreshold": -1}, {"TrueThreshold": 0.5, "FalseThreshold": -0.5}]

    def beyond(a):
        cells = numpy.ma.getdata(a)[~numpy.ma.getmaskarray(a)] if isinstance(a, numpy.ndarray) else numpy.array([numpy.nan])
        with numpy.errstate(all="ignore"):
            return cells[~((cells >= -1) & (cells <= 1))]

    for shape in ((12,), (3, 4), (2, 3, 2)):
        raw = numpy.ma.array(numpy.array([0.0, 1.0, 2.0, 3.0, 4.0, 5.0, 6.0, 7.0, 8.0, 9.0, 10.0, 2.5]).reshape(shape), mask=numpy.array([False] * 4 + [True] + [False] * 7).reshape(shape))
        full = numpy.ma.array(numpy.array([10.0, 0.0, 7.5, 2.0, 4.0, 6.0, 5.0, 3.0, 8.0, 1.0, 9.0, 0.5]).reshape(shape))         # nothing missing, no mask array
        tpl = os.path.join(tmp, "tpl%d.nc" % len(shape))
        c18.make_template(tpl, shape, rng)
        lo = eems.run_impl(Case("CvtToFuzzy", {"TrueThreshold": 8, "FalseThreshold": 1}, [raw]))["result"]
        hi = eems.run_impl(Case("CvtToFuzzy", {"TrueThreshold": 2, "FalseThreshold": 9}, [full]))["result"]
        made = [("CvtToFuzzy", {"TrueThreshold": 10, "FalseThreshold": 0}, [raw]), ("CvtToFuzzy", {}, [full]), ("CvtToFuzzyZScore", {"TrueThresholdZScore": 1.5, "FalseThresholdZScore": -1.5}, [raw]),
                ("CvtToFuzzyCat", {"RawValues": [1, 2, 9, 7.5], "FuzzyValues": [1, -1, 0.5, 0.25], "DefaultFuzzyValue": -0.75}, [full]), ("CvtToFuzzyCurve", {"RawValues": [0, 5, 10], "FuzzyValues": [-1, 0.5, 1]}, [raw]),
                ("CvtToFuzzyMeanToMid", {"IgnoreZeros": False, "FuzzyValues": [-1, -0.5, 0, 0.5, 1]}, [full]), ("CvtToFuzzyCurveZScore", {"ZScoreValues": [-1, 0, 1], "FuzzyValues": [-1, 0.25, 1]}, [raw]),
                ("CvtToBinary", {"Threshold": 4, "Direction": "LowToHigh"}, [raw]), ("FuzzyUnion", {}, [lo, hi]), ("FuzzyWeightedUnion", {"Weights": [3, 1]}, [lo, hi]),
                ("FuzzySelectedUnion", {"TruestOrFalsest": "Truest", "NumberToConsider": 1}, [lo, hi]), ("FuzzyOr", {}, [lo, hi]), ("FuzzyAnd", {}, [hi, lo]), ("FuzzyXOr", {}, [lo, hi]), ("FuzzyNot", {}, [lo])]
        for pcmd, pparams, pins in made:
            pcase = Case(pcmd, pparams, pins)
            po = eems.run_impl(pcase)
            if po["status"] != "ok" or not isinstance(po["result"], numpy.ndarray):
                ctx.fail("%s on a field of shape %r fails: %s" % (pcmd, shape, eems.impl_summary(po)[:80]), pcase.describe())
                continue
            res = po["result"]
            if beyond(res).size:
                continue                                     # (reported by the stream's oracle on the result as returned)
            others = [x for x in (lo, hi) if x is not res]
            keep = res.copy()
            consumers = []
            for cmd in eems.COMMANDS:
                how = eems.COMMANDS[cmd][1]
                lists = [[res]] if how == "one" else [[res, others[0]], [others[-1], res]] if how == "ab" else [[res], [res, others[0]], [others[0], others[-1], res], [res, others[0], res]]
                if cmd == "FuzzyXOr":
                    lists = lists[1:]
                for ins in lists:
                    for params in (back if cmd == "CvtFromFuzzy" else [eems.gen_params(rng, cmd, ins, "valid")]):
                        consumers.append((cmd, params, ins))
            for wr in ("netcdf", "netcdf-last", "csv", "print"):
                consumers.append((wr, {}, [res, others[0]] if wr != "netcdf-last" else [others[0], res]))
            for cmd, params, ins in consumers:
                try:
                    with contextlib.redirect_stdout(io.StringIO()), warnings.catch_warnings(), numpy.errstate(all="ignore"):
                        warnings.simplefilter("ignore")
                        prods = [eems.Producer(a, "f%d" % j, True) for j, a in enumerate(ins)]
                        if cmd.startswith("netcdf"):
                            outp = os.path.join(tmp, "out.nc")
                            if os.path.exists(outp):
                                os.remove(outp)
                            NcWrite("W", []).execute(OutFileName=outp, OutFieldNames=prods, DimensionFileName=tpl, DimensionFieldName="elev")
                        elif cmd == "csv":
                            CsvWrite("W", []).execute(OutFileName=os.path.join(tmp, "out.csv"), OutFieldNames=prods)
                        elif cmd == "print":
                            PrintVars("P", []).execute(InFieldNames=prods)
                        else:
                            eems.execute_on(cmd, params, ins)
                except Exception:            # noqa (a consumer that refuses the field - a CSV table of a grid - consumed nothing)
                    ctx.count("after_consumers_refused")
                ctx.count("after_consumers_checks")
                for what, a in [("the result of %s" % pcase.spec(), res)] + [("another fuzzy result consumed with it (CvtToFuzzy)", x) for x in others]:
                    bad = beyond(a)
                    if bad.size:
                        ctx.fail("%s was within [-1, 1] when it was returned; after %s%s had consumed it (input no. %r of %d) it holds %r at non-missing cells" % (
                            what, cmd, "(%s)" % ", ".join("%s=%r" % kv for kv in sorted(params.items())) if params else "", [j for j, x in enumerate(ins) if x is a], len(ins), bad.tolist()[:4]),
                            dict(pcase.describe(), consumer=cmd, consumer_params={k_: repr(v) for k_, v in params.items()}, returned=repr(keep.tolist()), now=repr(a.tolist())))
                        numpy.ma.getdata(res)[...] = numpy.ma.getdata(keep)          # as returned again, for the consumers that follow
                        if a is not res:
                            return
                        break
            ctx.case("after-consumers %r %s" % (shape, pcase.line()), sample=None)
    # whole Programs: every one of the 14 producers has a CvtFromFuzzy, a FuzzyNot, an operator and the writer as consumers, listed before or after one another
    al = eems.arrays_lib()
    prod_steps = [("Lo", "CvtToFuzzy", {"InFieldName": "Raw", "TrueThreshold": 8, "FalseThreshold": 1}), ("Hi", "CvtToFuzzy", {"InFieldName": "Raw", "TrueThreshold": 2, "FalseThreshold": 9}),
                  ("Z", "CvtToFuzzyZScore", {"InFieldName": "Raw", "TrueThresholdZScore": 1.5, "FalseThresholdZScore": -1.5}), ("Cat", "CvtToFuzzyCat", {"InFieldName": "Raw", "RawValues": [1, 2, 9], "FuzzyValues": [1, -1, 0.5], "DefaultFuzzyValue": -0.75}),
                  ("Curve", "CvtToFuzzyCurve", {"InFieldName": "Raw", "RawValues": [0, 5, 10], "FuzzyValues": [-1, 0.5, 1]}), ("Mid", "CvtToFuzzyMeanToMid", {"InFieldName": "Raw", "IgnoreZeros": False, "FuzzyValues": [-1, -0.5, 0, 0.5, 1]}),
                  ("CurveZ", "CvtToFuzzyCurveZScore", {"InFieldName": "Raw", "ZScoreValues": [-1, 0, 1], "FuzzyValues": [-1, 0.25, 1]}), ("Bin", "CvtToBinary", {"InFieldName": "Raw", "Threshold": 4, "Direction": "LowToHigh"}),
                  ("Union", "FuzzyUnion", {"InFieldNames": ["Lo", "Hi"]}), ("Wtd", "FuzzyWeightedUnion", {"InFieldNames": ["Lo", "Hi"], "Weights": [3, 1]}),
                  ("Sel", "FuzzySelectedUnion", {"InFieldNames": ["Lo", "Hi"], "TruestOrFalsest": "Falsest", "NumberToConsider": 1}), ("Or", "FuzzyOr", {"InFieldNames": ["Lo", "Hi"]}),
                  ("And", "FuzzyAnd", {"InFieldNames": ["Hi", "Lo"]}), ("XOr", "FuzzyXOr", {"InFieldNames": ["Lo", "Hi"]}), ("Not", "FuzzyNot", {"InFieldName": "Lo"})]

    def arg(k, v):
        return ListArgument(k, list(v), 3, [3] * len(v)) if isinstance(v, list) else Argument(k, v, 3)
    for variant in range(3):
        al.HOLD.clear()
        al.HOLD["Raw"] = numpy.ma.array([0.0, 1.0, 2.0, 3.0, 4.0, 5.0, 6.0, 7.0, 8.0, 9.0, 10.0], mask=[False] * 5 + [variant != 1] + [False] * 5)
        t, f = [(100, 0), (0, 40.0), (-3, 7)][variant]
        cons = []
        for nm, _c, _a in prod_steps:
            cs = [("Back" + nm, "CvtFromFuzzy", {"InFieldName": nm, "TrueThreshold": t, "FalseThreshold": f}), ("Neg" + nm, "FuzzyNot", {"InFieldName": nm}),
                  ("With" + nm, "FuzzyOr", {"InFieldNames": [nm, "Lo"]})]
            cons += cs if variant != 2 else cs[::-1]
        steps = [("Raw", al.HeldData, {})] + [(nm, eems.command_class(c), a) for nm, c, a in (prod_steps + cons if variant != 1 else cons + prod_steps)]
        steps.append(("Shown", PrintVars, {"InFieldNames": [nm for nm, _c, _a in prod_steps], "OutFileName": os.path.join(tmp, "shown.txt")}))
        desc = {"program": ["%s = %s(%s)" % (nm, cls.__name__, ", ".join("%s = %r" % kv for kv in a.items())) for nm, cls, a in steps], "Raw": repr(al.HOLD["Raw"].tolist())}
        p = eems.new_pipeline_program()
        try:
            with warnings.catch_warnings(), numpy.errstate(all="ignore"):
                warnings.simplefilter("ignore")
                for nm, cls, a in steps:
                    p.add_command(cls, nm, OrderedDict((k, arg(k, v)) for k, v in a.items()), lineno=1)
                p.run()
        except Exception as e:
            ctx.fail("a Program in which every fuzzy result has several consumers (CvtFromFuzzy among them) fails: %s %s" % (type(e).__name__, str(e)[:100]), desc)
            continue
        ctx.case("after-consumers-program %d" % variant, sample=None)
        for nm, cls, a in steps:
            if cls.__module__.startswith("mpilot.libraries.eems.") and getattr(cls, "is_fuzzy", False):
                ctx.count("after_consumers_program_results")
                bad = beyond(p.commands[nm].result)
                if bad.size:
                    ctx.fail("after the whole Program has run, the result %s of the fuzzy command %s holds %r at non-missing cells (every fuzzy result is consumed by CvtFromFuzzy(%r, %r), "
                             "FuzzyNot and FuzzyOr)" % (nm, cls.__name__, bad.tolist()[:4], t, f), desc)
                    break


def derived_producers(ctx):
    """user libraries EXTEND built-in commands: a plug-in class derived from CvtToFuzzy, FuzzyOr, FuzzyUnion ... (to inherit its flags, its parameters, its
    documentation) hands out whatever its author computes - a contrast stretch of the inherited result, a field of its own - and may leave the fuzzy range.
    That is the plug-in's business; the BUILT-IN fuzzy commands fed with such results still return values within [-1, +1] (nothing about the class of a
    producer says anything about its values).  Directed: a plug-in derived from each of the 14 built-in fuzzy producers x every fuzzy operator, one to three
    inputs, called directly and inside a Program; and whole Programs in which plug-ins that post-process the inherited result stand next to built-in commands"""
    import numpy
    from collections import OrderedDict
    from mpilot.arguments import Argument, ListArgument
    from mpilot.exceptions import MPilotError
    from ..eems import Case
    wide = numpy.ma.array([1.25, -3.0, 0.5, -1.0, 7.0, 0.0, -1.5, 1.0], mask=[False, False, False, False, False, True, False, False])

    def in_range(what, r, desc):
        ctx.count("derived_producer_results")
        if not isinstance(r, numpy.ndarray):
            ctx.fail("%s returned %s, not an array" % (what, type(r).__name__), desc)
            return
        cells = numpy.ma.getdata(r)[~numpy.ma.getmaskarray(r)]
        bad = cells[~((cells >= -1) & (cells <= 1))]
        if bad.size:
            ctx.fail("%s returned value(s) outside [-1, 1]: %r" % (what, bad.tolist()[:3]), desc)

    consumers = []
    for cmd in ("FuzzyOr", "FuzzyAnd", "FuzzyUnion", "FuzzySelectedUnion", "FuzzyWeightedUnion", "FuzzyXOr", "FuzzyNot"):
        for n in ((1,) if cmd == "FuzzyNot" else (2, 3) if cmd == "FuzzyXOr" else (1, 2, 3)):
            for params in ({"FuzzySelectedUnion": [{"TruestOrFalsest": "Truest", "NumberToConsider": 1}, {"TruestOrFalsest": "Falsest", "NumberToConsider": n}],
                            "FuzzyWeightedUnion": [{"Weights": [1] * n}, {"Weights": [2, -0.5, 0.25][:n]}]}.get(cmd, [{}])):
                consumers.append((cmd, n, params))
    for base in eems.FUZZY_PRODUCERS:
        for cmd, n, params in consumers:
            case = Case(cmd, params, [wide.copy() if j % 2 == 0 else -wide.copy() * 0.75 for j in range(n)])
            desc = dict(case.describe(), producers="finished commands of a plug-in class derived from the built-in %s" % base)
            out = eems.run_impl(case, derived=base)
            piped = eems.run_pipeline(case, derived=base, producers_first=bool(n % 2))
            ctx.case("derived %s %s" % (base, case.line()), sample=None)
            for how, o in (("called directly", out), ("inside a Program", piped)):
                if o["status"] == "ok":
                    in_range("%s over %d result(s) of a plug-in command derived from %s (%s)" % (cmd, n, base, how), o["result"], desc)
                else:
                    ctx.fail("%s over %d result(s) of a plug-in command derived from %s (%s) fails: %s %s" % (cmd, n, base, how, o.get("kind"), o.get("cls")), desc)
    # whole Programs: Raw (a plug-in's field) -> built-in conversions and plug-ins that stretch the inherited result -> built-in operators over both
    dl, al = eems.derived_lib(), eems.arrays_lib()
    raw = numpy.ma.array([0.0, 1.0, 2.0, 3.0, 4.0, 5.0, 6.0, 7.0, 8.0, 9.0, 10.0], mask=[False] * 5 + [True] + [False] * 5)
    stretched = [("CvtToFuzzy", {"InFieldName": "Raw", "TrueThreshold": 10, "FalseThreshold": 0}), ("CvtToFuzzyCurve", {"InFieldName": "Raw", "RawValues": [0, 5, 10], "FuzzyValues": [-1, 0.5, 1]}),
                 ("CvtToFuzzyZScore", {"InFieldName": "Raw", "TrueThresholdZScore": 1, "FalseThresholdZScore": -1}), ("CvtToBinary", {"InFieldName": "Raw", "Threshold": 4, "Direction": "LowToHigh"}),
                 ("CvtToFuzzyCat", {"InFieldName": "Raw", "RawValues": [1, 2, 9], "FuzzyValues": [1, -1, 0.5], "DefaultFuzzyValue": -0.75}),
                 ("FuzzyNot", {"InFieldName": "Plain"}), ("FuzzyOr", {"InFieldNames": ["Plain", "Other"]}), ("FuzzyAnd", {"InFieldNames": ["Plain"]}), ("FuzzyUnion", {"InFieldNames": ["Plain", "Other"]}),
                 ("FuzzyXOr", {"InFieldNames": ["Plain", "Other"]}), ("FuzzySelectedUnion", {"InFieldNames": ["Plain", "Other"], "TruestOrFalsest": "Truest", "NumberToConsider": 1}),
                 ("FuzzyWeightedUnion", {"InFieldNames": ["Plain", "Other"], "Weights": [1, 3]})]

    def arg(k, v):
        return ListArgument(k, list(v), 3, [3] * len(v)) if isinstance(v, list) else Argument(k, v, 3)
    for base, bargs in stretched:
        for gain, shift in ((1.5, 0), (-2, 0), (1, 0.5), (1, 0)):
            al.HOLD.clear()
            al.HOLD["Raw"] = raw.copy()
            p = eems.new_pipeline_program()
            steps = [("Raw", al.HeldData, {}), ("Plain", eems.command_class("CvtToFuzzy"), {"InFieldName": "Raw", "TrueThreshold": 10, "FalseThreshold": 0}),
                     ("Other", eems.command_class("CvtToFuzzy"), {"InFieldName": "Raw", "TrueThreshold": 2, "FalseThreshold": 8}),
                     ("Boosted", dl.BOOSTED[base], dict(bargs, Gain=gain, Shift=shift)),
                     ("NotB", eems.command_class("FuzzyNot"), {"InFieldName": "Boosted"}), ("OrB", eems.command_class("FuzzyOr"), {"InFieldNames": ["Plain", "Boosted"]}),
                     ("AndB", eems.command_class("FuzzyAnd"), {"InFieldNames": ["Boosted", "Plain"]}), ("OnlyOr", eems.command_class("FuzzyOr"), {"InFieldNames": ["Boosted"]}),
                     ("OnlyAnd", eems.command_class("FuzzyAnd"), {"InFieldNames": ["Boosted"]}), ("UnionB", eems.command_class("FuzzyUnion"), {"InFieldNames": ["Boosted", "Boosted"]}),
                     ("XOrB", eems.command_class("FuzzyXOr"), {"InFieldNames": ["Boosted", "Other"]}),
                     ("SelB", eems.command_class("FuzzySelectedUnion"), {"InFieldNames": ["Other", "Boosted"], "TruestOrFalsest": "Falsest", "NumberToConsider": 1}),
                     ("WtdB", eems.command_class("FuzzyWeightedUnion"), {"InFieldNames": ["Boosted", "Other"], "Weights": [3, 1]}),
                     ("NotNotB", eems.command_class("FuzzyNot"), {"InFieldName": "NotB"})]
            desc = {"program": ["%s = %s(%s)" % (nm, cls.__name__, ", ".join("%s = %r" % kv for kv in a.items())) for nm, cls, a in steps],
                    "Raw": repr(raw.tolist()), "Boosted": "plug-in class derived from the built-in %s: the inherited result * Gain + Shift" % base}
            import warnings
            try:
                with warnings.catch_warnings(), numpy.errstate(all="ignore"):
                    warnings.simplefilter("ignore")
                    for nm, cls, a in steps:
                        p.add_command(cls, nm, OrderedDict((k, arg(k, v)) for k, v in a.items()), lineno=1)
                    p.run()
            except Exception as e:
                ctx.fail("a Program with a plug-in command derived from %s (Gain %r, Shift %r) fails: %s %s" % (base, gain, shift, type(e).__name__, str(e)[:100]), desc)
                continue
            ctx.case("derived-program %s %r %r" % (base, gain, shift), sample=None)
            for nm, cls, a in steps:
                if cls.__module__.startswith("mpilot.libraries.eems.") and getattr(cls, "is_fuzzy", False):
                    in_range("the built-in %s (result %s of a Program in which Boosted is a plug-in derived from %s, Gain %r, Shift %r)" % (cls.__name__, nm, base, gain, shift),
                             p.commands[nm].result, desc)


def fields_without_spread(ctx):
    """fields whose present cells all hold one value (a single cell, a constant grid), as masked arrays and as plain ndarrays - what a plug-in command may hand
    over -, through every fuzzy producer that derives its mapping from the data (the z-score conversions, the mean-to-mid conversion, CvtToFuzzy with default
    thresholds): the mapping is undefined there, and whatever the command does - refuse the field, return it all missing - no PRESENT cell of a result may lie
    outside [-1, 1]; a NaN is outside (F27: on a plain field the z-score conversions returned NaN at every cell)"""
    import numpy
    cases = [("CvtToFuzzyZScore", {}), ("CvtToFuzzyZScore", {"TrueThresholdZScore": 1, "FalseThresholdZScore": -1}), ("CvtToFuzzyZScore", {"TrueThresholdZScore": -2, "FalseThresholdZScore": 0.5}),
             ("CvtToFuzzyCurveZScore", {"ZScoreValues": [-1, 0, 1], "FuzzyValues": [-1, 0, 1]}), ("CvtToFuzzyMeanToMid", {"IgnoreZeros": False, "FuzzyValues": [-1, -0.5, 0, 0.5, 1]}),
             ("CvtToFuzzy", {}), ("CvtToFuzzy", {"Direction": "HighToLow"})]
    for cmd, params in cases:
        for shape in ((1,), (4,), (2, 3), (2, 1, 2)):
            for v in (2.5, 0.0, -7.0, 3):
                for form in ("plain", "masked", "masked with a missing cell"):
                    d = numpy.full(shape, v, dtype=float if isinstance(v, float) else int)
                    if form == "plain":
                        a = d
                    else:
                        m = numpy.zeros(shape, dtype=bool)
                        if form != "masked" and d.size > 1:
                            m.ravel()[0] = True
                            d.ravel()[0] = 99
                        a = numpy.ma.array(d, mask=m)
                    c = eems.Case(cmd, params, [a])
                    out = eems.run_impl(c, plain=(form == "plain"))
                    ctx.case("no spread %s %r %r %r %s" % (cmd, params, shape, v, form), sample=None)
                    ctx.count("c04_fields_without_spread")
                    if out["status"] != "ok":
                        continue
                    r = out["result"]
                    vis = numpy.ma.masked_array(r).compressed()
                    bad = [x for x in numpy.asarray(vis, dtype=float).tolist() if not (-1 <= x <= 1)]
                    if bad:
                        ctx.fail("%s on a field whose present cells all hold %r (%s, shape %r) returns %r at a present cell: outside [-1, 1]" % (cmd, v, form, shape, bad[0]),
                                 {"cmd": cmd, "params": params, "field": "every present cell holds %r" % (v,), "shape": list(shape), "form": form})


def coinciding_thresholds(ctx):
    """CvtToFuzzy with a threshold left out (its value then comes from the data: the minimum / maximum of the field) that COINCIDES with the other one: constant
    fields with no threshold or one threshold given, fields whose minimum / maximum is the given threshold (TrueThreshold = 0 on counts that start at 0), both
    directions and the omitted direction, integer and floating fields, 1 cell to some 10^4 cells, rank 1-3, as masked arrays (with and without missing cells, the
    visible cells constant) and as plain ndarrays (a plug-in's result: nothing hides a 0/0 there).  Whatever the command does with such a pair - refuse it or map
    it - no present cell of a result may be outside [-1, 1], and a NaN is outside"""
    import numpy
    rng = eems._rng2(ctx)
    fields = []
    for dt in (float, int, numpy.float32):
        for shape in ((1,), (7,), (3, 4), (2, 1, 5), (90, 120)):
            v = rng.choice([0, 1, -3, 7, 250]) if dt is int else rng.choice([0.0, 1.0, -0.5, 2.5, -1e6, 1e-3])
            fields.append(("constant", numpy.full(shape, v, dtype=dt), v, v))
            lo, hi = (rng.choice([0, -2, 5]), rng.choice([9, 40])) if dt is int else (rng.choice([0.0, -1.25, 100.0]), rng.choice([100.5, 1e4]))
            d = numpy.linspace(lo, hi, int(numpy.prod(shape))).astype(dt).reshape(shape)
            if d.size > 1:
                numpy.random.RandomState(rng.randrange(2 ** 31)).shuffle(d.reshape(-1))
                fields.append(("spread", d, d.min().item(), d.max().item()))
    for kind, d, lo, hi in fields:
        combos = [{}, {"Direction": "LowToHigh"}, {"Direction": "HighToLow"}] if kind == "constant" else []
        for direction in (None, "LowToHigh", "HighToLow"):
            # the omitted false threshold is the minimum (HighToLow: the maximum), the omitted true threshold the maximum (HighToLow: the minimum): the given one equals it
            f_default, t_default = (hi, lo) if direction == "HighToLow" else (lo, hi)
            for p in ({"TrueThreshold": f_default}, {"FalseThreshold": t_default}, {"TrueThreshold": float(f_default)}, {"FalseThreshold": float(t_default)}):
                combos.append(dict(p, **({"Direction": direction} if direction else {})))
        for params in combos:
            forms = [("masked array", numpy.ma.array(d.copy()), False), ("plain ndarray", numpy.ma.array(d.copy()), True)]
            if d.size >= 3:
                m = numpy.zeros(d.size, dtype=bool)
                m[[0, d.size // 2]] = True                  # (the extremes of a spread field may be among the missing cells: whatever the visible extremes are then is fine)
                hid = d.copy().astype(float if d.dtype.kind == "i" else d.dtype)
                hid.reshape(-1)[m] = [hi + 5, lo - 5]       # beneath the missing cells lies something else
                forms.append(("masked array with missing cells", numpy.ma.array(hid.astype(d.dtype), mask=m.reshape(d.shape)), False))
            for form, arr, plain in forms:
                case = eems.Case("CvtToFuzzy", params, [arr])
                out = eems.run_impl(case, plain=plain)
                ctx.case("coinciding-thresholds %s %r %s %r %s lo=%r hi=%r" % (kind, sorted(params.items()), d.dtype, d.shape, form, lo, hi), sample=None)
                ctx.count("c04_coinciding_threshold_cases")
                ctx.count("c04_coinciding:" + (out["status"] if out["status"] == "ok" else out["kind"] + ":" + out["cls"]))
                if out["status"] != "ok":
                    continue
                r = out["result"]
                rd, rm = numpy.ma.getdata(r), numpy.ma.getmaskarray(r)
                with numpy.errstate(all="ignore"):
                    bad = ~((rd >= -1) & (rd <= 1)) & ~rm
                if bad.any():
                    i = int(numpy.flatnonzero(bad.ravel())[0])
                    desc = {"cmd": "CvtToFuzzy", "params": {k: repr(v) for k, v in params.items()}, "input": "%s field handed over as a %s, dtype %s, shape %r, minimum %r, maximum %r" % (kind, form, d.dtype, d.shape, lo, hi),
                            "first_cells": repr(numpy.ma.getdata(arr).ravel()[:8].tolist()), "result_first_cells": repr(rd.ravel()[:8].tolist())}
                    if d.size <= 64:
                        desc.update(case.describe())
                    ctx.fail("CvtToFuzzy(%s) on a %s field (%s, minimum %r, maximum %r; the omitted threshold, taken from the data, equals the given one): the present cell %d holding %r is mapped to %r, "
                             "outside [-1, 1] (%d such cells)" % (", ".join("%s = %r" % kv for kv in sorted(params.items())), kind, form, lo, hi, i, numpy.ma.getdata(arr).ravel()[i].item(), rd.ravel()[i].item(), int(bad.sum())), desc)


def run(ctx):
    ctx.check_proofs(["MPilot.Props.C04", "MPilot.Props.C04Hist"])
    model = common.Model()
    n = ctx.budget(40, 1500)
    eems.run_stream(ctx, model, gen(ctx, n, eems.FUZZY_PRODUCERS), "exec:fuzzy-producers", on_result=oracle(ctx))
    chain_consumers = [c for c in eems.FUZZY_PRODUCERS if c in eems.FUZZY_CONSUMERS]
    eems.run_stream(ctx, model, eems.gen_chains(ctx.rng, ctx.budget(60, 2500), chain_consumers), "exec:fuzzy-chains", on_result=oracle(ctx))
    eems.run_stream(ctx, model, directed_chains(), "exec:fuzzy-chains-directed", on_result=oracle(ctx))
    coinciding_thresholds(ctx)
    fields_without_spread(ctx)
    after_write(ctx, ctx.budget(20, 600))
    after_consumers(ctx)
    derived_producers(ctx)
    if ctx.disagreements and not ctx.failures:
        # failing-input search: enlarged budget focused on the commands whose correspondence broke
        cmds = sorted(set(d["case"]["cmd"] for d in ctx.disagreements))
        keep = list(ctx.disagreements)
        eems.run_stream(ctx, model, gen(ctx, n * 10, cmds), "exec:focus", on_result=oracle(ctx))
        ctx.disagreements = keep
    return ctx.finish(
        rule="cases = (fuzzy producer, cleaned parameters incl. out-of-range thresholds/weights/category/curve values, "
             "1-5 input arrays of rank 1-3 with masks and adversarial hidden payloads); distinct by protocol line; "
             "non-trivial = the implementation returned an array or one of its own (MPilotError) errors",
        explanation="theorem fuzzy_range holds for every input and parameter of the model; the model is tied to the code by "
                    "differential execution of the 14 execute bodies; every implementation result is range-checked")


def replay(path):
    import json
    obj = json.load(open(path))
    model = common.Model()
    rc = 0
    for item in obj.get("failures", []) + obj.get("disagreements", []):
        if not isinstance(item.get("case"), dict) or "protocol" not in item["case"]:
            # a directed scenario (fields of millions of cells, whole Programs, sequences): described in words and by its generator seed; the check itself rebuilds it
            print("what:", item.get("what"))
            print("scenario:", json.dumps(item.get("case"), sort_keys=True, default=str)[:2000])
            continue
        line = item["case"]["protocol"]
        print("case:", line)
        print("model:", model.ask([line])[0])
        c = eems_case_from_line(line)
        out = eems.run_impl(c)
        print("impl:", eems.impl_summary(out))
        piped = eems.run_pipeline(c)
        print("impl, inside a Program of its own:", eems.impl_summary(piped) if piped["status"] == "ok" else (piped["kind"], piped["cls"]))
        if item["case"].get("history"):
            prog = eems.new_pipeline_program()
            eems.arrays_lib().HOLD.clear()
            for k, h in enumerate(item["case"]["history"] + [line]):
                piped = eems.run_pipeline(eems_case_from_line(h), program=prog, tag="_%d_" % (k + 1))
            print("impl, as command %d of one Program (after %d earlier cases):" % (k + 1, k),
                  eems.impl_summary(piped) if piped["status"] == "ok" else (piped["kind"], piped["cls"]))
    return rc


def eems_case_from_line(line):
    return eems.case_from_line(line)
