"""C11 — line numbers in parse trees and errors are the true source lines.

proof:          lean/MPilot/Props/C11.lean
correspondence: real parser vs model on renderings whose true lines are recorded by the renderer (blank lines, comment lines, trailing comments,
                multi-line arguments and lists, LF/CRLF); load-time and validation faults injected at known lines vs the model's load/pre-pass
oracles:        every command / argument / list element / tuple value carries the line the renderer recorded; the same text parsed after 0-3 earlier
                parses on the same Parser object (valid, EEMS 2.0-style, failing at a late line) and through repeated Program.from_source gives the same
                tree; every injected fault reports the line of the offending command or argument (None allowed, wrong never); a cycle is reported at
                a command on the cycle; run-time errors of real bodies carry the line of their command/argument; the CLI marks that line
"""
import os
import subprocess
import sys

from .. import common, parsing, render, prog, progrun, clicorr
from ..progrun import Scenario, Name
from . import c12


def parse_history(ctx, count):
    from mpilot.parser.parser import Parser
    from mpilot.program import Program
    rng = ctx.rng
    prog.testlib()
    priors = ["A = B()\n", "\n\n\nA = B(\n  P = 1\n)\n\n", "READ(InFileName = x.csv, InFieldName = a)\n", "A = B(\n P = [1,\n 2,\n 3]\n)\nC = D(\n",
              "A = B(P = \"multi\nline\nstring\")\n", "A = B()\nC = D()\nE = (\n", "# only a comment\nA = B(P = 'x'\n\n\n   Q = 2)\n", "A = B()\r\nC = D()\r\n\r\n"]
    for _ in range(count):
        ast = render.rand_ast(rng, max_cmds=4)
        src, exp = render.render(ast, rng, rng.choice(["\n", "\r\n"]), wild=True)
        p = Parser()
        hist = [rng.choice(priors) for _ in range(rng.randrange(0, 4))]
        for h in hist:
            try:
                # mostly on the same Parser; sometimes on a younger Parser object or through a load, while the long-lived one waits
                r = rng.random()
                if r < 0.7:
                    p.parse(h)
                elif r < 0.85:
                    Parser().parse(h)
                else:
                    Program.from_source(h, libraries=(prog.TESTLIB,))
            except Exception:
                pass
        try:
            got = parsing.canon_program(p.parse(src))
        except SyntaxError:
            got = "syntax"
        except Exception as e:
            got = "raw:" + type(e).__name__
        ctx.case("hist %r %s" % (hist, src), sample={"earlier_parses": hist, "source": src[:200]})
        ctx.count("history_len:%d" % len(hist))
        if got != exp:
            ctx.fail("after %d earlier parse(s) on the same Parser the tree/lines differ from the true ones" % len(hist), {"earlier_parses": hist, "source": src, "expected": exp[:600], "parsed": got[:600]})
    # the process-level history: Program.from_source after other loads (also failing ones)
    prog.testlib()
    for _ in range(max(4, count // 10)):
        for h in rng.sample(priors, 3):
            try:
                Program.from_source(h, libraries=(prog.TESTLIB,))
            except Exception:
                pass
        k = rng.randrange(1, 6)
        src = "\n" * k + "# c\nA = N(\n\n  Bogus = 1\n)\n"
        try:
            Program.from_source(src, libraries=(prog.TESTLIB,))
            got = "ok"
        except Exception as e:
            got = progrun.classify(e)
        ctx.case("proc-hist " + src, sample=None)
        ctx.count("process_history_cases")
        want = "mp:NoSuchParameter:%d" % (k + 4)
        if got != want:
            ctx.fail("after earlier loads in the process, from_source reports %s instead of %s" % (got, want), {"source": src})


def fault_lines(ctx, model):
    """faults at known lines, with blank/comment lines in front of commands"""
    rng = ctx.rng
    tmp = common.tmpdir("mpv_c11_")
    open(os.path.join(tmp, "in.csv"), "w").write("a,b\n1,2\n3,4\n")
    env = {"in": "in.csv"}
    base, classes = progrun.library_classes(c12.LIBS)
    classes = sorted(classes, key=lambda c: c.name)
    scs = []
    for _ in range(ctx.budget(15, 400)):
        cls = rng.choice([c for c in classes if c.name != "NoOut"])
        call = c12.valid_call(rng, cls, env)
        cmds = c12.producers(env) + [call]
        blank = {i: rng.randrange(0, 4) for i in range(len(cmds))}
        t = len(cmds) - 1
        choices = []
        for name, p in cls.inputs.items():
            if name == "Fail":
                continue
            for v, err in c12.wrong_values(p, name):
                choices.append(("arg", name, v, err))
            if p.required:
                choices.append(("missing", name, None, "MissingParameters"))
        if not cls.allow_extra_inputs:
            choices.append(("extra", "Bogus", 1, "NoSuchParameter"))
        choices.append(("unknown", None, None, "CommandDoesNotExist"))
        choices.append(("dup", None, None, "DuplicateResult"))
        kind, name, v, err = rng.choice(choices)
        if kind == "arg":
            args = [(n, x) for n, x in call[2] if n != name] + [(name, v)]
            rng.shuffle(args)
            sc = Scenario(cmds[:-1] + [(call[0], call[1], args)], wd=tmp, libs=c12.LIBS, blank=blank)
            line = sc.lines[t][1][[n for n, _ in args].index(name)]
        elif kind == "missing":
            args = [(n, x) for n, x in call[2] if n != name]
            sc = Scenario(cmds[:-1] + [(call[0], call[1], args)], wd=tmp, libs=c12.LIBS, blank=blank)
            line = sc.lines[t][0]
        elif kind == "extra":
            args = call[2] + [("Bogus", 1)]
            rng.shuffle(args)
            sc = Scenario(cmds[:-1] + [(call[0], call[1], args)], wd=tmp, libs=c12.LIBS, blank=blank)
            line = sc.lines[t][1][[n for n, _ in args].index("Bogus")]
        elif kind == "unknown":
            sc = Scenario(cmds[:-1] + [(call[0], "NoSuchCommand", call[2])], wd=tmp, libs=c12.LIBS, blank=blank)
            line = sc.lines[t][0]
        else:
            sc = Scenario(cmds + [("Rd", "N", [])], wd=tmp, libs=c12.LIBS, blank=blank)
            line = sc.lines[-1][0]
        scs.append((sc, err, line, kind))
    answers = model.ask([sc.protocol(classes) for sc, _, _, _ in scs])
    for (sc, err, line, kind), ans in zip(scs, answers):
        res = progrun.run_impl(sc)
        outcome = res["load"] if res["load"] != "ok" else res["ops"][0]
        ctx.case("fault " + sc.source, sample={"kind": kind, "source": sc.source[-300:], "expected": "%s at line %d" % (err, line), "impl": outcome})
        ctx.count("fault:" + kind)
        d = progrun.compare(res, ans)
        if d:
            ctx.disagree("fault-lines:" + kind, sc.describe(), d[0][:300], d[1][:300])
        parts = outcome.split(":")
        if parts[0] != "mp" or parts[1] != err:
            ctx.fail("fault (%s) expected %s, got %s" % (kind, err, outcome), sc.describe())
        elif parts[2] not in ("-", str(line)):
            ctx.fail("%s reported at line %s; the offending %s is on line %d" % (err, parts[2], "argument" if kind in ("arg", "extra") else "command", line), sc.describe())
        elif parts[2] == "-":
            ctx.count("fault_line_none")


def cycle_lines(ctx):
    rng = ctx.rng
    for _ in range(ctx.budget(10, 300)):
        n = rng.randrange(2, 5)
        names = ["c%d" % i for i in range(n)]
        cyc = [(names[i], "N", [("One", Name(names[(i + 1) % n]))]) for i in range(n)]
        outside = [("u0", "N", [("One", Name(names[0]))]), ("u1", "N", [("Many", [Name("u0"), Name(names[1 % n])])]), ("free", "N", [])]
        cmds = cyc + outside
        rng.shuffle(cmds)
        sc = Scenario(cmds, blank={i: rng.randrange(0, 3) for i in range(len(cmds))})
        res = progrun.run_impl(sc, recursion_limit=600)
        out = res["ops"][0] if res["load"] == "ok" else res["load"]
        ctx.case("cycle " + sc.source, sample=None)
        ctx.count("cycle_line_cases")
        parts = out.split(":")
        if parts[:2] != ["mp", "RecursiveModelStructure"]:
            continue        # C14's business
        if parts[2] != "-":
            ok_lines = [sc.line_of(x) for x in names]
            if int(parts[2]) not in ok_lines:
                ctx.fail("the recursive-model error points at line %s; the commands on the cycle are on lines %r" % (parts[2], sorted(ok_lines)), sc.describe())


def runtime_lines(ctx):
    """errors raised by real bodies carry the line of their command or of the offending argument"""
    from mpilot.program import Program
    tmp = common.tmpdir("mpv_c11r_")
    open(os.path.join(tmp, "a.csv"), "w").write("a\n1\n2\n3\n")
    open(os.path.join(tmp, "b.csv"), "w").write("a\n1\n2\n")
    head = 'A = EEMSRead(InFileName = "a.csv", InFieldName = a)\n\nB = EEMSRead(InFileName = "b.csv", InFieldName = a)\n# c\nF = CvtToFuzzy(InFieldName = A)\nG = CvtToFuzzy(InFieldName = B)\n'
    cases = [
        ("S = Sum(\n  InFieldNames = [A, B]\n)\n", "MixedArrayShapes", [7]),
        ("\nS = CvtToFuzzy(\n  InFieldName = A,\n  Direction = Sideways\n)\n", "InvalidDirection", [10]),
        ("S = CvtToFuzzy(InFieldName = A,\n TrueThreshold = 1,\n FalseThreshold = 1)\n", "InvalidThresholds", [7]),
        ("\n\nS = FuzzyUnion(\n  InFieldNames = [F, G]\n)\n", "MixedArrayShapes", [9, 10]),
        ("S = FuzzySelectedUnion(InFieldNames = [F],\n TruestOrFalsest = Truest,\n NumberToConsider = 3)\n", "InvalidNumberToConsider", [9]),
        ("S = FuzzySelectedUnion(InFieldNames = [F],\n TruestOrFalsest = Neither,\n NumberToConsider = 1)\n", "InvalidTruestOrFalsest", [8]),
        ("S = NormalizeCurve(InFieldName = A,\n RawValues = [1, 1],\n NormalValues = [0, 1])\n", "DuplicateRawValues", [8]),
        ("S = NormalizeCat(\n InFieldName = A, RawValues = [1],\n NormalValues = [0, 1], DefaultNormalValue = 0)\n", "MixedArrayLengths", [7]),
        ("S = Sum(InFieldNames = [])\n", "EmptyInputs", [7]),
        # lists written over several lines: the argument starts on the line of its name (where its bracket stands), the elements follow below
        ("S = Sum(\n  InFieldNames = [\n    A,\n    B\n  ]\n)\n", "MixedArrayShapes", [7, 8]),
        ("S = Sum(\n\n  InFieldNames = [\n\n  ]\n)\n", "EmptyInputs", [7, 9]),
        ("S = Sum(InFieldNames = [\n\n])\n", "EmptyInputs", [7]),
        ("S = FuzzyUnion(\n  InFieldNames = [\n\n    F,\n    G]\n)\n", "MixedArrayShapes", [7, 8]),
        ("S = Sum(\n  InFieldNames = [\n    A,\n    Nope\n  ]\n)\n", "ResultDoesNotExist", [8, 10]),
        ("S = Sum(\n  InFieldNames = [\n    A,\n\n    F\n  ]\n)\n", "ResultIsFuzzy", [8, 11]),
        ("S = NormalizeCurve(InFieldName = A,\n RawValues = [\n  1,\n  1],\n NormalValues = [0, 1])\n", "DuplicateRawValues", [8]),
        ("S = NormalizeCurve(InFieldName = A,\n RawValues = [\n  1,\n  x],\n NormalValues = [0, 1])\n", "ParameterNotValid", [8, 10]),
    ]
    # later commands that use the same argument names on other lines (and a later program that does): an error's line is its own command's
    trailer = ('T1 = CvtToFuzzy(InFieldName = A,\n\n  Direction = LowToHigh)\nT2 = NormalizeCurve(InFieldName = A,\n\n\n  RawValues = [1, 2], NormalValues = [0, 1])\n'
               'T3 = FuzzySelectedUnion(InFieldNames = [F],\n\n  TruestOrFalsest = Truest,\n\n  NumberToConsider = 1)\nT4 = FuzzyUnion(\n\n\n  InFieldNames = [F, F])\n')
    try:
        Program.from_source(head + "\n\n\n" + trailer, working_dir=tmp)
    except Exception:
        pass
    cases = cases + [(t + trailer, e, l) for t, e, l in cases]
    for tail, err, lines in cases:
        src = head + tail
        try:
            p = Program.from_source(src, working_dir=tmp)
            p.run()
            got = "ok"
        except Exception as e:
            got = progrun.classify(e)
        ctx.case("runtime " + src, sample={"source": tail, "outcome": got})
        ctx.count("runtime_line_cases")
        parts = got.split(":")
        if parts[:2] != ["mp", err]:
            ctx.fail("expected %s, got %s" % (err, got), {"source": src})
        elif parts[2] in ("-", "~"):
            ctx.fail("%s carries no line; the offending command/argument is on line %r" % (err, lines), {"source": src})
        elif int(parts[2]) not in lines:
            ctx.fail("%s carries line %s; the offending command/argument is on line %r" % (err, parts[2], lines), {"source": src})


def cli_marks(ctx, count, model=None):
    """the command-line tool, run in-process on files with a fault at a known line: the line it marks with `-->` is that line of the file, also when
    comment lines and quoted strings above it hold characters that some text utilities treat as line breaks (form feed, vertical tab, file/group/
    record separators, NEL, U+2028/2029), with LF or CRLF line ends and with multi-line quoted strings"""
    import os
    from click.testing import CliRunner
    from mpilot.cli.mpilot import main
    rng = ctx.rng
    tmp = common.tmpdir("mpv_c11_")
    open(os.path.join(tmp, "in.csv"), "w").write("a,b\n1,2\n3,4\n")
    exotic = ["\x0c", "\x0b", "\x1c", "\x1d", "\x1e", "\x85", "\u2028", "\u2029", "é", " "]
    try:
        runner = CliRunner(mix_stderr=False)
    except TypeError:
        runner = CliRunner()
    seen = []
    for i in range(count):
        nl = rng.choice(["\n", "\n", "\r\n"])
        lines = []
        for j in range(rng.randrange(0, 6)):
            r = rng.random()
            x = rng.choice(exotic)
            if r < 0.35:
                lines.append("# note %d %s more" % (j, x))
            elif r < 0.5:
                lines.append("")
            elif r < 0.8:
                lines.append('V%d = EEMSRead(InFileName = "in.csv", InFieldName = a, Metadata = [Note: "x%sy"])' % (j, x))
            else:
                # a quoted string holding a real line break: two file lines
                lines.append('W%d = EEMSRead(InFileName = "in.csv", InFieldName = a, Metadata = [Note: "two' % j)
                lines.append('lines%s"])' % x)
        fault, err = rng.choice([
            (["Bad = Nope(X = 1)"], 0), (['Bad = EEMSRead(InFileName = "in.csv")'], 0), (["Bad = EEMSRead(", '  InFileName = "nofile.csv",', "  InFieldName = a)"], 1),
            (["Bad = Normalize(", "  InFieldName = V0,", "  StartVal = [1, 2]", ")"], 2), (['Bad = EEMSRead(InFileName = "in.csv", InFieldName = a, Bogus = 1)'], 0)])
        if fault[0].startswith("Bad = Normalize") and not any(l.startswith("V0 =") for l in lines):
            lines.insert(0, 'V0 = EEMSRead(InFileName = "in.csv", InFieldName = a)')
        true_line = len(lines) + err + 1
        lines += fault
        if len(fault) == 1 and rng.random() < 0.5:
            lines.append(fault[0])          # the same text once more right below (a pasted line): the first occurrence is the one reported, and the only one marked
        for j in range(rng.randrange(0, 3)):
            lines.append("# after %s" % rng.choice(exotic))
        text = nl.join(lines) + nl
        path = os.path.join(tmp, "m%d.mpt" % (i % 8))
        with open(path, "w", encoding="utf-8", newline="") as f:
            f.write(text)
        res = runner.invoke(main, ["eems-csv", path])
        try:
            err_text = res.stderr
        except ValueError:
            err_text = res.output
        if model is not None:
            # the tool's output for this file against the model's rendering of what the real loader raises for it (Model/Cli)
            crash = "-" if res.exception is None or isinstance(res.exception, SystemExit) else type(res.exception).__name__
            clicorr.real_faults(ctx, model, [(text, path, "eems-csv", (res.exit_code, err_text or "", crash))])
        ctx.case("cli-mark " + text, sample={"file": text[:300], "exit": res.exit_code})
        ctx.count("cli_mark_cases")
        desc = {"command_file": text, "true_line": true_line, "stderr": (err_text or "")[-500:], "exit": res.exit_code}
        marked = [l for l in (err_text or "").split("\n") if l.startswith("--> ")]
        if res.exception is not None and not isinstance(res.exception, SystemExit):
            ctx.fail("CLI died with %s instead of reporting the fault at line %d" % (type(res.exception).__name__, true_line), desc)
        elif res.exit_code == 0:
            ctx.fail("CLI exited 0 on a model with a fault at line %d" % true_line, desc)
        elif not marked:
            ctx.fail("CLI marked no line; the fault is at line %d" % true_line, desc)
        elif marked[0][4:].rstrip("\r") != lines[true_line - 1]:
            ctx.fail("CLI marked %r; the offending line %d is %r" % (marked[0][4:], true_line, lines[true_line - 1]), desc)
        elif len(marked) != 1:
            ctx.fail("CLI marked %d lines; exactly line %d is the offending one" % (len(marked), true_line), desc)
        else:
            # the marked line is the true_line-th line of the printed context (the context shows the lines around it in file order)
            shown = [l for l in (err_text or "").split("\n") if l.startswith("--> ") or l.startswith("    ")]
            k = next((j for j, l in enumerate(shown) if l.startswith("--> ")), None)
            before = [l[4:].rstrip("\r") for l in shown[:k]][-1:] if k else []
            if before and true_line >= 2 and before[0] != lines[true_line - 2] and before[0].strip() != "":
                ctx.count("cli_context_line_above_differs")


def run(ctx):
    ctx.check_proofs(["MPilot.Props.C11", "MPilot.Props.C11Exact", "MPilot.Props.C13Cli"])
    model = common.Model()
    rng = ctx.rng
    # (a) node lines of renderings (real vs true lines vs model)
    srcs, exps = [], []
    for _ in range(ctx.budget(100, 5000)):
        ast = render.rand_ast(rng, max_cmds=rng.choice([1, 3, 6]))
        src, exp = render.render(ast, rng, rng.choice(["\n", "\r\n"]), wild=True)
        srcs.append(src); exps.append(exp)
    answers = model.ask([parsing.model_line(s) for s in srcs])
    for src, exp, ans in zip(srcs, exps, answers):
        real = parsing.real_parse(src)
        ctx.case(src, sample={"source": src[:300], "true_tree": exp[:200]})
        ctx.count("rendering_lines:%d" % min(20, src.count("\n")))
        if ans != "outside" and parsing.normalise_model(ans) not in (real, "outside"):
            ctx.disagree("parse:lines", {"source": src}, real[:500], parsing.normalise_model(ans)[:500])
        if real != exp:
            ctx.fail("a node of the parse tree does not carry the line it starts on", {"source": src, "true": exp[:800], "parsed": real[:800]})
    parse_history(ctx, ctx.budget(60, 3000))
    fault_lines(ctx, model)
    cycle_lines(ctx)
    runtime_lines(ctx)
    cli_marks(ctx, ctx.budget(30, 600), model)
    clicorr.formatting(ctx, model, ctx.budget(60, 3000))
    # files in EEMS 2.0 syntax (arguments on their own lines): faults carry the line of the command, as in MPilot syntax
    from . import c12
    tmp2 = common.tmpdir("mpv_c11e_")
    open(os.path.join(tmp2, "in.csv"), "w").write("a,b\n1,2\n3,4\n")
    base, classes = progrun.library_classes(c12.LIBS)
    c12.eems2_faults(ctx, model, tmp2, {"in": "in.csv"}, sorted(classes, key=lambda c: c.name))
    return ctx.finish(
        rule="(a) renderings with blank/comment lines, trailing comments, arguments and lists spread over several lines, LF or CRLF, the true line of every "
             "node recorded by the renderer; (b) the same after 0-3 earlier parses on one Parser (valid, EEMS-2.0, failing late) and after earlier loads in the process; "
             "(c) a fault of every kind injected at a known line behind random blank lines; (d) cycles with consumers outside them; (e) run-time errors of real bodies; "
             "distinct by source text",
        explanation="theorems in Props/C11.lean hold for the model (lines are a function of the text alone; token lines count the line breaks before the token); real parser, "
                    "loader and pre-pass are compared with the model including every line number; by-construction line oracles run on the implementation")


def replay(path):
    import json
    print(json.dumps(json.load(open(path)), indent=1)[:6000])
    return 0
