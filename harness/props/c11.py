"""C11 — line numbers in parse trees and errors are the true source lines.

proof:          lean/MPilot/Props/C11.lean
correspondence: real parser vs model on renderings whose true lines are recorded by the renderer (blank lines, comment lines, trailing comments,
                multi-line arguments and lists, LF/CRLF); load-time and validation faults injected at known lines vs the model's load/pre-pass
oracles:        every command / argument / list element / tuple value carries the line the renderer recorded; the same text parsed after 0-3 earlier
                parses on the same Parser object (valid, EEMS 2.0-style, failing at a late line) and through repeated Program.from_source gives the same
                tree; every injected fault reports the line of the offending command or argument (None allowed, wrong never); a cycle is reported at
                a command on the cycle; run-time errors of real bodies carry the line of their command/argument; the CLI marks that line;
                sources of 10^5-10^6 characters / lines, thousands of commands (node lines, loader hand-over, fault lines, CLI mark); a finished
                plug-in producer whose actual result a consumer refuses: the error carries a line of that consumer; values written on a later line than their
                `Name =` (a line break, blank lines, a comment after the `=`): the loader hands every command the argument's own line (renderings, models of
                thousands of commands), and injected faults, run-time errors and the command-line tool's mark name that line, not the value's
"""
import os
import subprocess
import sys

from .. import common, parsing, render, prog, progrun, clicorr
from ..progrun import Scenario, Name
from . import c12


def parse_history(ctx, count):
    from mpilot.parser.parser import Parser
    from mpilot.program import Program
    rng = ctx.rng
    prog.testlib()
    priors = ["A = B()\n", "\n\n\nA = B(\n  P = 1\n)\n\n", "READ(InFileName = x.csv, InFieldName = a)\n", "A = B(\n P = [1,\n 2,\n 3]\n)\nC = D(\n",
              "A = B(P = \"multi\nline\nstring\")\n", "A = B()\nC = D()\nE = (\n", "# only a comment\nA = B(P = 'x'\n\n\n   Q = 2)\n", "A = B()\r\nC = D()\r\n\r\n"]
    for _ in range(count):
        ast = render.rand_ast(rng, max_cmds=4)
        src, exp = render.render(ast, rng, rng.choice(["\n", "\r\n"]), wild=True)
        p = Parser()
        hist = [rng.choice(priors) for _ in range(rng.randrange(0, 4))]
        for h in hist:
            try:
                # mostly on the same Parser; sometimes on a younger Parser object or through a load, while the long-lived one waits
                r = rng.random()
                if r < 0.7:
                    p.parse(h)
                elif r < 0.85:
                    Parser().parse(h)
                else:
                    Program.from_source(h, libraries=(prog.TESTLIB,))
            except Exception:
                pass
        try:
            got = parsing.canon_program(p.parse(src))
        except SyntaxError:
            got = "syntax"
        except Exception as e:
            got = "raw:" + type(e).__name__
        ctx.case("hist %r %s" % (hist, src), sample={"earlier_parses": hist, "source": src[:200]})
        ctx.count("history_len:%d" % len(hist))
        if got != exp:
            ctx.fail("after %d earlier parse(s) on the same Parser the tree/lines differ from the true ones" % len(hist), {"earlier_parses": hist, "source": src, "expected": exp[:600], "parsed": got[:600]})
    # the process-level history: Program.from_source after other loads (also failing ones)
    prog.testlib()
    for _ in range(max(4, count // 10)):
        for h in rng.sample(priors, 3):
            try:
                Program.from_source(h, libraries=(prog.TESTLIB,))
            except Exception:
                pass
        k = rng.randrange(1, 6)
        src = "\n" * k + "# c\nA = N(\n\n  Bogus = 1\n)\n"
        try:
            Program.from_source(src, libraries=(prog.TESTLIB,))
            got = "ok"
        except Exception as e:
            got = progrun.classify(e)
        ctx.case("proc-hist " + src, sample=None)
        ctx.count("process_history_cases")
        want = "mp:NoSuchParameter:%d" % (k + 4)
        if got != want:
            ctx.fail("after earlier loads in the process, from_source reports %s instead of %s" % (got, want), {"source": src})


class SplitScenario(Scenario):
    """the same command file with every scalar / tuple value written on a later line than its `Name =`: a line break, blank lines, a comment after the `=` or
    a comment line in between.  The argument starts on the line of its name (lists keep their bracket there: the elements follow below)."""

    def _render(self):
        out = []
        self.lines = []
        k = 0
        for i, (res, cmd, args) in enumerate(self.commands):
            for j in range(self.blank.get(i, 0)):
                out.append("# comment %d" % j if j % 2 else "")
            out.append("%s = %s(" % (res, cmd) if res is not None else "%s(" % cmd)
            cmd_line = len(out)
            arg_lines = []
            for n, (name, value) in enumerate(args):
                comma = "," if n + 1 < len(args) else ""
                if isinstance(value, list):
                    out.append("    %s = %s%s" % (name, progrun.render_value(value), comma))
                    arg_lines.append(len(out))
                    continue
                k += 1
                out.append("    %s =%s" % (name, ["", " # the value follows", "  ", "\t# c = ( ["][(k + i) % 4]))
                arg_lines.append(len(out))
                out += [[], [""], ["", "   "], ["        # on the next line"]][(k // 2 + len(name)) % 4]
                out.append("        %s%s" % (progrun.render_value(value), comma))
            out.append(")")
            self.lines.append((cmd_line, arg_lines))
        self.source = "\n".join(out) + "\n"


def fault_lines(ctx, model):
    """faults at known lines, with blank/comment lines in front of commands"""
    rng = ctx.rng
    tmp = common.tmpdir("mpv_c11_")
    open(os.path.join(tmp, "in.csv"), "w").write("a,b\n1,2\n3,4\n")
    env = {"in": "in.csv"}
    base, classes = progrun.library_classes(c12.LIBS)
    classes = sorted(classes, key=lambda c: c.name)
    scs = []
    for case_no in range(ctx.budget(15, 400)):
        # every other model writes its values on a later line than `Name =`: the fault is at the argument's line, not the value's
        Scenario = (progrun.Scenario, SplitScenario)[case_no % 2]
        cls = rng.choice([c for c in classes if c.name != "NoOut"])
        call = c12.valid_call(rng, cls, env)
        cmds = c12.producers(env) + [call]
        blank = {i: rng.randrange(0, 4) for i in range(len(cmds))}
        t = len(cmds) - 1
        choices = []
        for name, p in cls.inputs.items():
            if name == "Fail":
                continue
            for v, err in c12.wrong_values(p, name):
                choices.append(("arg", name, v, err))
            if p.required:
                choices.append(("missing", name, None, "MissingParameters"))
        if not cls.allow_extra_inputs:
            choices.append(("extra", "Bogus", 1, "NoSuchParameter"))
        choices.append(("unknown", None, None, "CommandDoesNotExist"))
        choices.append(("dup", None, None, "DuplicateResult"))
        kind, name, v, err = rng.choice(choices)
        if kind == "arg":
            args = [(n, x) for n, x in call[2] if n != name] + [(name, v)]
            rng.shuffle(args)
            sc = Scenario(cmds[:-1] + [(call[0], call[1], args)], wd=tmp, libs=c12.LIBS, blank=blank)
            line = sc.lines[t][1][[n for n, _ in args].index(name)]
        elif kind == "missing":
            args = [(n, x) for n, x in call[2] if n != name]
            sc = Scenario(cmds[:-1] + [(call[0], call[1], args)], wd=tmp, libs=c12.LIBS, blank=blank)
            line = sc.lines[t][0]
        elif kind == "extra":
            args = call[2] + [("Bogus", 1)]
            rng.shuffle(args)
            sc = Scenario(cmds[:-1] + [(call[0], call[1], args)], wd=tmp, libs=c12.LIBS, blank=blank)
            line = sc.lines[t][1][[n for n, _ in args].index("Bogus")]
        elif kind == "unknown":
            sc = Scenario(cmds[:-1] + [(call[0], "NoSuchCommand", call[2])], wd=tmp, libs=c12.LIBS, blank=blank)
            line = sc.lines[t][0]
        else:
            sc = Scenario(cmds + [("Rd", "N", [])], wd=tmp, libs=c12.LIBS, blank=blank)
            line = sc.lines[-1][0]
        scs.append((sc, err, line, kind))
    answers = model.ask([sc.protocol(classes) for sc, _, _, _ in scs])
    for (sc, err, line, kind), ans in zip(scs, answers):
        res = progrun.run_impl(sc)
        outcome = res["load"] if res["load"] != "ok" else res["ops"][0]
        ctx.case("fault " + sc.source, sample={"kind": kind, "source": sc.source[-300:], "expected": "%s at line %d" % (err, line), "impl": outcome})
        ctx.count("fault:" + kind)
        d = progrun.compare(res, ans)
        if d:
            ctx.disagree("fault-lines:" + kind, sc.describe(), d[0][:300], d[1][:300])
        parts = outcome.split(":")
        if parts[0] != "mp" or parts[1] != err:
            ctx.fail("fault (%s) expected %s, got %s" % (kind, err, outcome), sc.describe())
        elif parts[2] not in ("-", str(line)):
            ctx.fail("%s reported at line %s; the offending %s is on line %d" % (err, parts[2], "argument" if kind in ("arg", "extra") else "command", line), sc.describe())
        elif parts[2] == "-":
            ctx.count("fault_line_none")


def cycle_lines(ctx):
    rng = ctx.rng
    for _ in range(ctx.budget(10, 300)):
        n = rng.randrange(2, 5)
        names = ["c%d" % i for i in range(n)]
        cyc = [(names[i], "N", [("One", Name(names[(i + 1) % n]))]) for i in range(n)]
        outside = [("u0", "N", [("One", Name(names[0]))]), ("u1", "N", [("Many", [Name("u0"), Name(names[1 % n])])]), ("free", "N", [])]
        cmds = cyc + outside
        rng.shuffle(cmds)
        sc = Scenario(cmds, blank={i: rng.randrange(0, 3) for i in range(len(cmds))})
        res = progrun.run_impl(sc, recursion_limit=600)
        out = res["ops"][0] if res["load"] == "ok" else res["load"]
        ctx.case("cycle " + sc.source, sample=None)
        ctx.count("cycle_line_cases")
        parts = out.split(":")
        if parts[:2] != ["mp", "RecursiveModelStructure"]:
            continue        # C14's business
        if parts[2] != "-":
            ok_lines = [sc.line_of(x) for x in names]
            if int(parts[2]) not in ok_lines:
                ctx.fail("the recursive-model error points at line %s; the commands on the cycle are on lines %r" % (parts[2], sorted(ok_lines)), sc.describe())


def runtime_lines(ctx):
    """errors raised by real bodies carry the line of their command or of the offending argument"""
    from mpilot.program import Program
    tmp = common.tmpdir("mpv_c11r_")
    open(os.path.join(tmp, "a.csv"), "w").write("a\n1\n2\n3\n")
    open(os.path.join(tmp, "b.csv"), "w").write("a\n1\n2\n")
    head = 'A = EEMSRead(InFileName = "a.csv", InFieldName = a)\n\nB = EEMSRead(InFileName = "b.csv", InFieldName = a)\n# c\nF = CvtToFuzzy(InFieldName = A)\nG = CvtToFuzzy(InFieldName = B)\n'
    cases = [
        ("S = Sum(\n  InFieldNames = [A, B]\n)\n", "MixedArrayShapes", [7]),
        ("\nS = CvtToFuzzy(\n  InFieldName = A,\n  Direction = Sideways\n)\n", "InvalidDirection", [10]),
        ("S = CvtToFuzzy(InFieldName = A,\n TrueThreshold = 1,\n FalseThreshold = 1)\n", "InvalidThresholds", [7]),
        ("\n\nS = FuzzyUnion(\n  InFieldNames = [F, G]\n)\n", "MixedArrayShapes", [9, 10]),
        ("S = FuzzySelectedUnion(InFieldNames = [F],\n TruestOrFalsest = Truest,\n NumberToConsider = 3)\n", "InvalidNumberToConsider", [9]),
        ("S = FuzzySelectedUnion(InFieldNames = [F],\n TruestOrFalsest = Neither,\n NumberToConsider = 1)\n", "InvalidTruestOrFalsest", [8]),
        ("S = NormalizeCurve(InFieldName = A,\n RawValues = [1, 1],\n NormalValues = [0, 1])\n", "DuplicateRawValues", [8]),
        ("S = NormalizeCat(\n InFieldName = A, RawValues = [1],\n NormalValues = [0, 1], DefaultNormalValue = 0)\n", "MixedArrayLengths", [7]),
        ("S = Sum(InFieldNames = [])\n", "EmptyInputs", [7]),
        # lists written over several lines: the argument starts on the line of its name (where its bracket stands), the elements follow below
        ("S = Sum(\n  InFieldNames = [\n    A,\n    B\n  ]\n)\n", "MixedArrayShapes", [7, 8]),
        ("S = Sum(\n\n  InFieldNames = [\n\n  ]\n)\n", "EmptyInputs", [7, 9]),
        ("S = Sum(InFieldNames = [\n\n])\n", "EmptyInputs", [7]),
        ("S = FuzzyUnion(\n  InFieldNames = [\n\n    F,\n    G]\n)\n", "MixedArrayShapes", [7, 8]),
        ("S = Sum(\n  InFieldNames = [\n    A,\n    Nope\n  ]\n)\n", "ResultDoesNotExist", [8, 10]),
        ("S = Sum(\n  InFieldNames = [\n    A,\n\n    F\n  ]\n)\n", "ResultIsFuzzy", [8, 11]),
        ("S = NormalizeCurve(InFieldName = A,\n RawValues = [\n  1,\n  1],\n NormalValues = [0, 1])\n", "DuplicateRawValues", [8]),
        ("S = NormalizeCurve(InFieldName = A,\n RawValues = [\n  1,\n  x],\n NormalValues = [0, 1])\n", "ParameterNotValid", [8, 10]),
        # values written on a later line than `Name =` (line break, blank lines, a comment after the `=`): the argument starts on the line of its name
        ("S = CvtToFuzzy(\n  InFieldName = A,\n  Direction =\n\n    Sideways\n)\n", "InvalidDirection", [7, 9]),
        ("S = FuzzySelectedUnion(InFieldNames = [F],\n TruestOrFalsest = Truest,\n NumberToConsider =\n\n 3)\n", "InvalidNumberToConsider", [7, 9]),
        ("S = FuzzySelectedUnion(InFieldNames = [F],\n TruestOrFalsest = # which end\n   Neither,\n NumberToConsider = 1)\n", "InvalidTruestOrFalsest", [7, 8]),
        ("S = Copy(\n  InFieldName =\n    Nope\n)\n", "ResultDoesNotExist", [7, 8]),
        ("S = CvtToFuzzy(\n  InFieldName = # the input\n\n    F\n)\n", "ResultIsFuzzy", [7, 8]),
        ("S = FuzzyNot(\n\n  InFieldName =\n  # a comment line\n    A\n)\n", "ResultNotFuzzy", [7, 9]),
        ('S = EEMSRead(\n  InFileName =\n    "nofile.csv",\n  InFieldName = a)\n', "PathDoesNotExist", [7, 8]),
        ("S = CvtToFuzzy(InFieldName = A, TrueThreshold =\n   high)\n", "ParameterNotValid", [7]),
        ("S = CvtToFuzzy(\n  InFieldName = A,\n  Metadata =\n\n    notatuple\n)\n", "ParameterNotValid", [7, 9]),
    ]
    # later commands that use the same argument names on other lines (and a later program that does): an error's line is its own command's
    trailer = ('T1 = CvtToFuzzy(InFieldName = A,\n\n  Direction = LowToHigh)\nT2 = NormalizeCurve(InFieldName = A,\n\n\n  RawValues = [1, 2], NormalValues = [0, 1])\n'
               'T3 = FuzzySelectedUnion(InFieldNames = [F],\n\n  TruestOrFalsest = Truest,\n\n  NumberToConsider = 1)\nT4 = FuzzyUnion(\n\n\n  InFieldNames = [F, F])\n')
    try:
        Program.from_source(head + "\n\n\n" + trailer, working_dir=tmp)
    except Exception:
        pass
    cases = cases + [(t + trailer, e, l) for t, e, l in cases]
    for tail, err, lines in cases:
        src = head + tail
        try:
            p = Program.from_source(src, working_dir=tmp)
            p.run()
            got = "ok"
        except Exception as e:
            got = progrun.classify(e)
        ctx.case("runtime " + src, sample={"source": tail, "outcome": got})
        ctx.count("runtime_line_cases")
        parts = got.split(":")
        if parts[:2] != ["mp", err]:
            ctx.fail("expected %s, got %s" % (err, got), {"source": src})
        elif parts[2] in ("-", "~"):
            ctx.fail("%s carries no line; the offending command/argument is on line %r" % (err, lines), {"source": src})
        elif int(parts[2]) not in lines:
            ctx.fail("%s carries line %s; the offending command/argument is on line %r" % (err, parts[2], lines), {"source": src})


def cli_marks(ctx, count, model=None):
    """the command-line tool, run in-process on files with a fault at a known line: the line it marks with `-->` is that line of the file, also when
    comment lines and quoted strings above it hold characters that some text utilities treat as line breaks (form feed, vertical tab, file/group/
    record separators, NEL, U+2028/2029), with LF or CRLF line ends and with multi-line quoted strings"""
    import os
    from click.testing import CliRunner
    from mpilot.cli.mpilot import main
    rng = ctx.rng
    tmp = common.tmpdir("mpv_c11_")
    open(os.path.join(tmp, "in.csv"), "w").write("a,b\n1,2\n3,4\n")
    exotic = ["\x0c", "\x0b", "\x1c", "\x1d", "\x1e", "\x85", "\u2028", "\u2029", "é", " "]
    try:
        runner = CliRunner(mix_stderr=False)
    except TypeError:
        runner = CliRunner()
    seen = []
    for i in range(count):
        nl = rng.choice(["\n", "\n", "\r\n"])
        lines = []
        for j in range(rng.randrange(0, 6)):
            r = rng.random()
            x = rng.choice(exotic)
            if r < 0.35:
                lines.append("# note %d %s more" % (j, x))
            elif r < 0.5:
                lines.append("")
            elif r < 0.8:
                lines.append('V%d = EEMSRead(InFileName = "in.csv", InFieldName = a, Metadata = [Note: "x%sy"])' % (j, x))
            else:
                # a quoted string holding a real line break: two file lines
                lines.append('W%d = EEMSRead(InFileName = "in.csv", InFieldName = a, Metadata = [Note: "two' % j)
                lines.append('lines%s"])' % x)
        fault, err = rng.choice([
            (["Bad = Nope(X = 1)"], 0), (['Bad = EEMSRead(InFileName = "in.csv")'], 0), (["Bad = EEMSRead(", '  InFileName = "nofile.csv",', "  InFieldName = a)"], 1),
            (["Bad = Normalize(", "  InFieldName = V0,", "  StartVal = [1, 2]", ")"], 2), (['Bad = EEMSRead(InFileName = "in.csv", InFieldName = a, Bogus = 1)'], 0),
            # the value on a later line than its `Name =`: the argument's line is marked
            (["Bad = EEMSRead(", "  InFileName =", '    "nofile.csv",', "  InFieldName = a)"], 1), (["Bad = Normalize(", "  InFieldName = V0,", "  StartVal = # where the range starts", "", "    abc", ")"], 2),
            (["Bad = EEMSRead(", '  InFileName = "in.csv", InFieldName = a,', "  Bogus =", "", "    1)"], 2), (["Bad = Copy(", "  InFieldName =", "  # which one", "    NoSuchResult", ")"], 1)])
        if fault[0].startswith("Bad = Normalize") and not any(l.startswith("V0 =") for l in lines):
            lines.insert(0, 'V0 = EEMSRead(InFileName = "in.csv", InFieldName = a)')
        true_line = len(lines) + err + 1
        lines += fault
        if len(fault) == 1 and rng.random() < 0.5:
            lines.append(fault[0])          # the same text once more right below (a pasted line): the first occurrence is the one reported, and the only one marked
        for j in range(rng.randrange(0, 3)):
            lines.append("# after %s" % rng.choice(exotic))
        text = nl.join(lines) + nl
        path = os.path.join(tmp, "m%d.mpt" % (i % 8))
        with open(path, "w", encoding="utf-8", newline="") as f:
            f.write(text)
        res = runner.invoke(main, ["eems-csv", path])
        try:
            err_text = res.stderr
        except ValueError:
            err_text = res.output
        if model is not None:
            # the tool's output for this file against the model's rendering of what the real loader raises for it (Model/Cli)
            crash = "-" if res.exception is None or isinstance(res.exception, SystemExit) else type(res.exception).__name__
            clicorr.real_faults(ctx, model, [(text, path, "eems-csv", (res.exit_code, err_text or "", crash))])
        ctx.case("cli-mark " + text, sample={"file": text[:300], "exit": res.exit_code})
        ctx.count("cli_mark_cases")
        desc = {"command_file": text, "true_line": true_line, "stderr": (err_text or "")[-500:], "exit": res.exit_code}
        marked = [l for l in (err_text or "").split("\n") if l.startswith("--> ")]
        if res.exception is not None and not isinstance(res.exception, SystemExit):
            ctx.fail("CLI died with %s instead of reporting the fault at line %d" % (type(res.exception).__name__, true_line), desc)
        elif res.exit_code == 0:
            ctx.fail("CLI exited 0 on a model with a fault at line %d" % true_line, desc)
        elif not marked:
            ctx.fail("CLI marked no line; the fault is at line %d" % true_line, desc)
        elif marked[0][4:].rstrip("\r") != lines[true_line - 1]:
            ctx.fail("CLI marked %r; the offending line %d is %r" % (marked[0][4:], true_line, lines[true_line - 1]), desc)
        elif len(marked) != 1:
            ctx.fail("CLI marked %d lines; exactly line %d is the offending one" % (len(marked), true_line), desc)
        else:
            # the marked line is the true_line-th line of the printed context (the context shows the lines around it in file order)
            shown = [l for l in (err_text or "").split("\n") if l.startswith("--> ") or l.startswith("    ")]
            k = next((j for j, l in enumerate(shown) if l.startswith("--> ")), None)
            before = [l[4:].rstrip("\r") for l in shown[:k]][-1:] if k else []
            if before and true_line >= 2 and before[0] != lines[true_line - 2] and before[0].strip() != "":
                ctx.count("cli_context_line_above_differs")


def big_ast(rng, n):
    cmds = []
    while len(cmds) < n:
        cmds += [(r + "_%d" % (len(cmds) + i), c, a) for i, (r, c, a) in enumerate(render.rand_ast(rng, max_cmds=8))]
    return cmds[:n]


# where the canonical text of a tree holds line numbers (names and strings are hex-encoded: no other parenthesis in it)
LINE_FIELD = __import__("re").compile(r"((?:cmd\([0-9a-f~-]+,[0-9a-f-]+,)|(?:arg\([0-9a-f-]+,)|(?:e\())(\d+)")


def first_wrong_node(exp, real, src):
    """the first command of two canonical trees that differs, with the text of its lines (a replay must not hold a megabyte of source)"""
    a, b = exp.split(" cmd("), real.split(" cmd(")
    k = next((i for i, (x, y) in enumerate(zip(a, b)) if x != y), min(len(a), len(b)))
    import re
    true_ = a[k] if k < len(a) else ""
    nums = [int(m.group(2)) for m in LINE_FIELD.finditer("cmd(" + true_)] or [1]
    lines = src.replace("\r\n", "\n").split("\n")
    return {"command_number": k, "true": true_[:600], "parsed": (b[k] if k < len(b) else "")[:600], "characters": len(src), "lines": len(lines),
            "text_of_the_command": "\n".join(l if len(l) < 200 else l[:200] + " ..." for l in lines[max(0, min(nums) - 1):max(nums) + 1])[:1500]}


def large_sources(ctx):
    """the line of every node is a function of the text before it, whatever the size of the text: a ladder of sizes by number of commands (generated models
    of thousands of commands), by characters (a short model among megabytes of comment lines and long strings) and by lines (a short model below a
    hundred thousand blank lines); faults at known lines at the end of models of thousands of commands; the line the command-line tool marks there"""
    from mpilot.program import Program
    from mpilot.arguments import ListArgument
    rng = ctx.rng
    prog.testlib()
    sizes = [700, 2600, 7000] + ([20000] if ctx.thorough else [])
    texts = []
    for n in sizes:
        src, exp = render.render(big_ast(rng, n), rng, rng.choice(["\n", "\r\n"]) if n < 5000 else "\n", wild=True)
        texts.append(("%d commands" % n, src, exp))
    # few commands, many characters / many lines: the same rendering with its blank gaps between commands blown up
    small, exp_small = render.render(big_ast(rng, 12), rng, "\n", wild=False)
    for label, pad, per in (("comment lines of 2 MB in all before and between 12 commands", "# " + "generated by a tool, do not edit; " * 30 + "\n", 170),
                            ("120 000 blank lines before and between 12 commands", "\n", 10000), ("150 000 characters of blanks", " " * 997 + "\n", 13)):
        out, shift, exp = [], 0, exp_small
        import re
        cmds_txt = small.split("\n")
        assert cmds_txt[-1] == ""
        new_lines = []
        for ln in cmds_txt[:-1]:
            if re.match(r"^[A-Za-z_][A-Za-z_0-9]*=", ln) or re.match(r"^[A-Za-z_][A-Za-z_0-9]* *=", ln):
                new_lines += [pad[:-1]] * per
            new_lines.append(ln)
        # true lines: every command of the plain rendering starts at a line start; shift its lines by the padding put in front of it
        starts = [i for i, ln in enumerate(cmds_txt[:-1]) if re.match(r"^[A-Za-z_][A-Za-z_0-9]* *=", ln)]

        def shifted(m):
            old = int(m.group(2))
            k = sum(1 for st in starts if st + 1 <= old)
            return "%s%d" % (m.group(1), old + k * per)
        exp = LINE_FIELD.sub(shifted, exp_small)
        texts.append((label, "\n".join(new_lines) + "\n", exp))
    for label, src, exp in texts:
        real = parsing.real_parse(src)
        ctx.case("large %s %d" % (label, len(src)), sample={"size": label, "characters": len(src), "lines": src.count("\n")})
        ctx.count("large_sources")
        ctx.count("large_source_characters", len(src))
        if real != exp:
            ctx.fail("in a source of %d characters / %d lines (%s) a node of the parse tree does not carry the line it starts on" % (len(src), src.count("\n"), label), first_wrong_node(exp, real, src))
    # models of thousands of commands (lists over several lines) with one fault at the end / in the middle: the loader hands every line on, the error names the fault's line
    faults = [(["Bad = N(", "  # the second one does not exist", "  Many = [c_0,", "", "          NoSuchResult]", ")"], "ResultDoesNotExist", [1, 3, 5]),
              (["Bad = S(Req = 1,", "  Nums = [1,", "    x]", ")"], "ParameterNotValid", [1, 2, 3]),
              (["Bad = N(", "", "  Bogus = [1, 2]", ")"], "NoSuchParameter", [1, 3]),
              (["Bad = N(", "  One = [c_0]", ")"], "ParameterNotValid", [1, 2]),
              (["Bad = S(", "  Req = 2,", "  Tup = [k: v, j: w],", "  Bool = [1,", "   0]", ")"], "ParameterNotValid", [1, 4, 5]),
              (["c_1 = N(Many = [", "  c_0])"], "DuplicateResult", [1])]
    for n in [900, 3200] + ([12000] if ctx.thorough else []):
        for fi, (fault, err, rel) in enumerate(faults):
            if n > 1000 and fi not in (0, 1, 2):
                continue
            lines, truth = ["c_0 = N()"], {}
            at = n - 1 if fi % 2 == 0 else n // 2
            fault_at = None
            for i in range(1, n):
                lines += [""] * rng.randrange(0, 2) + ["# step %d" % i] * rng.randrange(0, 2)
                lines.append("c_%d = N(" % i)
                cl = len(lines)
                lines.append("    Many = [c_%d," % (i - 1))
                al = len(lines)
                lines.append("            c_0],")
                # (every third command writes the value of Fail below its name: the argument's line is the name's)
                lines += ["    Fail = no"] if i % 3 else ["    Fail =" + ["", " # c"][i % 2]] + [""] * (i % 2) + ["        no"]
                lines.append(")")
                truth["c_%d" % i] = (cl, {"Many": (al, [al, al + 1]), "Fail": (al + 2, None)})
                if i == at:
                    fault_at = len(lines)
                    lines += fault
            src = "\n".join(lines) + "\n"
            allowed = [fault_at + r for r in rel]
            p = None
            try:
                p = Program.from_source(src, libraries=(prog.TESTLIB,))
                if err not in ("NoSuchParameter", "DuplicateResult"):
                    p.run()
                got = "ok"
            except Exception as e:
                got = progrun.classify(e)
            ctx.case("large-fault %d %d" % (n, fi), sample={"commands": n, "characters": len(src), "fault": "\n".join(fault), "outcome": got})
            ctx.count("large_source_faults")
            desc = {"source": "c_0 = N() ... %d commands c_i = N(Many = [c_(i-1),\\n c_0], Fail = no), %d characters, %d lines; after command c_%d, from line %d on:\n%s" % (
                n, len(src), len(lines), at, fault_at + 1, "\n".join(fault)), "lines_of_the_offending_command_and_argument": allowed}
            parts = got.split(":")
            if parts[:2] != ["mp", err]:
                ctx.fail("a model of %d commands with one fault: expected %s, got %s" % (n, err, got), desc)
            elif parts[2] in ("-", "~") or int(parts[2]) not in allowed:
                ctx.fail("a model of %d commands (%d characters): %s carries line %s; the offending command/argument is on line %r" % (n, len(src), err, parts[2], allowed), desc)
            if p is not None and err not in ("NoSuchParameter", "DuplicateResult"):
                # what the loader handed on: every command, argument and list element with its own line
                for name, (cl, args) in truth.items():
                    c = p.commands[name]
                    got_ = (c.lineno, dict((a.name, (a.lineno, list(a.list_linenos) if isinstance(a, ListArgument) and a.list_linenos is not None else None)) for a in c.arguments))
                    if got_ != (cl, args):
                        ctx.fail("a model of %d commands (%d characters): command %s is loaded with line %r and argument / element lines %r; in the file they are %r / %r" % (
                            n, len(src), name, got_[0], got_[1], cl, args), {"source": "\n".join(lines[cl - 2:cl + 5]), "first_line_shown": cl - 1})
                        break
    # the command-line tool on a large file of built-in commands: the marked line is the fault's
    from click.testing import CliRunner
    from mpilot.cli.mpilot import main
    tmp = common.tmpdir("mpv_c11L_")
    open(os.path.join(tmp, "in.csv"), "w").write("a\n1\n2\n")
    try:
        runner = CliRunner(mix_stderr=False)
    except TypeError:
        runner = CliRunner()
    for n, padded in ((1500, False), (150, True)):
        lines = ["# generated model", 'R0 = EEMSRead(', '    InFileName = "in.csv",', "    InFieldName = a", ")"]
        for i in range(1, n):
            if padded:
                lines += ["# " + "layer %d of the generated model; " % i * 60]
            lines += ["", "S%d = WeightedSum(" % i, "    InFieldNames = [R0,", "                    %s]," % ("S%d" % (i - 1) if i > 1 else "R0"), "    Weights = [0.25, 0.75],", '    Metadata = [Description: "layer %d"]' % i, ")"]
        lines += ["", "Bad = Sum(", "    InFieldNames = [R0,", "       NoSuchResult_%d]" % n, ")", "# the end", "Last = Copy(InFieldName = R0)"]
        allowed = [len(lines) - 5, len(lines) - 4, len(lines) - 3]
        text = "\n".join(lines) + "\n"
        path = os.path.join(tmp, "big%d.mpt" % n)
        with open(path, "w") as f:
            f.write(text)
        res = runner.invoke(main, ["eems-csv", path])
        try:
            err_text = res.stderr
        except ValueError:
            err_text = res.output
        marked = [l[4:] for l in (err_text or "").split("\n") if l.startswith("--> ")]
        ctx.case("large-cli %d %s" % (n, padded), sample={"commands": n, "characters": len(text), "marked": marked[:2]})
        ctx.count("large_source_cli")
        desc = {"command_file": "%d WeightedSum commands over several lines each, %d characters, %d lines, ending in:\n%s" % (n, len(text), len(lines), "\n".join(lines[-8:])),
                "lines_of_the_offending_command_and_argument": allowed, "stderr": (err_text or "")[-600:], "exit": res.exit_code}
        if res.exit_code == 0 or (res.exception is not None and not isinstance(res.exception, SystemExit)):
            ctx.fail("the command-line tool on a model of %d commands with a missing result: exit %s, %s" % (n, res.exit_code, type(res.exception).__name__), desc)
        elif len(marked) != 1 or marked[0] not in [lines[k - 1] for k in allowed]:
            ctx.fail("the command-line tool on a model of %d commands (%d characters) marks %r; the offending command/argument is on lines %r: %r" % (
                n, len(text), marked[:3], allowed, [lines[k - 1] for k in allowed]), desc)


PLUGIN_SRC = """
import numpy
from mpilot import params
from mpilot.commands import Command

ODD = {"list": lambda: [3, 1, 2], "scalar": lambda: numpy.float64(6.0), "none": lambda: None, "text": lambda: "abc", "pair": lambda: (1, 2), "map": lambda: {"a": 1},
       "maybe": lambda: "maybe", "decimal": lambda: 2.5, "array": lambda: numpy.ma.array([1.0, 2.0])}


class Odd(Command):
    \"\"\" declares a data result, delivers what `Kind` names \"\"\"
    inputs = {"Kind": params.StringParameter()}
    output = params.DataParameter()

    def execute(self, **kw):
        return ODD[kw["Kind"]]()


class OddFlag(Command):
    inputs = {"Kind": params.StringParameter()}
    output = params.BooleanParameter()

    def execute(self, **kw):
        return ODD[kw["Kind"]]()


class OddNumbers(Command):
    inputs = {"Kind": params.StringParameter()}
    output = params.ListParameter(params.NumberParameter())

    def execute(self, **kw):
        return ODD[kw["Kind"]]()


class Shown(Command):
    \"\"\" takes the result of any command \"\"\"
    inputs = {"Of": params.ResultParameter()}
    output = params.StringParameter()

    def execute(self, **kw):
        return repr(kw["Of"].result)


class WantFlag(Command):
    inputs = {"Flag": params.ResultParameter(params.BooleanParameter())}
    output = params.BooleanParameter()

    def execute(self, **kw):
        return not kw["Flag"].result


class WantNumbers(Command):
    inputs = {"Values": params.ListParameter(params.ResultParameter(params.ListParameter(params.NumberParameter())))}
    output = params.BooleanParameter()

    def execute(self, **kw):
        return [v.result for v in kw["Values"]] != []
"""


def finished_producer_lines(ctx):
    """a plug-in command whose actual result is not what it declares (a list, a numpy scalar, nothing, a word where an array / a boolean / a list of numbers is
    declared), referenced by a command that takes any result and by one that wants the declared kind: whichever runs first, however the file is ordered,
    and when the producer was asked for its result before run() - if the model is rejected, the error carries a line of the consumer whose argument is refused
    (its command line, the argument's line, the list element's line), never the line of the producer or of the other consumer"""
    import itertools, sys, types
    from mpilot.program import Program
    rng = ctx.rng
    name = "mpverif_c11_plugins"
    if name not in sys.modules:
        m = types.ModuleType(name)
        sys.modules[name] = m
        exec(compile(PLUGIN_SRC, name, "exec"), m.__dict__)
    libs = progrun.EEMS_LIBS + (name,)
    # producer (command, kinds delivered), consumer lines with {} for the padding inside; own = offsets of the consumer's command / argument / element lines
    setups = []
    for kind in ("list", "scalar", "none", "text", "pair", "map"):
        setups.append(("Odd", kind, ["Copied = Copy(", "", "    InFieldName = Src", ")"], [0, 2]))
        setups.append(("Odd", kind, ["Total = Sum(", "    InFieldNames = [", "        Fine,", "        Src", "    ]", ")"], [0, 1, 3]))
        setups.append(("Odd", kind, ["Fz = CvtToFuzzy(InFieldName = Fine,", "   TrueThreshold = 2)", "Total = FuzzyUnion(", "    InFieldNames = [Fz, Fz],", "   Metadata = [k: v])", "Written = PrintVars(", "# c", "    InFieldNames = [Fine,", "      Src])"], [5, 7, 8]))
    for kind in ("maybe", "decimal", "list", "none"):
        setups.append(("OddFlag", kind, ["Negated = WantFlag(", "", "", "    Flag = Src)"], [0, 3]))
    for kind in ("text", "scalar", "map", "none"):
        setups.append(("OddNumbers", kind, ["Checked = WantNumbers(", "    Values = [Src,", "              Src]", ")"], [0, 1, 2]))
    for pcmd, kind, consumer, own in setups:
        blocks = {"src": ["Src = %s(" % pcmd, "    Kind = %s" % kind, ")"], "fine": ["Fine = Odd(Kind = array)"], "shown": ["Shown_ = Shown(", "    Of = Src", ")"], "cons": consumer}
        orders = list(itertools.permutations(sorted(blocks)))
        rng.shuffle(orders)
        for order in orders[:8 if not ctx.thorough else 24]:
            for first_read in (False, True):
                lines, allowed = [], None
                for b in order:
                    lines += [rng.choice(["", "# note", "   "]) for _ in range(rng.randrange(0, 4))]
                    if b == "cons":
                        allowed = [len(lines) + 1 + o for o in own]
                    lines += blocks[b]
                src = "\n".join(lines) + "\n"
                try:
                    p = Program.from_source(src, libraries=libs)
                    if first_read:
                        p.commands["Src"].result          # the producer is finished before the model is validated
                    import contextlib, io
                    with contextlib.redirect_stdout(io.StringIO()):
                        p.run()
                    got = "ok"
                except Exception as e:
                    got = progrun.classify(e)
                ctx.case("finished-producer %s %s" % (first_read, src), sample={"source": src, "producer_read_first": first_read, "outcome": got})
                ctx.count("finished_producer_cases")
                ctx.count("finished_producer_outcome:" + ":".join(got.split(":")[:2]))
                desc = {"source": src, "libraries": list(libs), "producer_asked_for_its_result_before_run": first_read, "lines_of_the_consumer_command_and_argument": allowed}
                parts = got.split(":")
                if parts[0] in ("mp", "unexpected"):
                    if parts[2] in ("-", "~"):
                        ctx.fail("%s carries no line; the refused argument (the result of %s delivering %s) is on lines %r" % (parts[1], pcmd, kind, allowed), desc)
                    elif int(parts[2]) not in allowed:
                        ctx.fail("%s carries line %s; the command whose argument is refused (the result Src, which is %s where %s is declared) is on lines %r" % (
                            parts[1], parts[2], kind, {"Odd": "an array", "OddFlag": "a boolean", "OddNumbers": "a list of numbers"}[pcmd], allowed), desc)
                elif got != "ok":
                    ctx.fail("a model with a plug-in result of an undeclared kind: %s" % got, desc)

LINELESS_PLUGIN_SRC = """
from mpilot import params
from mpilot.commands import Command
from mpilot.exceptions import MPilotError, ProgramError


class SensorOffline(ProgramError):
    \"\"\" a library's own error class; raised without a line, like the data-file errors of the csv reader \"\"\"


class Probe(Command):
    \"\"\" fails while executing: How = bare (an error without a line), own (an error carrying the command's line), arg (the argument's line), general
    (an MPilotError, which has no line at all) \"\"\"
    inputs = {"How": params.StringParameter(), "Of": params.ResultParameter(params.DataParameter(), required=False)}
    output = params.DataParameter()

    def execute(self, **kw):
        how = kw["How"]
        if how == "bare":
            raise SensorOffline()
        if how == "own":
            raise SensorOffline(lineno=self.lineno)
        if how == "arg":
            raise SensorOffline(lineno=self.argument_lines.get("How"))
        raise MPilotError("the probe does not answer")
"""


def lineless_runtime_lines(ctx):
    """run-time errors that the failing command raises WITHOUT a line (problems found in a data file: empty, header missing, a cell that is no number; a number of
    weights that does not match; a plug-in's own error class) in a command that other commands consume, one to three levels below the command Program.run()
    starts, in several file orders: the error may carry no line (then the tool marks nothing), but a line it carries - through the library and as marked by the
    command-line tool - is a line of the failing command (its own or one of its arguments'), never one of a consumer's or of a neighbour's"""
    import contextlib, io, itertools, types
    from click.testing import CliRunner
    from mpilot.cli.mpilot import main
    from mpilot.program import Program
    rng = ctx.rng
    name = "mpverif_c11_lineless"
    if name not in sys.modules:
        m = types.ModuleType(name)
        sys.modules[name] = m
        exec(compile(LINELESS_PLUGIN_SRC, name, "exec"), m.__dict__)
    tmp = common.tmpdir("mpv_c11n_")
    for fn, text in (("good.csv", "a,b\n1,4\n2,5\n3,6\n"), ("empty.csv", ""), ("text.csv", "a,b\n1,4\nn/a,5\n3,6\n"), ("hole.csv", "a,b\n1,4\n,5\n3,6\n"), ("short.csv", "a,b\n1,4\n2\n")):
        open(os.path.join(tmp, fn), "w").write(text)
    try:
        runner = CliRunner(mix_stderr=False)
    except TypeError:
        runner = CliRunner()
    read = lambda fn, field: ["Bad = EEMSRead(", "", '    InFileName = "%s",' % fn, "    # the field", "    InFieldName = %s" % field, ")"]
    # (what the failing command delivers, its lines, the expected error class or None = whatever it raises, offsets of its command / argument lines)
    setups = [("raw", read("empty.csv", "a"), "EmptyDataFile", [0, 2, 4]), ("raw", read("good.csv", "nosuchfield"), "InvalidDataFile", [0, 2, 4]),
              ("raw", read("text.csv", "a"), "InvalidDataFile", [0, 2, 4]), ("raw", read("hole.csv", "a"), "InvalidDataFile", [0, 2, 4]), ("raw", read("short.csv", "b"), None, [0, 2, 4]),
              ("raw", ["Bad = WeightedSum(", "    InFieldNames = [Good, Good],", "", "    Weights = [1, 2, 3]", ")"], "MismatchedWeights", [0, 1, 3]),
              ("raw", ["Bad = WeightedMean(InFieldNames = [Good,", "   Good, Good],", "    Weights = [1]", ")"], "MismatchedWeights", [0, 2]),
              ("fuzzy", ["Bad = FuzzyWeightedUnion(", "    InFieldNames = [FGood, FGood],", "    Weights = [", "       0.5]", ")"], "MismatchedWeights", [0, 1, 2]),
              ("raw", ["Bad = Probe(", "    How = bare", ")"], "SensorOffline", [0, 1]), ("raw", ["Bad = Probe(How = general, Of = Good)"], "MPilotError", [0]),
              ("raw", ["Bad = Probe(", "", "    How = own)"], "SensorOffline", [0, 2]), ("raw", ["Bad = Probe(Of = Good,", "", "    How = arg)"], "SensorOffline", [0, 2])]
    consumers = {
        "raw": {"c1": ["C1 = Sum(", "    InFieldNames = [Good,", "        Bad]", ")"], "c2": ["C2 = CvtToFuzzy(InFieldName = C1,", "   TrueThreshold = 9, FalseThreshold = 0)"]},
        "fuzzy": {"c1": ["C1 = FuzzyNot(", "    InFieldName = Bad", ")"], "c2": ["C2 = FuzzyUnion(", "    InFieldNames = [C1, FGood]", ")"]}}
    for si, (kind, bad, err, own) in enumerate(setups):
        blocks = {"good": ['Good = EEMSRead(InFileName = "good.csv",', "    InFieldName = a)"], "fgood": ["FGood = CvtToFuzzy(InFieldName = Good)"], "bad": bad,
                  "side": ["Side = Copy(", "    InFieldName = Good", ")"], "out": ["Out = EEMSWrite(", '    OutFileName = "out%d.csv",' % si, "    OutFieldNames = [FGood, C2]", ")"]}
        blocks.update(consumers[kind])
        # depth of the consumers below the failing command: only c1 / c1 <- c2 / c1 <- c2 <- the writer
        for depth in (1, 2, 3):
            used = ["good", "fgood", "bad", "side", "c1"] + ["c2"][:depth - 1] + ["out"][:depth - 2]
            orders = [used, [b for b in reversed(used)]] + [rng.sample(used, len(used)) for _ in range(2 if not ctx.thorough else 10)]
            for oi, order in enumerate(orders):
                lines, allowed = [], None
                for b in order:
                    lines += [rng.choice(["", "# note", "   "]) for _ in range(rng.randrange(0, 3))]
                    if b == "bad":
                        allowed = [len(lines) + 1 + o for o in own]
                    lines += blocks[b]
                src = "\n".join(lines) + "\n"
                libs = progrun.EEMS_LIBS + (name,)
                try:
                    with contextlib.redirect_stdout(io.StringIO()):
                        Program.from_source(src, libraries=libs, working_dir=tmp).run()
                    got = "ok"
                except Exception as e:
                    got = "mp:MPilotError:-" if type(e).__name__ == "MPilotError" else progrun.classify(e)
                ctx.case("lineless %s" % src, sample={"source": src, "outcome": got, "lines_of_the_failing_command": allowed})
                ctx.count("lineless_runtime_cases")
                ctx.count("lineless_runtime_line:" + ("none" if got.split(":")[-1] in ("-", "~") else "own"))
                desc = {"source": src, "libraries": list(libs), "files": "good.csv = a,b / 1,4 / 2,5 / 3,6; empty.csv is empty; text.csv holds n/a, hole.csv an empty cell, short.csv a short row",
                        "lines_of_the_failing_command_and_its_arguments": allowed}
                parts = got.split(":")
                if parts[0] not in ("mp", "unexpected") or (err is not None and parts[1] != err):
                    ctx.fail("a model whose command Bad fails while running: expected %s, got %s" % (err, got), desc)
                elif parts[2] not in ("-", "~") and int(parts[2]) not in allowed:
                    ctx.fail("%s is raised by the command on lines %r (consumed %d level(s) deep) and carries line %s: %r" % (parts[1], allowed, depth, parts[2], lines[int(parts[2]) - 1] if 0 < int(parts[2]) <= len(lines) else None), desc)
                # the command-line tool on the same file (the built-in commands only: the tool of the csv library): whatever it marks is a line of the failing command
                if "Probe" in src or oi > 1:
                    continue
                path = os.path.join(tmp, "m%d.mpt" % (oi % 2))
                with open(path, "w") as f:
                    f.write(src)
                res = runner.invoke(main, ["eems-csv", path])
                try:
                    err_text = res.stderr
                except ValueError:
                    err_text = res.output
                marked = [l[4:] for l in (err_text or "").split("\n") if l.startswith("--> ")]
                ctx.count("lineless_runtime_cli")
                desc = dict(desc, stderr=(err_text or "")[-600:], exit=res.exit_code)
                if res.exit_code == 0 or (res.exception is not None and not isinstance(res.exception, SystemExit)):
                    ctx.fail("the command-line tool on a model whose command Bad fails while running: exit %s, %s" % (res.exit_code, type(res.exception).__name__), desc)
                elif marked and (len(marked) != 1 or marked[0] not in [lines[k - 1] for k in allowed]):
                    ctx.fail("the command-line tool marks %r; the command that failed is on lines %r: %r" % (marked[:3], allowed, [lines[k - 1] for k in allowed]), desc)


def run(ctx):
    ctx.check_proofs(["MPilot.Props.C11", "MPilot.Props.C11Exact", "MPilot.Props.C11Nodes", "MPilot.Props.C11End", "MPilot.Props.C13Cli"])
    model = common.Model()
    rng = ctx.rng
    # (a) node lines of renderings (real vs true lines vs model)
    srcs, exps = [], []
    for _ in range(ctx.budget(100, 5000)):
        ast = render.rand_ast(rng, max_cmds=rng.choice([1, 3, 6]))
        src, exp = render.render(ast, rng, rng.choice(["\n", "\r\n"]), wild=True)
        srcs.append(src); exps.append(exp)
    # every value on a later line than its `Name =` (line break, blank lines, a comment after the `=`, a comment line in between)
    for k in range(ctx.budget(15, 600)):
        ast = render.rand_ast(rng, max_cmds=rng.choice([1, 3]))
        src, exp = render.render(ast, rng, "\r\n" if k % 3 == 2 else "\n", wild=k % 2 == 0, split_eq=True)
        srcs.append(src); exps.append(exp)
    answers = model.ask([parsing.model_line(s) for s in srcs])
    for src, exp, ans in zip(srcs, exps, answers):
        real = parsing.real_parse(src)
        # the loader's hand-over: every command is handed its own line and, per argument, the line the argument starts on (the line of its name, wherever
        # the value stands) and the lines of lists and their elements
        want = parsing.expected_load(src) if real == exp else None
        if want is not None:
            got = parsing.real_load(src)
            ctx.count("loaded_renderings")
            if got != want:
                ctx.fail("Program.from_source hands a command / argument / list element on with another line than the one it starts on", {"source": src, "true": want[:800], "loaded": got[:800]})
        ctx.case(src, sample={"source": src[:300], "true_tree": exp[:200]})
        ctx.count("rendering_lines:%d" % min(20, src.count("\n")))
        if ans != "outside" and parsing.normalise_model(ans) not in (real, "outside"):
            ctx.disagree("parse:lines", {"source": src}, real[:500], parsing.normalise_model(ans)[:500])
        if real != exp:
            ctx.fail("a node of the parse tree does not carry the line it starts on", {"source": src, "true": exp[:800], "parsed": real[:800]})
    parse_history(ctx, ctx.budget(60, 3000))
    fault_lines(ctx, model)
    cycle_lines(ctx)
    runtime_lines(ctx)
    lineless_runtime_lines(ctx)
    finished_producer_lines(ctx)
    large_sources(ctx)
    cli_marks(ctx, ctx.budget(30, 600), model)
    clicorr.formatting(ctx, model, ctx.budget(60, 3000))
    # files in EEMS 2.0 syntax (arguments on their own lines): faults carry the line of the command, as in MPilot syntax
    from . import c12
    tmp2 = common.tmpdir("mpv_c11e_")
    open(os.path.join(tmp2, "in.csv"), "w").write("a,b\n1,2\n3,4\n")
    base, classes = progrun.library_classes(c12.LIBS)
    c12.eems2_faults(ctx, model, tmp2, {"in": "in.csv"}, sorted(classes, key=lambda c: c.name))
    return ctx.finish(
        rule="(a) renderings with blank/comment lines, trailing comments, arguments and lists spread over several lines, LF or CRLF, the true line of every "
             "node recorded by the renderer; (b) the same after 0-3 earlier parses on one Parser (valid, EEMS-2.0, failing late) and after earlier loads in the process; "
             "(c) a fault of every kind injected at a known line behind random blank lines; (d) cycles with consumers outside them; (e) run-time errors of real bodies; "
             "distinct by source text",
        explanation="theorems in Props/C11.lean hold for the model (lines are a function of the text alone; token lines count the line breaks before the token); real parser, "
                    "loader and pre-pass are compared with the model including every line number; by-construction line oracles run on the implementation")


def replay(path):
    import json
    print(json.dumps(json.load(open(path)), indent=1)[:6000])
    return 0
