"""C08 — fuzzy conversions and normalisations compute their documented mappings.

proof:          lean/MPilot/Props/C08.lean
correspondence: all conversion/normalisation commands; thresholds in both orders and equal; cells exactly on control points;
                unsorted control points; int and float inputs; masks (near-discontinuity cases skipped and counted)
oracles:        reference mappings in exact arithmetic (float sqrt for z-scores, tolerance 1e-9); CvtFromFuzzy∘CvtToFuzzy = id
                between the thresholds; every CvtToFuzzy variant = clamp of its Normalize counterpart; monotone mappings
                preserve the order of cells; curve independent of the listing order of control points
"""
import math
from fractions import Fraction

import numpy

from .. import common, eems, reference
from ..eems import Case
from . import numeric

F = Fraction
COUNTERPART = {
    "CvtToFuzzyCat": ("NormalizeCat", {"FuzzyValues": "NormalValues", "DefaultFuzzyValue": "DefaultNormalValue"}),
    "CvtToFuzzyCurve": ("NormalizeCurve", {"FuzzyValues": "NormalValues"}),
    "CvtToFuzzyMeanToMid": ("NormalizeMeanToMid", {"FuzzyValues": "NormalValues"}),
    "CvtToFuzzyCurveZScore": ("NormalizeCurveZScore", {"FuzzyValues": "NormalValues"}),
}


def valid_of(case):
    return [F(v) for v in case.inputs[0].compressed().tolist()]


def stats(vals):
    m = sum(vals) / len(vals)
    var = sum((v - m) ** 2 for v in vals) / len(vals)
    return m, math.sqrt(float(var))


def expected(case):
    """reference mapping of one cell value -> value, or None when this oracle has nothing to say"""
    cmd, p = case.cmd, case.params
    vals = valid_of(case)
    if len(set(vals)) < 2:          # the property's own domain: at least two distinct valid values
        return None
    lo, hi = min(vals), max(vals)
    if cmd == "CvtToFuzzy":
        d = p.get("Direction")
        if d not in (None, "LowToHigh", "HighToLow"):
            return None
        f = F(p["FalseThreshold"]) if "FalseThreshold" in p else (hi if d == "HighToLow" else lo)
        t = F(p["TrueThreshold"]) if "TrueThreshold" in p else (lo if d == "HighToLow" else hi)
        if t == f:
            return None
        return lambda x: reference.clamp(reference.lin(x, t, f, F(1), F(-1)))
    if cmd == "CvtFromFuzzy":
        t, f = F(p["TrueThreshold"]), F(p["FalseThreshold"])
        if t == f:
            return None
        return lambda x: reference.lin(x, F(1), F(-1), t, f)
    if cmd == "CvtToBinary":
        if p["Direction"] not in ("LowToHigh", "HighToLow"):
            return None
        th = F(p["Threshold"])
        low, high = (F(0), F(1)) if p["Direction"] == "LowToHigh" else (F(1), F(0))
        return lambda x: low if x < th else high
    if cmd == "Normalize":
        s, e = F(p.get("StartVal", 0)), F(p.get("EndVal", 1))
        return lambda x: reference.lin(x, lo, hi, s, e)
    if cmd in ("NormalizeCat", "CvtToFuzzyCat"):
        fz = cmd == "CvtToFuzzyCat"
        raws = [F(r) for r in p["RawValues"]]
        nv = [F(v) for v in p["FuzzyValues" if fz else "NormalValues"]]
        dflt = F(p["DefaultFuzzyValue" if fz else "DefaultNormalValue"])
        if len(raws) != len(nv) or len(set(raws)) != len(raws):
            return None
        table = dict(zip(raws, nv))
        g = lambda x: table.get(x, dflt)
        return (lambda x: reference.clamp(g(x))) if fz else g
    if cmd in ("NormalizeCurve", "CvtToFuzzyCurve"):
        fz = cmd == "CvtToFuzzyCurve"
        raws = [F(r) for r in p["RawValues"]]
        nv = [F(v) for v in p["FuzzyValues" if fz else "NormalValues"]]
        if len(raws) != len(nv) or len(set(raws)) != len(raws) or not raws:
            return None
        g = reference.curve(list(zip(raws, nv)))
        return (lambda x: reference.clamp(g(x))) if fz else g
    if cmd in ("NormalizeZScore", "CvtToFuzzyZScore"):
        fz = cmd == "CvtToFuzzyZScore"
        mean, std = stats(vals)
        tt = float(p.get("TrueThresholdZScore", 1 if fz else 0))
        ft = float(p.get("FalseThresholdZScore", -1 if fz else 1))
        s = -1.0 if fz else float(p.get("StartVal", 0))
        e = 1.0 if fz else float(p.get("EndVal", 1))
        if tt == ft or std == 0 or not s < e:
            return None
        x1, x2 = float(mean) + std * tt, float(mean) + std * ft
        return lambda x: max(s, min(e, (float(x) - x1) * (s - e) / (x2 - x1) + e))
    if cmd in ("NormalizeCurveZScore", "CvtToFuzzyCurveZScore"):
        fz = cmd == "CvtToFuzzyCurveZScore"
        mean, std = stats(vals)
        zs = p["ZScoreValues"]
        nv = p["FuzzyValues" if fz else "NormalValues"]
        if len(zs) != len(nv) or not zs or len(set(zs)) != len(zs) or std == 0:
            return None
        pts = [(float(mean) + float(z) * std, float(v)) for z, v in zip(zs, nv)]
        g = reference.curve(pts)
        return (lambda x: max(-1.0, min(1.0, g(float(x))))) if fz else (lambda x: g(float(x)))
    if cmd in ("NormalizeMeanToMid", "CvtToFuzzyMeanToMid"):
        fz = cmd == "CvtToFuzzyMeanToMid"
        nv = [F(v) for v in p["FuzzyValues" if fz else "NormalValues"]]
        if len(nv) != 5:
            return None
        vs = [v for v in vals if v != 0] if p["IgnoreZeros"] else vals
        if len(set(vs)) < 2:
            return None
        m = sum(vs) / len(vs)
        below = [v for v in vs if v <= m]
        above = [v for v in vs if v > m]
        raw = [lo, sum(below) / len(below), m, sum(above) / len(above), hi]
        if raw[-1] == raw[-2]:
            del raw[-2]; del nv[-2]
        if raw[0] == raw[1]:
            del raw[1]; del nv[1]
        if len(set(raw)) != len(raw):
            return None
        g = reference.curve(list(zip(raw, nv)))
        return (lambda x: reference.clamp(g(x))) if fz else g
    return None


def oracle_mapping(ctx):
    def on_result(case, out, ans):
        if out["status"] != "ok" or out["vis"][3] is None:
            return
        f = expected(case)
        if f is None:
            ctx.count("c08_outside_oracle_domain")
            return
        ins = numeric.vis_inputs(case)[0]
        exp = [None if x is None else f(x) for x in ins]
        fd = numeric.first_diff(numeric.vals_of(out), exp, 1e-7 if case.cmd in eems.ZSCORE else common.TOL)
        if fd:
            ctx.fail("%s: cell %d (input %s) maps to %r, documented mapping gives %s" % (case.cmd, fd[0], ins[fd[0]], fd[1], fd[2]), case.describe())
        # monotone mappings preserve (or uniformly reverse) the order of cells
        if case.cmd in ("CvtToFuzzy", "CvtFromFuzzy", "CvtToBinary", "Normalize", "NormalizeZScore", "CvtToFuzzyZScore"):
            pairs = [(x, v) for x, v in zip(ins, numeric.vals_of(out)) if x is not None and v is not None]
            pairs.sort()
            ups = any(b[1] > a[1] + 1e-12 for a, b in zip(pairs, pairs[1:]))
            downs = any(b[1] < a[1] - 1e-12 for a, b in zip(pairs, pairs[1:]))
            if ups and downs:
                ctx.fail("%s is not monotone over the cells" % case.cmd, case.describe())
    return on_result


def oracle_counterpart(ctx):
    def on_result(case, out, ans):
        if case.cmd not in COUNTERPART or out["status"] != "ok":
            return
        other, ren = COUNTERPART[case.cmd]
        params = {ren.get(k, k): v for k, v in case.params.items()}
        out2 = eems.run_impl(Case(other, params, case.inputs))
        ctx.count("c08_counterpart_twins")
        if out2["status"] != "ok":
            ctx.fail("%s succeeded but its counterpart %s raised %s" % (case.cmd, other, out2["cls"]), case.describe())
            return
        exp = [None if v is None else max(-1.0, min(1.0, v)) for v in numeric.vals_of(out2)]
        fd = numeric.first_diff(numeric.vals_of(out), exp)
        if fd:
            ctx.fail("%s differs from clamp(%s) at cell %d: %r vs %r" % (case.cmd, other, fd[0], fd[1], fd[2]), case.describe())
    return on_result


def relational(ctx, count):
    rng = ctx.rng
    for _ in range(count):
        shape = eems.rand_shape(rng)
        a = eems.rand_array(rng, shape, rng.choice([int, float]))
        if len(set(a.compressed().tolist())) < 2:
            continue
        # CvtToFuzzy == Normalize to [-1, 1]; z-score counterpart with explicit parameters
        d = rng.choice(["LowToHigh", "HighToLow"])
        o1 = eems.run_impl(Case("CvtToFuzzy", {"Direction": d}, [a]))
        o2 = eems.run_impl(Case("Normalize", {"StartVal": -1, "EndVal": 1} if d == "LowToHigh" else {"StartVal": 1, "EndVal": -1}, [a]))
        ctx.case("rel CvtToFuzzy/Normalize " + eems.enc_arr(a) + d, sample=None)
        ctx.count("c08_relational_cases")
        if o1["status"] != "ok" or o2["status"] != "ok" or numeric.first_diff(numeric.vals_of(o1), numeric.vals_of(o2)):
            ctx.fail("CvtToFuzzy(Direction=%s) differs from Normalize onto [-1, 1]" % d, Case("CvtToFuzzy", {"Direction": d}, [a]).describe())
        tt, ft = rng.choice([(1, -1), (0.5, -2), (-1, 1), (2, 0)])
        o1 = eems.run_impl(Case("CvtToFuzzyZScore", {"TrueThresholdZScore": tt, "FalseThresholdZScore": ft}, [a]))
        o2 = eems.run_impl(Case("NormalizeZScore", {"TrueThresholdZScore": tt, "FalseThresholdZScore": ft, "StartVal": -1, "EndVal": 1}, [a]))
        if o1["status"] != "ok" or o2["status"] != "ok" or numeric.first_diff(numeric.vals_of(o1), numeric.vals_of(o2)):
            ctx.fail("CvtToFuzzyZScore differs from NormalizeZScore onto [-1, 1]", Case("CvtToFuzzyZScore", {"TrueThresholdZScore": tt, "FalseThresholdZScore": ft}, [a]).describe())
        # CvtFromFuzzy inverts CvtToFuzzy between the thresholds
        vals = sorted(set(a.compressed().tolist()))
        t, f = (vals[-1], vals[0]) if rng.random() < 0.5 else (vals[0], vals[-1])
        c1 = Case("CvtToFuzzy", {"TrueThreshold": t, "FalseThreshold": f}, [a])
        o1 = eems.run_impl(c1)
        if o1["status"] == "ok":
            o2 = eems.run_impl(Case("CvtFromFuzzy", {"TrueThreshold": t, "FalseThreshold": f}, [o1["result"]]))
            if o2["status"] != "ok" or numeric.first_diff(numeric.vals_of(o2), numeric.vis_inputs(c1)[0]):
                ctx.fail("CvtFromFuzzy(CvtToFuzzy(x)) != x between the thresholds", c1.describe())
        else:
            ctx.fail("CvtToFuzzy with thresholds at the data extremes failed", c1.describe())
        # curve: listing order of the control points is irrelevant
        k = rng.randrange(2, 6)
        raws = eems.distinct_nums(rng, k, eems.CURVE_POOL)
        nv = [rng.choice(eems.VALUE_POOL) for _ in raws]
        o1 = eems.run_impl(Case("NormalizeCurve", {"RawValues": raws, "NormalValues": nv}, [a]))
        idx = list(range(len(raws))); rng.shuffle(idx)
        o2 = eems.run_impl(Case("NormalizeCurve", {"RawValues": [raws[i] for i in idx], "NormalValues": [nv[i] for i in idx]}, [a]))
        d = numeric.same_outcome(o1, o2)
        if d:
            ctx.fail("NormalizeCurve depends on the listing order of its control points (%s)" % d, Case("NormalizeCurve", {"RawValues": raws, "NormalValues": nv}, [a]).describe())


def gen(ctx, cmds, n):
    cases = []
    rng = ctx.rng
    for cmd in cmds:
        for i in range(n):
            c = eems.gen_case(rng, cmd, style="valid" if i % 5 else "wild")
            # place cells exactly on thresholds / control points
            if c.inputs and rng.random() < 0.5:
                pts = []
                for key in ("RawValues", "TrueThreshold", "FalseThreshold", "Threshold"):
                    v = c.params.get(key)
                    pts += list(v) if isinstance(v, list) else ([v] if v is not None else [])
                if pts and cmd not in eems.FUZZY_CONSUMERS:
                    a = c.inputs[0]
                    flat = numpy.ma.getdata(a).ravel()
                    for _ in range(min(2, flat.size)):
                        j = rng.randrange(flat.size)
                        pv = rng.choice(pts)
                        if a.dtype.kind == "i" and float(pv) != int(pv):
                            continue
                        flat[j] = pv
            cases.append(c)
    return cases


def directed(ctx):
    """combinations that every run must contain, whatever the seed: each conversion over small non-negative integers held in every narrow
    integer type with integer-valued parameters (wrap-around shows there first), and the mean-to-mid conversions with zeros ignored where
    zero is the smallest / the largest value of the field"""
    rng = ctx.rng
    cases = []
    ints = {
        "CvtToFuzzy": [{"TrueThreshold": 4, "FalseThreshold": 1}, {"TrueThreshold": 1, "FalseThreshold": 5}, {}],
        "CvtToBinary": [{"Threshold": 3, "Direction": "LowToHigh"}],
        "Normalize": [{}, {"StartVal": 2, "EndVal": 0}],
        "NormalizeZScore": [{}, {"TrueThresholdZScore": 1, "FalseThresholdZScore": -1}],
        "CvtToFuzzyZScore": [{"TrueThresholdZScore": 1, "FalseThresholdZScore": -1}],
        "NormalizeCat": [{"RawValues": [1, 3], "NormalValues": [2, 4], "DefaultNormalValue": 0}],
        "CvtToFuzzyCat": [{"RawValues": [1, 3], "FuzzyValues": [1, -1], "DefaultFuzzyValue": 0}],
        "NormalizeCurve": [{"RawValues": [1, 3, 5], "NormalValues": [0, 2, 1]}],
        "CvtToFuzzyCurve": [{"RawValues": [1, 3, 5], "FuzzyValues": [-1, 1, 0]}],
        "NormalizeMeanToMid": [{"IgnoreZeros": False, "NormalValues": [0, 1, 2, 3, 4]}, {"IgnoreZeros": True, "NormalValues": [0, 1, 2, 3, 4]}],
        "CvtToFuzzyMeanToMid": [{"IgnoreZeros": True, "FuzzyValues": [-1, -0.5, 0, 0.5, 1]}],
        "NormalizeCurveZScore": [{"ZScoreValues": [-1, 0, 1], "NormalValues": [0, 1, 2]}],
        "CvtToFuzzyCurveZScore": [{"ZScoreValues": [-1, 0, 1], "FuzzyValues": [-1, 0, 1]}],
    }
    base = [[0, 1, 2, 3, 5, 4, 1], [5, 0, 0, 2, 3, 3], [2, 5, 1, 0, 4]]
    for cmd, plist in ints.items():
        for params in plist:
            for vals in base:
                mask = [False] * len(vals)
                if rng.random() < 0.5:
                    mask[rng.randrange(len(vals))] = True
                for dt in (numpy.int64, numpy.int8, numpy.uint8, numpy.int16, numpy.uint16, numpy.uint32):
                    cases.append((Case(cmd, params, [numpy.ma.array(numpy.array(vals, dtype=dt), mask=mask)]), "narrow"))
    # statistics of fields whose mean is large against their spread (exactly representable: 2^30 + small even numbers), and of integer fields whose
    # squares leave a 16-bit type: mean and standard deviation are those of the field
    zcmds = {k: v for k, v in ints.items() if "ZScore" in k}
    for cmd, plist in zcmds.items():
        for params in plist:
            for vals in ([0, 2, 4, 6], [6, 0, 0, 2, 4, 6], [2, 2, 4, 0, 12]):
                cases.append((Case(cmd, params, [numpy.ma.array(numpy.array([2.0 ** 30 + v for v in vals]))]), "offset"))
            for vals in ([100, 200, 300, 250, 150], [181, 182, 183, 190]):
                for dt in (numpy.int64, numpy.int16, numpy.uint16, numpy.uint8 if max(vals) < 256 else numpy.int32):
                    cases.append((Case(cmd, params, [numpy.ma.array(numpy.array(vals, dtype=dt))]), "narrow"))
    # threshold spans of every size from 1 to 130 (and a few thousand), explicit and by default (the data minimum / maximum), in both directions: the cells
    # holding the thresholds map to exactly +1 / -1, the cell half-way to exactly 0 (the exactness oracle of run_stream decides: whole numbers need no rounding)
    spans = list(range(1, 131)) + [rng.randrange(131, 5000) for _ in range(10)]
    rng.shuffle(spans)
    for i, w in enumerate(spans):
        lo = rng.choice([0, 1, -3, 7, -w])
        cells = [float(lo), float(lo + w), lo + w / 2.0, float(lo + w), float(lo)] + ([float(lo + rng.randrange(w + 1))] if i % 2 else [])
        arr = numpy.ma.array(numpy.array(cells), mask=[False] * len(cells))
        p = rng.choice([{"TrueThreshold": lo + w, "FalseThreshold": lo}, {"TrueThreshold": lo, "FalseThreshold": lo + w},
                        {"TrueThreshold": float(lo + w), "FalseThreshold": float(lo)}, {}, {"Direction": "HighToLow"}, {"Direction": "LowToHigh"}])
        cases.append((Case("CvtToFuzzy", p, [arr]), "span"))
    for cmd, key in (("NormalizeMeanToMid", "NormalValues"), ("CvtToFuzzyMeanToMid", "FuzzyValues")):
        vals5 = [0, 0.25, 0.5, 0.75, 1] if key == "NormalValues" else [-1, -0.5, 0, 0.5, 1]
        for vals in ([0.0, 0.0, 2.0, 3.0, 5.0, 7.0], [0.0, -1.0, -4.0, -2.0, 0.0, -7.0], [0.0, 1.5, 0.0, 4.0, 2.0], [3.0, 0.0, -2.0, 5.0, 0.0]):
            for iz in (True, False):
                cases.append((Case(cmd, {"IgnoreZeros": iz, key: vals5}, [numpy.ma.array(numpy.array(vals))]), "zeros"))
    return cases


def single_precision_categories(ctx):
    """category codes that are not exactly representable (0.1, 0.2, 0.3) in a single-precision field: a cell holding the code gets the code's value,
    exactly as in the double-precision field with the same nominal values"""
    codes = [0.1, 0.2, 0.3, 2.5, 7.0, 0.7]
    cells = [0.1, 0.3, 0.2, 2.5, 0.7, 7.0, 0.5, 0.1]
    mask = [False] * 7 + [True]
    for cmd, vkey, dkey in (("NormalizeCat", "NormalValues", "DefaultNormalValue"), ("CvtToFuzzyCat", "FuzzyValues", "DefaultFuzzyValue")):
        for raw in ([0.1, 0.2, 0.3], [0.3, 2.5, 0.1, 7.0], [0.7]):
            params = {"RawValues": raw, vkey: [0.25 * (k + 1) - 0.5 for k in range(len(raw))], dkey: -0.75}
            outs = {}
            for dt in (numpy.float64, numpy.float32):
                c = Case(cmd, params, [numpy.ma.array(numpy.array(cells, dtype=dt), mask=mask)])
                outs[dt] = eems.run_impl(c)
                ctx.case("f32-cat %s %r %s" % (cmd, raw, dt.__name__), sample=None)
            ctx.count("c08_single_precision_category_cases")
            want = [None if m else next((params[vkey][raw.index(v)] for _ in [0] if v in raw), -0.75) for v, m in zip(cells, mask)]
            for dt, o in outs.items():
                got = o["vis"][3] if o["status"] == "ok" else eems.impl_summary(o)
                if got != want:
                    ctx.fail("%s on a %s field holding the category codes %r: %r, expected %r" % (cmd, dt.__name__, raw, got, want),
                             {"cmd": cmd, "params": {k: repr(v) for k, v in params.items()}, "cells": cells, "dtype": dt.__name__})


def after_write(ctx, count):
    """the mapping a conversion computes for a field is the same before and after that field was written to a file together with other fields
    (whose missing cells differ): the statistics a conversion takes from the field (minimum, maximum, mean, deviation) are the field's own"""
    import os
    from . import c18
    from mpilot.libraries.eems.netcdf.io import EEMSWrite as NcWrite
    rng = ctx.rng
    tmp = common.tmpdir("mpv_c08_")
    for i in range(count):
        shape = rng.choice(c18.SHAPES)
        n = int(numpy.prod(shape))
        if n < 3:
            continue
        fields = [eems.rand_array(rng, shape, float, None, rng.choice(["one", "some", "some"])) for _ in range(rng.randrange(2, 4))]
        fields = [numpy.ma.array(numpy.ma.getdata(a), mask=numpy.ma.getmaskarray(a)) for a in fields]      # full-size mask arrays, as readers deliver
        cmd = rng.choice(["CvtToFuzzy", "Normalize", "CvtToFuzzyZScore", "NormalizeZScore", "CvtToFuzzyMeanToMid"])
        first = fields[0]
        case0 = Case(cmd, eems.gen_params(rng, cmd, [first], "valid"), [first.copy()])
        if eems.near_discontinuity(case0):
            continue
        before = eems.run_impl(case0)
        tpl = os.path.join(tmp, "tpl%d.nc" % (i % 4))
        c18.make_template(tpl, shape, rng)
        outp = os.path.join(tmp, "out%d.nc" % (i % 4))
        if os.path.exists(outp):
            os.remove(outp)
        try:
            NcWrite("W", []).execute(OutFileName=outp, OutFieldNames=[eems.Producer(a, "f%d" % j, False) for j, a in enumerate(fields)],
                                     DimensionFileName=tpl, DimensionFieldName="elev")
        except Exception as e:
            ctx.count("after_write_errors:" + type(e).__name__)
        after = eems.run_impl(Case(cmd, case0.params, [first]), copy_inputs=False)
        ctx.case("after-write %s %r" % (cmd, [a.tolist() for a in fields]), sample=None)
        ctx.count("c08_after_write_cases")
        d = eems._same(before, after)
        if d:
            ctx.fail("%s of a field differs after the field was written to a NetCDF file with %d other field(s): %s" % (cmd, len(fields) - 1, d),
                     {"cmd": cmd, "params": {k: repr(v) for k, v in case0.params.items()}, "fields": [repr(a.tolist()) for a in fields]})


def run(ctx):
    ctx.check_proofs(["MPilot.Props.C08", "MPilot.Props.C08Defaults", "MPilot.Props.C08Inverse"])
    model = common.Model()
    orc = numeric.combine(oracle_mapping(ctx), oracle_counterpart(ctx))
    n = ctx.budget(24, 900)
    eems.run_stream(ctx, model, gen(ctx, eems.CONVERSIONS, n), "exec:conversions", on_result=orc)
    # directed cases: compared with the model, the reference mappings and - for the narrow integer types - with the same values held as int64
    dcases = directed(ctx)
    # (fields offset by 2^30: the thresholds mean ± z·deviation are rounded at that magnitude, so results carry errors near 1e-8; compared at 1e-6)
    eems.run_stream(ctx, model, [c for c, k in dcases if k == "offset"], "exec:conversions-directed-offset", tol=1e-6, narrow=False)
    dcases = [(c, k) for c, k in dcases if k != "offset"]
    kept, outs, _ = eems.run_stream(ctx, model, [c for c, _ in dcases], "exec:conversions-directed", on_result=orc, narrow=False)
    by64 = {}
    for c, out in zip(kept, outs):
        key = (c.cmd, repr(sorted(c.params.items())), repr(c.inputs[0].tolist()))
        if c.inputs[0].dtype == numpy.int64:
            by64[key] = out
    for c, out in zip(kept, outs):
        key = (c.cmd, repr(sorted(c.params.items())), repr(c.inputs[0].tolist()))
        if c.inputs[0].dtype.kind in "iu" and c.inputs[0].dtype != numpy.int64 and key in by64:
            d = eems._same(by64[key], out)
            if d:
                ctx.fail("%s: the same integer values stored as %s give a different result (%s)" % (c.cmd, c.inputs[0].dtype, d), c.describe())
    single_precision_categories(ctx)
    relational(ctx, ctx.budget(40, 1200))
    after_write(ctx, ctx.budget(30, 800))
    # long category tables and curves (40 .. 1000 entries, listed in no particular order, ints and floats mixed) on grids of rank 1-3: every cell gets the value
    # listed for its own code / the point on the curve - compared with the model and with the exact reference mapping
    # (added after the streams above so that those generate what they always generated under a given seed)
    eems.run_stream(ctx, model, eems.long_table_cases(eems._rng2(ctx)), "exec:conversions-long-tables", on_result=orc)
    numeric.focus_search(ctx, model, lambda cmds, f: gen(ctx, [c for c in cmds if c in eems.CONVERSIONS], n * f), orc)
    return ctx.finish(
        rule="cases = (conversion/normalisation command, parameters: thresholds in both orders and equal, directions, category tables, "
             "curves with unsorted control points, z-score vectors; int/float input with masks; cells planted exactly on control points); "
             "cases within 1e-9 of a data-derived discontinuity are skipped and counted; distinct by protocol line",
        explanation="theorems in Props/C08.lean hold for the model; differential execution ties the 14 command bodies present in the "
                    "libraries to the model; documented mappings, inverse, counterpart equality, monotonicity and control-point order "
                    "independence are evaluated on the implementation")


def replay(path):
    from .c04 import replay as r
    return r(path)
