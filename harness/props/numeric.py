"""Shared oracles for the numeric properties C03, C05-C09 (all evaluated on the real `execute` bodies)."""
from __future__ import print_function

import itertools
from fractions import Fraction

import numpy

from .. import common, eems, reference
from ..eems import Case

TOL = common.TOL


def vals_of(out):
    """visible cells of an implementation result as floats/None"""
    return out["vis"][3]


def approx(a, b, tol=TOL):
    if a is None or b is None:
        return a is None and b is None
    fa, fb = float(a), float(b)
    return abs(fa - fb) <= tol * max(1.0, abs(fb))


def approx_list(xs, ys, tol=TOL):
    return len(xs) == len(ys) and all(approx(x, y, tol) for x, y in zip(xs, ys))


def first_diff(xs, ys, tol=TOL):
    for i, (x, y) in enumerate(zip(xs, ys)):
        if not approx(x, y, tol):
            return i, x, y
    return None


def vis_inputs(case):
    """inputs as lists of Fraction/None"""
    res = []
    for a in case.inputs:
        d = numpy.ma.getdata(a).ravel().tolist()
        m = numpy.ma.getmaskarray(a).ravel().tolist()
        res.append([None if mm else Fraction(v) for v, mm in zip(d, m)])
    return res


# commands that bring their inputs into an order of their own (maximum, minimum, sorting) before any arithmetic: bit-identical for every listing
ORDER_CANONICAL = {"Minimum", "Maximum", "FuzzyOr", "FuzzyAnd", "FuzzySelectedUnion", "FuzzyXOr"}


def same_outcome(o1, o2, tol=TOL):
    """two implementation outcomes agree: same error class, or same kind/dtype/shape/mask and close values"""
    if o1["status"] != o2["status"]:
        return "one run succeeded, the other raised %s" % (o1.get("cls") or o2.get("cls"))
    if o1["status"] == "err":
        if (o1["kind"], o1["cls"]) != (o2["kind"], o2["cls"]):
            return "errors differ: %s vs %s" % (o1["cls"], o2["cls"])
        return None
    k1, d1, s1, v1 = o1["vis"]
    k2, d2, s2, v2 = o2["vis"]
    if (k1, d1, s1) != (k2, d2, s2):
        return "kind/dtype/shape differ: %r vs %r" % ((k1, d1, s1), (k2, d2, s2))
    fd = first_diff(v1, v2, tol)
    if fd:
        return "cell %d differs: %r vs %r" % fd
    return None


# ---------------------------------------------------------------- C03

DEGENERATE_ALL_MASKED = {
    # command -> predicate(case) telling that every cell is undefined (division by a zero scalar)
    "Normalize": lambda c: _minmax_equal(c),
    "WeightedMean": lambda c: sum(Fraction(w) for w in c.params["Weights"]) == 0,
    "FuzzyWeightedUnion": lambda c: sum(Fraction(w) for w in c.params["Weights"]) == 0,
    "NormalizeZScore": lambda c: _std_zero(c) or Fraction(c.params.get("TrueThresholdZScore", 0)) == Fraction(c.params.get("FalseThresholdZScore", 1)),
    "CvtToFuzzyZScore": lambda c: _std_zero(c) or Fraction(c.params.get("TrueThresholdZScore", 1)) == Fraction(c.params.get("FalseThresholdZScore", -1)),
}


def _valid(c):
    return [Fraction(v) for v in c.inputs[0].compressed().tolist()]


def _minmax_equal(c):
    v = _valid(c)
    return not v or min(v) == max(v)


def _std_zero(c):
    v = _valid(c)
    return not v or min(v) == max(v)


def oracle_c03(ctx, payload_twin=True):
    def on_result(case, out, ans):
        if out["status"] != "ok" or out["vis"][3] is None:
            return
        ins = vis_inputs(case)
        vals = vals_of(out)
        n = len(vals)
        if any(len(i) != n for i in ins):
            return
        union = [any(i[k] is None for i in ins) for k in range(n)]
        # (1) missing in ⇒ missing out
        leak = [k for k in range(n) if union[k] and vals[k] is not None]
        if leak:
            ctx.fail("%s: cell %d is missing in an input but present (%r) in the result" % (case.cmd, leak[0], vals[leak[0]]), case.describe())
        # (2) present unless the operation is undefined there
        extra = [k for k in range(n) if not union[k] and vals[k] is None]
        if extra:
            ok = False
            if case.cmd == "ADividedByB":
                ok = all(ins[1][k] == 0 for k in extra)
            elif case.cmd in DEGENERATE_ALL_MASKED:
                ok = DEGENERATE_ALL_MASKED[case.cmd](case) and all(v is None for v in vals)
            if not ok:
                ctx.fail("%s: cell %d is present in every input but missing in the result although the operation is defined there" % (case.cmd, extra[0]), case.describe())
        # (3) hidden payloads never influence visible output
        if payload_twin and any(union):
            twin_inputs = []
            for a in case.inputs:
                b = a.copy()
                m = numpy.ma.getmaskarray(b)
                d = numpy.ma.getdata(b)
                repl = ctx.rng.choice([123456, -123456, 0, 1, -1, 2, 3])
                d[m] = repl
                twin_inputs.append(b)
            out2 = eems.run_impl(case.with_inputs(twin_inputs))
            d = same_outcome(out, out2)
            ctx.count("c03_payload_twins")
            if d:
                ctx.fail("%s: changing only the numbers hidden beneath missing cells changed the visible result (%s)" % (case.cmd, d),
                         {"case": case.describe(), "twin": case.with_inputs(twin_inputs).describe()})
    return on_result


# ---------------------------------------------------------------- C05

def permute_array(a, perm, shape=None):
    d = numpy.ma.getdata(a).ravel()[perm]
    m = numpy.ma.getmaskarray(a).ravel()[perm]
    shape = shape or a.shape
    return numpy.ma.array(d.reshape(shape), mask=m.reshape(shape))


def reshapes_of(shape):
    n = int(numpy.prod(shape))
    cands = [(n,), (1, n), (n, 1), (1, 1, n)]
    for k in (2, 3):
        if n % k == 0:
            cands += [(k, n // k), (n // k, k), (k, 1, n // k)]
    return [c for c in cands if tuple(c) != tuple(shape)]


def oracle_c05(ctx):
    def on_result(case, out, ans):
        if out["status"] != "ok" or out["vis"][3] is None:
            return
        if len(set(a.shape for a in case.inputs)) != 1:
            return
        shape = case.inputs[0].shape
        if out["vis"][2] != tuple(shape):
            ctx.fail("%s: inputs of shape %r gave a result of shape %r" % (case.cmd, shape, out["vis"][2]), case.describe())
            return
        n = int(numpy.prod(shape))
        vals = vals_of(out)
        # common permutation of the cells of every input
        perm = list(range(n))
        ctx.rng.shuffle(perm)
        perm = numpy.array(perm)
        twin = case.with_inputs([permute_array(a, perm) for a in case.inputs])
        out2 = eems.run_impl(twin)
        ctx.count("c05_permutation_twins")
        if out2["status"] != "ok":
            ctx.fail("%s: permuting the cells of all inputs alike turned a result into %s" % (case.cmd, out2["cls"]), {"case": case.describe(), "perm": perm.tolist()})
        else:
            expect = [vals[p] for p in perm.tolist()]
            fd = first_diff(vals_of(out2), expect)
            if out2["vis"][2] != tuple(shape) or fd:
                ctx.fail("%s: permuting the cells of all inputs alike does not permute the result alike (%r)" % (case.cmd, fd), {"case": case.describe(), "perm": perm.tolist()})
        # same logical cells, different memory layout (Fortran order / a transposed view), rank >= 2
        if len(shape) >= 2:
            def relayout(a):
                d = numpy.asfortranarray(numpy.ma.getdata(a))
                m = numpy.asfortranarray(numpy.ma.getmaskarray(a))
                return numpy.ma.array(d, mask=m)
            out4 = eems.run_impl(case.with_inputs([relayout(a) for a in case.inputs]), copy_inputs=False)
            ctx.count("c05_layout_twins")
            d = same_outcome(out, out4)
            if d:
                ctx.fail("%s: the same cells in Fortran memory order give a different result (%s)" % (case.cmd, d), case.describe())
        # reshape
        rs = reshapes_of(shape)
        if rs:
            new = ctx.rng.choice(rs)
            twin = case.with_inputs([permute_array(a, numpy.arange(n), new) for a in case.inputs])
            out3 = eems.run_impl(twin)
            ctx.count("c05_reshape_twins")
            if out3["status"] != "ok":
                ctx.fail("%s: reshaping all inputs %r -> %r turned a result into %s" % (case.cmd, shape, new, out3["cls"]), case.describe())
            elif out3["vis"][2] != tuple(new) or first_diff(vals_of(out3), vals):
                ctx.fail("%s: reshaping all inputs %r -> %r: result shape %r / cells differ (%r)" % (case.cmd, shape, new, out3["vis"][2], first_diff(vals_of(out3), vals)), case.describe())
    return on_result


# ---------------------------------------------------------------- C06 / C07 definitions

SPELLED = {"truest": "Truest", "falsest": "Falsest"}


def oracle_definition(ctx, table, what, in_range_only=False, dtype_rule=None):
    """compares implementation results with the exact reference definition of `table[cmd]`"""
    def on_result(case, out, ans):
        if case.cmd not in table or out["status"] != "ok" or out["vis"][3] is None:
            return
        ins = vis_inputs(case)
        if len(set(len(i) for i in ins)) != 1:
            return
        if case.cmd == "FuzzyXOr" and len(ins) < 2:
            return
        if case.cmd == "FuzzySelectedUnion":
            k = case.params["NumberToConsider"]
            if not (isinstance(k, int) and 1 <= k <= len(ins)):
                return
        if in_range_only and any(v is not None and not (-1 <= v <= 1) for i in ins for v in i):
            return
        params = case.params
        if case.cmd == "FuzzySelectedUnion" and params.get("TruestOrFalsest") not in ("Truest", "Falsest"):
            # another spelling of the keyword (truest, FALSEST, " Truest"): the command may refuse it (not this oracle's business) - but where it accepts it,
            # the result is the mean of the k truest / falsest as the word says
            word = SPELLED.get(str(params.get("TruestOrFalsest")).strip().lower())
            if word is None:
                return
            params = dict(params, TruestOrFalsest=word)
            ctx.count("selected_union_spelling_accepted")
        f = table[case.cmd](params)
        exp = reference.cellwise(f, ins)
        if in_range_only:
            exp = [None if e is None else reference.clamp(e) for e in exp]
        got = vals_of(out)
        fd = first_diff(got, exp)
        if fd:
            ctx.fail("%s: cell %d is %r, the %s definition gives %s" % (case.cmd, fd[0], fd[1], what, fd[2]), case.describe())
        if dtype_rule:
            want = dtype_rule(case.cmd, case.params, ["i" if a.dtype.kind in "iu" else "f" for a in case.inputs])
            if out["vis"][1] != want:
                ctx.fail("%s: result element type %s, expected %s for inputs %r" % (case.cmd, out["vis"][1], want, [str(a.dtype) for a in case.inputs]), case.describe())
    return on_result


def oracle_commutative(ctx, cmds, max_perms=6):
    """same result, and success/failure alike, for every ordering of the inputs (weights permuted alongside)"""
    def on_result(case, out, ans):
        if case.cmd not in cmds or len(case.inputs) < 2:
            return
        n = len(case.inputs)
        if n <= 6:
            perms = list(itertools.permutations(range(n)))[1:]
            ctx.rng.shuffle(perms)
        else:
            # long input lists: random orderings (and the reversed one) instead of all n! of them
            perms = [tuple(reversed(range(n)))]
            while len(perms) < max_perms:
                q = list(range(n))
                ctx.rng.shuffle(q)
                if q != list(range(n)):
                    perms.append(tuple(q))
        for perm in perms[:max_perms]:
            params = dict(case.params)
            if "Weights" in params and len(params["Weights"]) == n:
                params["Weights"] = [params["Weights"][i] for i in perm]
            elif "Weights" in params:
                continue
            twin = Case(case.cmd, params, [case.inputs[i] for i in perm])
            out2 = eems.run_impl(twin)
            ctx.count("order_twins")
            # bit for bit where no rounding can depend on the order: commands that order their inputs themselves, and sums of binary fractions
            exact = case.cmd in ORDER_CANONICAL or eems.dyadic_case(case)
            if exact:
                ctx.count("order_twins_exact")
            d = same_outcome(out, out2, 0 if exact else TOL)
            if d:
                ctx.fail("%s: input order %r gives a different outcome (%s)" % (case.cmd, perm, d), {"case": case.describe(), "order": list(perm)})
                break
    return on_result


# ---------------------------------------------------------------- what a shape error says

_SHAPE_IN_TEXT = None


def shapes_named_in(text):
    """the shapes written out in an error text - "(3)", "(2, 3)", "(3,)", "()" - as tuples, in the order in which they are named"""
    global _SHAPE_IN_TEXT
    import re
    if _SHAPE_IN_TEXT is None:
        _SHAPE_IN_TEXT = re.compile(r"\(\s*((?:\d+\s*(?:,\s*\d+\s*)*,?)?)\s*\)")
    return [tuple(int(x) for x in m.group(1).replace(" ", "").split(",") if x) for m in _SHAPE_IN_TEXT.finditer(text or "")]


def oracle_shape_report(ctx):
    """mismatched shapes "are reported by their specific errors": the error that refuses inputs of several shapes names two shapes - two DIFFERENT ones (an
    error saying that (3) and (3) do not match reports nothing), both occurring among the inputs, the first of them the first input's.  Checked on what the
    exception carries (shape_a / shape_b) and on the text shown to the user; which of several offenders is named is not prescribed"""
    def on_result(case, out, ans):
        if out["status"] != "err" or out.get("cls") != "MixedArrayShapes":
            return
        shapes = [tuple(a.shape) for a in case.inputs]
        if len(set(shapes)) < 2:
            return
        ctx.count("shape_reports_checked")
        named = []
        ns = out.get("named_shapes")
        if ns is not None and all(isinstance(s, (tuple, list)) for s in ns):
            named.append(("the error's shape_a / shape_b", [tuple(s) for s in ns]))
        in_text = shapes_named_in(out.get("text"))
        if len(in_text) >= 2:
            named.append(("the error's text", in_text[:2]))
        for where, (a, b) in named:
            why = None
            if a == b:
                why = "the same shape twice"
            elif a not in shapes or b not in shapes:
                why = "a shape that none of the inputs has"
            elif a != shapes[0]:
                why = "first a shape other than the first input's"
            if why:
                ctx.fail("%s over inputs of shapes %r is refused with MixedArrayShapes, but %s names %r and %r: %s (%r)" % (
                    case.cmd, shapes, where, a, b, why, (out.get("text") or "").splitlines()[:1]), dict(case.describe(), shapes=[list(s) for s in shapes]))
                return
    return on_result


# ---------------------------------------------------------------- definitions at scale (fields of 10^5 .. some 10^6 cells)

def np_reference(cmd, params, arrays):
    """the definition of a fuzzy operator / arithmetic command written with plain numpy over whole fields (float64): (values, missing cells) - for fields far
    too large for the cell-by-cell exact reference; None when the definition gives no field (a weight sum of 0)"""
    data = [numpy.ma.getdata(a).astype(float) for a in arrays]
    miss = numpy.zeros(data[0].shape, dtype=bool)
    for a in arrays:
        miss = miss | numpy.ma.getmaskarray(a)
    n = len(data)
    with numpy.errstate(all="ignore"):
        if cmd in ("FuzzyOr", "Maximum"):
            v = numpy.maximum.reduce(data)
        elif cmd in ("FuzzyAnd", "Minimum"):
            v = numpy.minimum.reduce(data)
        elif cmd == "FuzzyNot":
            v = -data[0]
        elif cmd == "Copy":
            v = data[0]
        elif cmd == "Sum":
            v = numpy.add.reduce(data)
        elif cmd in ("FuzzyUnion", "Mean"):
            v = numpy.add.reduce(data) / n
        elif cmd == "Multiply":
            v = numpy.multiply.reduce(data)
        elif cmd == "AMinusB":
            v = data[0] - data[1]
        elif cmd == "ADividedByB":
            zero = data[1] == 0
            miss = miss | zero                      # division by zero yields a missing cell
            v = data[0] / numpy.where(zero, 1.0, data[1])
        elif cmd in ("WeightedSum", "WeightedMean", "FuzzyWeightedUnion"):
            w = [float(x) for x in params["Weights"]]
            v = numpy.add.reduce([x * d for x, d in zip(w, data)])
            if cmd != "WeightedSum":
                if sum(w) == 0:
                    return None
                v = v / sum(w)
        elif cmd in ("FuzzySelectedUnion", "FuzzyXOr"):
            s = numpy.sort(numpy.stack(data), axis=0)
            if cmd == "FuzzyXOr":
                t1, t2 = s[-1], s[-2]
                v = numpy.where(t1 <= -1, -1.0, t1 - (t1 - t2) * (t2 + 1) / numpy.where(t1 <= -1, 1.0, t1 + 1))
            else:
                k = params["NumberToConsider"]
                word = SPELLED[str(params["TruestOrFalsest"]).strip().lower()]
                v = (s[n - k:] if word == "Truest" else s[:k]).mean(axis=0)
        else:
            raise KeyError(cmd)
        if cmd.startswith("Fuzzy"):
            v = numpy.clip(v, -1.0, 1.0)
    return v, miss


def field_differs(result, ref, tol=TOL):
    """None, or a description of the first cell in which a result field differs from (values, missing cells): missing cells exactly, values within `tol`"""
    v, miss = ref
    if not isinstance(result, numpy.ndarray):
        return "the result is a %s, not an array" % type(result).__name__
    if result.shape != v.shape:
        return "the result has shape %r, the inputs %r" % (result.shape, v.shape)
    rm, rd = numpy.ma.getmaskarray(result), numpy.ma.getdata(result)
    if not numpy.array_equal(rm, miss):
        i = int(numpy.flatnonzero((rm != miss).ravel())[0])
        return "cell %d is %s in the result (%r); by the definition it is %s" % (
            i, "missing" if rm.ravel()[i] else "present", rd.ravel()[i].item(), "missing" if miss.ravel()[i] else "present with value %r" % v.ravel()[i].item())
    with numpy.errstate(all="ignore"):
        ok = (numpy.abs(rd - v) <= tol * numpy.maximum(1.0, numpy.abs(v))) | miss
    if not ok.all():
        i = int(numpy.flatnonzero(~ok.ravel())[0])
        return "cell %d is %r; the definition gives %r" % (i, rd.ravel()[i].item(), v.ravel()[i].item())
    return None


def combine(*oracles):
    def on_result(case, out, ans):
        for o in oracles:
            o(case, out, ans)
    return on_result


def focus_search(ctx, model, gen_fn, oracle, factor=10):
    """failing-input search after a broken correspondence: enlarged budget on the commands involved"""
    if ctx.disagreements and not ctx.failures:
        cmds = sorted(set(d["case"]["cmd"] for d in ctx.disagreements if isinstance(d.get("case"), dict) and "cmd" in d["case"]))
        keep = list(ctx.disagreements)
        if cmds:
            eems.run_stream(ctx, model, gen_fn(cmds, factor), "exec:focus", on_result=oracle)
        ctx.disagreements = keep
        ctx.count("focus_search_runs")
