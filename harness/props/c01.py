"""C01 — every command executes exactly once, fed by its finished dependencies.

proof:          lean/MPilot/Props/C01.lean  (memoised pull evaluation: at most once, at least once, dependencies first, idempotent re-run)
correspondence: real Program.from_source + run()/result accesses on random DAGs (references through direct parameters, lists,
                nested lists; every textual order for small graphs) with logging stub bodies vs the model's run loop: full event log
oracles:        execution count per command = 1; every read returns the finished producer's final result; re-running adds nothing
"""
import itertools

from .. import common, prog, progrun, graphs
from ..progrun import Scenario


def decl_classes():
    m = prog.testlib()
    return [m.N, m.NoneResult, m.D, m.F, m.S, m.X, m.NoOut, m.W]


def scenarios(ctx):
    rng = ctx.rng
    out = []
    # every textual order of small graphs
    for n in (1, 2, 3, 4):
        for _ in range(ctx.budget(1, 12)):
            cmds = graphs.dag_commands(rng, n)
            perms = list(itertools.permutations(cmds))
            if len(perms) > 12 and not ctx.thorough:
                perms = rng.sample(perms, 12)
            for p in perms:
                out.append(Scenario(list(p), ops=rand_ops(rng, cmds)))
    for _ in range(ctx.budget(20, 1500)):
        n = rng.randrange(5, 13)
        cmds = graphs.dag_commands(rng, n)
        out.append(Scenario(graphs.shuffled(rng, cmds), ops=rand_ops(rng, cmds), blank={rng.randrange(n): rng.randrange(1, 4)}))
    for _ in range(ctx.budget(2, 40)):
        n = rng.choice([20, 40, 60])
        cmds = graphs.dag_commands(rng, n, chain=True)
        out.append(Scenario(graphs.shuffled(rng, cmds), ops=[("run",), ("run",)]))
    # histories with a run stopped by a failure at execution time whose cause is then removed: the next run must complete the program
    for _ in range(ctx.budget(30, 1200)):
        n = rng.randrange(2, 9)
        cmds = graphs.dag_commands(rng, n)
        k = rng.randrange(n)
        res, cmd, args = cmds[k]
        cmds[k] = (res, cmd, list(args) + [("Fail", rng.choice(["flag", "flag", "flagvalue"]))])
        names = [c[0] for c in cmds]
        ops = [("run",)] if rng.random() < 0.8 else [("result", rng.choice(names))]
        if rng.random() < 0.3:
            ops.append(("run",))
        ops.append(("flag", 0))
        ops += [("run",)] + [(("run",) if rng.random() < 0.5 else ("result", rng.choice(names))) for _ in range(rng.randrange(0, 3))]
        out.append(Scenario(graphs.shuffled(rng, cmds), ops=ops))
    # a run stopped by a failure, then a referenced command taken out of the program (del program.commands[name]) and added again under the same name with
    # other references, the cause removed, run again: consumers that had not run are fed by the command that carries the name *now*
    for _ in range(ctx.budget(25, 800)):
        n = rng.randrange(3, 9)
        cmds = graphs.dag_commands(rng, n, cmd_pool=("N", "N", "N", "X"))
        consumers = {}
        for c in cmds:
            for d in set(graphs.refs_of(c)):
                consumers.setdefault(d, []).append(c[0])
        cands = [c[0] for c in cmds if c[0] in consumers]
        if not cands:
            continue
        x = rng.choice(cands)
        xi = [c[0] for c in cmds].index(x)
        # the failing command: the replaced one itself, or something it feeds (so that its consumers cannot all have run)
        f = rng.choice([x] + consumers[x])
        fi = [c[0] for c in cmds].index(f)
        res, cmd, args = cmds[fi]
        cmds[fi] = (res, cmd, list(args) + [("Fail", "flag")])
        # the replacement may reference only commands numbered below x (no loop can arise), other ones than before where possible
        newdeps = [cmds[j][0] for j in rng.sample(range(xi), rng.randrange(0, min(xi, 3) + 1))] if xi else []
        repl = graphs.make_command(rng, x, "N", newdeps)
        ops = [("run",), ("del", x), ("add", repl), ("flag", 0), ("run",)]
        if rng.random() < 0.4:
            ops.append(("result", rng.choice([c[0] for c in cmds])))
        sc_ = Scenario(graphs.shuffled(rng, cmds), ops=ops)
        sc_.replaced = x
        out.append(sc_)
    # the program deep-copied (the original dropped) before, between and after runs: the copy is the same program, with what has finished
    for _ in range(ctx.budget(20, 600)):
        n = rng.randrange(2, 9)
        cmds = graphs.dag_commands(rng, n)
        ops = rand_ops(rng, cmds)
        for _k in range(rng.randrange(1, 3)):
            ops.insert(rng.randrange(len(ops) + 1), ("copy",))
        if rng.random() < 0.5:
            ops.insert(0, ("copy",))
        out.append(Scenario(graphs.shuffled(rng, cmds), ops=ops))
    # consumers added through the API with the referenced commands given as objects (directly, in lists, in nested lists), before anything has run
    for _ in range(ctx.budget(20, 600)):
        n = rng.randrange(1, 6)
        cmds = graphs.dag_commands(rng, n)
        names = [c[0] for c in cmds]
        ops = []
        for k in range(rng.randrange(1, 4)):
            deps = [rng.choice(names) for _d in range(rng.randrange(1, 4))]
            res, cmd, args = graphs.make_command(rng, "added%d" % k, "N", deps)
            ops.append(("addobj", (res, cmd, args)))
            names.append(res)
        ops.append(("run",))
        if rng.random() < 0.5:
            ops.append(("result", rng.choice(names)))
        out.append(Scenario(graphs.shuffled(rng, cmds), ops=ops))
    return out


def rand_ops(rng, cmds):
    names = [c[0] for c in cmds]
    ops = []
    if rng.random() < 0.25:
        ops.append(("result", rng.choice(names)))      # a result read before any run()
    ops.append(("run",))
    for _ in range(rng.randrange(0, 4)):
        ops.append(("run",) if rng.random() < 0.4 else ("result", rng.choice(names)))
    return ops


def oracle_recovery(ctx, sc, res):
    """a run stopped by an execution-time failure, the cause removed, then run(): everything completes exactly once, nothing that had
    completed before runs again, and the failing command's body is entered again (it did not count as executed)"""
    names = [c[0] for c in sc.commands]
    cut = sc.ops.index(("flag", 0))
    if res["load"] != "ok" or any(o != "ok" for o in res["ops"][cut:]):
        ctx.fail("after the cause of the failure was removed the program still fails: load=%s ops=%s" % (res["load"], res["ops"]), sc.describe())
        return
    done = [e[1:] for e in res["log"] if e[0] == "-"]
    for n in names:
        if done.count(n) != 1:
            ctx.fail("command %s completed %d times over a failed run followed by a successful one (expected exactly once)" % (n, done.count(n)), sc.describe())
            return
    for consumer, producer, fin_before, is_final in res["reads"]:
        if not is_final:
            ctx.fail("%s read a result of %s that is not that command's finished result" % (consumer, producer), sc.describe())
            return
    if sorted(res["finished"]) != sorted(names):
        ctx.fail("after the successful run() the commands %r are not finished" % sorted(set(names) - set(res["finished"])), sc.describe())


def oracle_replaced(ctx, sc, res):
    """after del/add of a command under the same name and a successful run: every command of the program now has completed, none twice since the
    replacement, and everything read after it came from the command that carries the name now"""
    names = [c[0] for c in sc.commands]
    if res["load"] != "ok" or any(o != "ok" for o in res["ops"][1:]):
        ctx.fail("a model whose failing cause was removed and one command replaced still fails: load=%s ops=%s" % (res["load"], res["ops"]), sc.describe())
        return
    for consumer, producer, fin_before, is_final in res["reads"]:
        if not is_final:
            ctx.fail("%s read a result of %s that is not the finished result of the command carrying that name in the program" % (consumer, producer), sc.describe())
            return
    done = [e[1:] for e in res["log"] if e[0] == "-"]
    for n in names:
        if n != sc.replaced and done.count(n) != 1:
            ctx.fail("command %s completed %d times over a failed run, a replacement of %s and a successful run (expected exactly once)" % (n, done.count(n), sc.replaced), sc.describe())
            return
    if sorted(res["finished"]) != sorted(names):
        ctx.fail("after the successful run() the commands %r are not finished" % sorted(set(names) - set(res["finished"])), sc.describe())


def oracle(ctx, sc, res):
    if getattr(sc, "replaced", None) is not None:
        return oracle_replaced(ctx, sc, res)
    if ("flag", 0) in sc.ops:
        return oracle_recovery(ctx, sc, res)
    if res["load"] != "ok" or any(o != "ok" for o in res["ops"]):
        ctx.fail("an acyclic well-formed model failed: load=%s ops=%s" % (res["load"], res["ops"]), sc.describe())
        return
    names = [c[0] for c in sc.commands] + [o[1][0] for o in sc.ops if o[0] in ("add", "addobj")]
    starts = [e[1:] for e in res["log"] if e[0] == "+"]
    did_run = any(o[0] == "run" for o in sc.ops)
    for n in names:
        k = starts.count(n)
        if k > 1 or (did_run and k != 1):
            ctx.fail("command %s executed %d times (expected exactly once)" % (n, k), sc.describe())
            return
    # fed by finished dependencies: a read returns the producer's final result, and the producer's execution lies before the consumer's exit
    for consumer, producer, fin_before, is_final in res["reads"]:
        if not is_final:
            ctx.fail("%s read a result of %s that is not that command's finished result" % (consumer, producer), sc.describe())
            return
    pos = {e: i for i, e in enumerate(res["log"])}
    for (name, _, _), cmd in zip(sc.commands, sc.commands):
        for d in set(graphs.refs_of(cmd)):
            if "+" + name in pos and ("-" + d not in pos or not pos["-" + d] < pos.get("-" + name, 10 ** 9)):
                ctx.fail("%s finished without its dependency %s having finished first" % (name, d), sc.describe())
                return
    if did_run and sorted(res["finished"]) != sorted(names):
        ctx.fail("after run() the commands %r are not finished" % sorted(set(names) - set(res["finished"])), sc.describe())


TYPED_SRC = '''
from mpilot import params
from mpilot.commands import Command

RETURNED = {}     # result name -> the object its body returned
RUNS = []         # result names, in execution order
READS = []        # (consumer, the object it was handed)


class Five(Command):
    """plug-in style producer (no declared output): any consumer may read it; typed consumers check the finished value"""
    inputs = {}

    def execute(self, **kw):
        RUNS.append(self.result_name)
        RETURNED[self.result_name] = v = 5
        return v


class Word(Command):
    inputs = {}

    def execute(self, **kw):
        RUNS.append(self.result_name)
        RETURNED[self.result_name] = v = "12"
        return v


class _Reader(Command):
    output = params.BooleanParameter()

    def execute(self, **kw):
        RUNS.append(self.result_name)
        x = kw["X"]
        for c in (x if isinstance(x, list) else [x]):
            READS.append((self.result_name, c.result_name, c.result))
        RETURNED[self.result_name] = v = True
        return v


class AsNum(_Reader):
    inputs = {"X": params.ResultParameter(params.NumberParameter())}


class AsStr(_Reader):
    inputs = {"X": params.ResultParameter(params.StringParameter())}


class AsAny(_Reader):
    inputs = {"X": params.ResultParameter()}


class Collect(_Reader):
    inputs = {"X": params.ListParameter(params.ResultParameter())}
'''


def typed_consumers(ctx):
    """one result read by consumers that declare different types for it (number, text, anything, a list): each is handed the very object the
    producer returned, the producer runs once, and its stored result stays that object - through repeated runs and reads, in every file order"""
    import sys, types, itertools
    from mpilot.program import Program
    name = "mpverif_typed"
    if name not in sys.modules:
        m = types.ModuleType(name)
        sys.modules[name] = m
        exec(compile(TYPED_SRC, name, "exec"), m.__dict__)
    m = sys.modules[name]
    rng = ctx.rng
    lines = ["V = Five()", "W = Word()", "A = AsStr(X = V)", "B = AsNum(X = V)", "C = AsAny(X = V)", "D = Collect(X = [V, W, V])", "E = AsNum(X = W)", "F = AsStr(X = W)"]
    for i in range(ctx.budget(12, 300)):
        order = list(lines)
        rng.shuffle(order)
        src = "\n".join(order) + "\n"
        m.RETURNED.clear(); del m.RUNS[:]; del m.READS[:]
        ops = ["run"] + [rng.choice(["run", "read"]) for _ in range(rng.randrange(0, 3))]
        try:
            p = Program.from_source(src, libraries=(name,))
            for op in ops:
                if op == "run":
                    p.run()
                else:
                    p.commands[rng.choice("VWABCDEF")].result
            outcome = "ok"
        except Exception as e:
            outcome = progrun.classify(e)
            p = locals().get("p")
        ctx.case("typed " + src + repr(ops), sample=None)
        ctx.count("typed_consumer_cases")
        desc = {"source": src, "ops": ops}
        if outcome != "ok":
            ctx.fail("a well-typed model with differently typed consumers of one result failed: %s" % outcome, desc)
            continue
        for n in "VWABCDEF":
            if m.RUNS.count(n) != 1:
                ctx.fail("command %s executed %d times (expected exactly once)" % (n, m.RUNS.count(n)), desc)
                break
            if p.commands[n]._result is not m.RETURNED[n]:
                ctx.fail("the stored result of %s is %r, its body returned %r: something replaced it" % (n, p.commands[n]._result, m.RETURNED[n]), desc)
                break
        else:
            for consumer, producer, got in m.READS:
                if got is not m.RETURNED[producer]:
                    ctx.fail("%s was handed %r as the result of %s, whose body returned %r" % (consumer, got, producer, m.RETURNED[producer]), desc)
                    break


def run(ctx):
    ctx.check_proofs(["MPilot.Props.C01", "MPilot.Props.C01Hist"])
    model = common.Model()
    scs = scenarios(ctx)
    classes = decl_classes()
    answers = model.ask([sc.protocol(classes) for sc in scs])
    for sc, ans in zip(scs, answers):
        res = progrun.run_impl(sc)
        ctx.case(sc.source + repr(sc.ops), sample={"source": sc.source[:600], "ops": [list(o) for o in sc.ops], "impl": progrun.impl_text(res)[:300], "model": ans[:300]})
        ctx.count("n_commands:%02d" % min(len(sc.commands), 13))
        ctx.count("ops:%d" % len(sc.ops))
        d = progrun.compare(res, ans)
        if d:
            ctx.disagree("run-loop", sc.describe(), d[0][:600], d[1][:600])
        oracle(ctx, sc, res)
    typed_consumers(ctx)
    return ctx.finish(
        rule="scenarios = (acyclic graph over opaque logging commands with references through direct parameters, lists and nested lists, "
             "repeated references, fan-in <= 5; textual order: every permutation for <= 3 commands, sampled above; chains of 20-60; "
             "tail of run()/result accesses incl. a result read before the first run); distinct by source text + ops",
        explanation="theorems in Props/C01.lean hold for the model's run loop for every acyclic program and every op sequence; the event log "
                    "(execute entry/exit order) of the real Program on each scenario is compared with the model's; counting oracles run on the implementation")


def replay(path):
    import json
    print(json.dumps(json.load(open(path)), indent=1)[:6000])
    return 0
