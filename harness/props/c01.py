"""C01 — every command executes exactly once, fed by its finished dependencies.

proof:          lean/MPilot/Props/C01.lean  (memoised pull evaluation: at most once, at least once, dependencies first, idempotent re-run)
correspondence: real Program.from_source + run()/result accesses on random DAGs (references through direct parameters, lists,
                nested lists; every textual order for small graphs) with logging stub bodies vs the model's run loop: full event log
oracles:        execution count per command = 1; every read returns the finished producer's final result; re-running adds nothing
"""
import itertools

from .. import common, prog, progrun, graphs
from ..progrun import Scenario


def decl_classes():
    m = prog.testlib()
    return [m.N, m.NoneResult, m.D, m.F, m.S, m.X, m.NoOut, m.W]


def scenarios(ctx):
    rng = ctx.rng
    out = []
    # every textual order of small graphs
    for n in (1, 2, 3, 4):
        for _ in range(ctx.budget(1, 12)):
            cmds = graphs.dag_commands(rng, n)
            perms = list(itertools.permutations(cmds))
            if len(perms) > 12 and not ctx.thorough:
                perms = rng.sample(perms, 12)
            for p in perms:
                out.append(Scenario(list(p), ops=rand_ops(rng, cmds)))
    for _ in range(ctx.budget(20, 1500)):
        n = rng.randrange(5, 13)
        cmds = graphs.dag_commands(rng, n)
        out.append(Scenario(graphs.shuffled(rng, cmds), ops=rand_ops(rng, cmds), blank={rng.randrange(n): rng.randrange(1, 4)}))
    for _ in range(ctx.budget(2, 40)):
        n = rng.choice([20, 40, 60])
        cmds = graphs.dag_commands(rng, n, chain=True)
        out.append(Scenario(graphs.shuffled(rng, cmds), ops=[("run",), ("run",)]))
    # histories with a run stopped by a failure at execution time whose cause is then removed: the next run must complete the program
    for _ in range(ctx.budget(30, 1200)):
        n = rng.randrange(2, 9)
        cmds = graphs.dag_commands(rng, n)
        k = rng.randrange(n)
        res, cmd, args = cmds[k]
        cmds[k] = (res, cmd, list(args) + [("Fail", rng.choice(["flag", "flag", "flagvalue"]))])
        names = [c[0] for c in cmds]
        ops = [("run",)] if rng.random() < 0.8 else [("result", rng.choice(names))]
        if rng.random() < 0.3:
            ops.append(("run",))
        ops.append(("flag", 0))
        ops += [("run",)] + [(("run",) if rng.random() < 0.5 else ("result", rng.choice(names))) for _ in range(rng.randrange(0, 3))]
        out.append(Scenario(graphs.shuffled(rng, cmds), ops=ops))
    return out


def rand_ops(rng, cmds):
    names = [c[0] for c in cmds]
    ops = []
    if rng.random() < 0.25:
        ops.append(("result", rng.choice(names)))      # a result read before any run()
    ops.append(("run",))
    for _ in range(rng.randrange(0, 4)):
        ops.append(("run",) if rng.random() < 0.4 else ("result", rng.choice(names)))
    return ops


def oracle_recovery(ctx, sc, res):
    """a run stopped by an execution-time failure, the cause removed, then run(): everything completes exactly once, nothing that had
    completed before runs again, and the failing command's body is entered again (it did not count as executed)"""
    names = [c[0] for c in sc.commands]
    cut = sc.ops.index(("flag", 0))
    if res["load"] != "ok" or any(o != "ok" for o in res["ops"][cut:]):
        ctx.fail("after the cause of the failure was removed the program still fails: load=%s ops=%s" % (res["load"], res["ops"]), sc.describe())
        return
    done = [e[1:] for e in res["log"] if e[0] == "-"]
    for n in names:
        if done.count(n) != 1:
            ctx.fail("command %s completed %d times over a failed run followed by a successful one (expected exactly once)" % (n, done.count(n)), sc.describe())
            return
    for consumer, producer, fin_before, is_final in res["reads"]:
        if not is_final:
            ctx.fail("%s read a result of %s that is not that command's finished result" % (consumer, producer), sc.describe())
            return
    if sorted(res["finished"]) != sorted(names):
        ctx.fail("after the successful run() the commands %r are not finished" % sorted(set(names) - set(res["finished"])), sc.describe())


def oracle(ctx, sc, res):
    if ("flag", 0) in sc.ops:
        return oracle_recovery(ctx, sc, res)
    if res["load"] != "ok" or any(o != "ok" for o in res["ops"]):
        ctx.fail("an acyclic well-formed model failed: load=%s ops=%s" % (res["load"], res["ops"]), sc.describe())
        return
    names = [c[0] for c in sc.commands]
    starts = [e[1:] for e in res["log"] if e[0] == "+"]
    did_run = any(o[0] == "run" for o in sc.ops)
    for n in names:
        k = starts.count(n)
        if k > 1 or (did_run and k != 1):
            ctx.fail("command %s executed %d times (expected exactly once)" % (n, k), sc.describe())
            return
    # fed by finished dependencies: a read returns the producer's final result, and the producer's execution lies before the consumer's exit
    for consumer, producer, fin_before, is_final in res["reads"]:
        if not is_final:
            ctx.fail("%s read a result of %s that is not that command's finished result" % (consumer, producer), sc.describe())
            return
    pos = {e: i for i, e in enumerate(res["log"])}
    for (name, _, _), cmd in zip(sc.commands, sc.commands):
        for d in set(graphs.refs_of(cmd)):
            if "+" + name in pos and ("-" + d not in pos or not pos["-" + d] < pos.get("-" + name, 10 ** 9)):
                ctx.fail("%s finished without its dependency %s having finished first" % (name, d), sc.describe())
                return
    if did_run and sorted(res["finished"]) != sorted(names):
        ctx.fail("after run() the commands %r are not finished" % sorted(set(names) - set(res["finished"])), sc.describe())


def run(ctx):
    ctx.check_proofs(["MPilot.Props.C01"])
    model = common.Model()
    scs = scenarios(ctx)
    classes = decl_classes()
    answers = model.ask([sc.protocol(classes) for sc in scs])
    for sc, ans in zip(scs, answers):
        res = progrun.run_impl(sc)
        ctx.case(sc.source + repr(sc.ops), sample={"source": sc.source[:600], "ops": [list(o) for o in sc.ops], "impl": progrun.impl_text(res)[:300], "model": ans[:300]})
        ctx.count("n_commands:%02d" % min(len(sc.commands), 13))
        ctx.count("ops:%d" % len(sc.ops))
        d = progrun.compare(res, ans)
        if d:
            ctx.disagree("run-loop", sc.describe(), d[0][:600], d[1][:600])
        oracle(ctx, sc, res)
    return ctx.finish(
        rule="scenarios = (acyclic graph over opaque logging commands with references through direct parameters, lists and nested lists, "
             "repeated references, fan-in <= 5; textual order: every permutation for <= 3 commands, sampled above; chains of 20-60; "
             "tail of run()/result accesses incl. a result read before the first run); distinct by source text + ops",
        explanation="theorems in Props/C01.lean hold for the model's run loop for every acyclic program and every op sequence; the event log "
                    "(execute entry/exit order) of the real Program on each scenario is compared with the model's; counting oracles run on the implementation")


def replay(path):
    import json
    print(json.dumps(json.load(open(path)), indent=1)[:6000])
    return 0
