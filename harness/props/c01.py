"""C01 — every command executes exactly once, fed by its finished dependencies.

proof:          lean/MPilot/Props/C01.lean  (memoised pull evaluation: at most once, at least once, dependencies first, idempotent re-run)
correspondence: real Program.from_source + run()/result accesses on random DAGs (references through direct parameters, lists,
                nested lists; every textual order for small graphs) with logging stub bodies vs the model's run loop: full event log
oracles:        execution count per command = 1; every read returns the finished producer's final result; re-running adds nothing;
                every command reads exactly the results it names (result names differing only in letter case and other look-alike spellings);
                text in the undeclared arguments of a plug-in command is no reference, whatever it spells; a ladder of result sizes up to
                millions of cells (run, every result read again, run again, a consumer added later: nothing executes a second time)
"""
import itertools

from .. import common, prog, progrun, graphs
from ..progrun import Scenario, Name


def decl_classes():
    m = prog.testlib()
    return [m.N, m.NoneResult, m.D, m.F, m.S, m.X, m.NoOut, m.W]


def scenarios(ctx):
    rng = ctx.rng
    out = []
    # every textual order of small graphs
    for n in (1, 2, 3, 4):
        for _ in range(ctx.budget(1, 12)):
            cmds = graphs.dag_commands(rng, n)
            perms = list(itertools.permutations(cmds))
            if len(perms) > 12 and not ctx.thorough:
                perms = rng.sample(perms, 12)
            for p in perms:
                out.append(Scenario(list(p), ops=rand_ops(rng, cmds)))
    for _ in range(ctx.budget(20, 1500)):
        n = rng.randrange(5, 13)
        cmds = graphs.dag_commands(rng, n)
        out.append(Scenario(graphs.shuffled(rng, cmds), ops=rand_ops(rng, cmds), blank={rng.randrange(n): rng.randrange(1, 4)}))
    for _ in range(ctx.budget(2, 40)):
        n = rng.choice([20, 40, 60])
        cmds = graphs.dag_commands(rng, n, chain=True)
        out.append(Scenario(graphs.shuffled(rng, cmds), ops=[("run",), ("run",)]))
    # histories with a run stopped by a failure at execution time whose cause is then removed: the next run must complete the program
    for _ in range(ctx.budget(30, 1200)):
        n = rng.randrange(2, 9)
        cmds = graphs.dag_commands(rng, n)
        k = rng.randrange(n)
        res, cmd, args = cmds[k]
        cmds[k] = (res, cmd, list(args) + [("Fail", rng.choice(["flag", "flag", "flagvalue"]))])
        names = [c[0] for c in cmds]
        ops = [("run",)] if rng.random() < 0.8 else [("result", rng.choice(names))]
        if rng.random() < 0.3:
            ops.append(("run",))
        ops.append(("flag", 0))
        ops += [("run",)] + [(("run",) if rng.random() < 0.5 else ("result", rng.choice(names))) for _ in range(rng.randrange(0, 3))]
        out.append(Scenario(graphs.shuffled(rng, cmds), ops=ops))
    # a run stopped by a failure, then a referenced command taken out of the program (del program.commands[name]) and added again under the same name with
    # other references, the cause removed, run again: consumers that had not run are fed by the command that carries the name *now*
    for _ in range(ctx.budget(25, 800)):
        n = rng.randrange(3, 9)
        cmds = graphs.dag_commands(rng, n, cmd_pool=("N", "N", "N", "X"))
        consumers = {}
        for c in cmds:
            for d in set(graphs.refs_of(c)):
                consumers.setdefault(d, []).append(c[0])
        cands = [c[0] for c in cmds if c[0] in consumers]
        if not cands:
            continue
        x = rng.choice(cands)
        xi = [c[0] for c in cmds].index(x)
        # the failing command: the replaced one itself, or something it feeds (so that its consumers cannot all have run)
        f = rng.choice([x] + consumers[x])
        fi = [c[0] for c in cmds].index(f)
        res, cmd, args = cmds[fi]
        cmds[fi] = (res, cmd, list(args) + [("Fail", "flag")])
        # the replacement may reference only commands numbered below x (no loop can arise), other ones than before where possible
        newdeps = [cmds[j][0] for j in rng.sample(range(xi), rng.randrange(0, min(xi, 3) + 1))] if xi else []
        repl = graphs.make_command(rng, x, "N", newdeps)
        ops = [("run",), ("del", x), ("add", repl), ("flag", 0), ("run",)]
        if rng.random() < 0.4:
            ops.append(("result", rng.choice([c[0] for c in cmds])))
        sc_ = Scenario(graphs.shuffled(rng, cmds), ops=ops)
        sc_.replaced = x
        out.append(sc_)
    # the program deep-copied (the original dropped) before, between and after runs: the copy is the same program, with what has finished
    for _ in range(ctx.budget(20, 600)):
        n = rng.randrange(2, 9)
        cmds = graphs.dag_commands(rng, n)
        ops = rand_ops(rng, cmds)
        for _k in range(rng.randrange(1, 3)):
            ops.insert(rng.randrange(len(ops) + 1), ("copy",))
        if rng.random() < 0.5:
            ops.insert(0, ("copy",))
        out.append(Scenario(graphs.shuffled(rng, cmds), ops=ops))
    # consumers added through the API with the referenced commands given as objects (directly, in lists, in nested lists), before anything has run
    for _ in range(ctx.budget(20, 600)):
        n = rng.randrange(1, 6)
        cmds = graphs.dag_commands(rng, n)
        names = [c[0] for c in cmds]
        ops = []
        for k in range(rng.randrange(1, 4)):
            deps = [rng.choice(names) for _d in range(rng.randrange(1, 4))]
            res, cmd, args = graphs.make_command(rng, "added%d" % k, "N", deps)
            ops.append(("addobj", (res, cmd, args)))
            names.append(res)
        ops.append(("run",))
        if rng.random() < 0.5:
            ops.append(("result", rng.choice(names)))
        out.append(Scenario(graphs.shuffled(rng, cmds), ops=ops))
    out += extra_input_scenarios(ctx) + spelling_scenarios(ctx)
    return out


def renamed(cmds, mapping):
    """the same commands under other result names (references follow)"""
    def sub(v):
        if isinstance(v, Name):
            return Name(mapping.get(v.s, v.s))
        return [sub(x) for x in v] if isinstance(v, list) else v
    return [(mapping.get(r, r), c, [(n, sub(v)) for n, v in args]) for r, c, args in cmds]


def extra_input_scenarios(ctx):
    """A command that accepts undeclared arguments (allow_extra_inputs: plug-ins with free-form options) is handed them as written; they are text, not
    references - also when the text happens to spell the name of a result (a label, a title, a list of layer names).  Such a model is the acyclic graph
    of its *declared* references: run() executes every command once, including the ones whose name some option spells and which nothing references"""
    rng = ctx.rng
    out = []

    def extras(names, k):
        forms = []
        for _ in range(k):
            nm = rng.choice(names)
            forms.append(rng.choice([Name(nm), nm, [Name(nm), Name(rng.choice(names))], [Name(nm), "no such result", 5], [[Name(nm)], [Name(rng.choice(names)), 2.5]],
                                     {"layer": nm, nm: "x"}, [nm]]))
        keys = rng.sample(["Title", "Layers", "Label", "Scale", "Legend", "Group"], k)
        return list(zip(keys, forms))
    # directed, every run: the options name commands nothing references (they are started by run() itself or not at all), commands that are referenced
    # elsewhere, the command's own consumer and the command itself (text cannot close a loop) - in every file order
    base = [("raw", "N", []), ("summary", "N", [("One", Name("raw"))]), ("elevation", "W", [("One", Name("raw"))]), ("user", "N", [("One", Name("note"))])]
    for xargs in ([("One", Name("raw")), ("Title", Name("summary")), ("Layers", [Name("elevation"), Name("slope")]), ("Scale", 5)],
                  [("Title", "summary"), ("One", Name("raw"))],
                  [("Layers", [[Name("elevation")], [Name("summary"), Name("raw")]]), ("Many", [Name("raw")])],
                  [("Legend", {"summary": "elevation", "x": "summary"})],
                  [("Title", Name("user")), ("Label", Name("note")), ("Many", [Name("raw"), Name("raw")])]):
        cmds = base + [("note", "X", xargs)]
        for p in rng.sample(list(itertools.permutations(cmds)), ctx.budget(2, 120)):
            out.append(Scenario(list(p), ops=rand_ops(rng, cmds)))
    for _ in range(ctx.budget(15, 600)):
        n = rng.randrange(2, 9)
        cmds = graphs.dag_commands(rng, n, cmd_pool=("N", "X", "X", "W"))
        names = [c[0] for c in cmds]
        if not any(c[1] == "X" for c in cmds):
            k = rng.randrange(n)
            cmds[k] = (cmds[k][0], "X", cmds[k][2])
        cmds = [(r, c, list(a) + (extras(names, rng.randrange(1, 4)) if c == "X" else [])) for r, c, a in cmds]
        out.append(Scenario(graphs.shuffled(rng, cmds), ops=rand_ops(rng, cmds)))
    return out


SPELLINGS = (["temp", "Temp", "TEMP", "tEmp", "temP"], ["x", "X", "x_", "_x", "X_"], ["Elev", "ELEV", "elev", "Elev2", "ELEV2", "elev_2"], ["ab", "aB", "Ab", "AB", "a_b", "A_B"])


def spelling_scenarios(ctx):
    """Result names are exact: `Temp`, `TEMP` and `temp` are three results (the loader accepts them side by side).  The same graphs as above with names that
    differ only in letter case, in a trailing / leading underscore or digit: every command reads the results it names and no look-alike"""
    rng = ctx.rng
    out = []
    # directed: a producer per spelling, a consumer of each single one and one of all of them in a list - in many file orders
    for fam in SPELLINGS:
        prods = [(nm, "N", []) for nm in fam[:3]]
        cons = [("use%d" % i, "N", [("One", Name(nm))]) for i, nm in enumerate(fam[:3])]
        allc = [("all", "N", [("Many", [Name(nm) for nm in fam[:3]]), ("Nested", [[Name(fam[1])], [Name(fam[0])]])])]
        cmds = prods + cons + allc
        for _ in range(ctx.budget(2, 60)):
            out.append(Scenario(graphs.shuffled(rng, cmds), ops=rand_ops(rng, cmds)))
        # a later command added through the API names one of them too
        late = ("late", "N", [("One", Name(fam[0])), ("Many", [Name(fam[2]), Name(fam[1])])])
        out.append(Scenario(graphs.shuffled(rng, prods + cons), ops=[("run",), ("add", late), ("run",), ("result", fam[0])]))
    for _ in range(ctx.budget(15, 600)):
        n = rng.randrange(2, 7)
        cmds = graphs.dag_commands(rng, n, cmd_pool=("N", "N", "X", "W"))
        fam = rng.choice(SPELLINGS)
        pool = list(fam) if n <= len(fam) else list(fam) + ["c%d" % i for i in range(n)]
        mapping = dict(zip([c[0] for c in cmds], rng.sample(pool[:max(n, len(fam))], n)))
        cmds = renamed(cmds, mapping)
        for p in ([graphs.shuffled(rng, cmds) for _o in range(2)] if n > 3 else rng.sample(list(itertools.permutations(cmds)), 2)):
            out.append(Scenario(list(p), ops=rand_ops(rng, cmds)))
    return out


def rand_ops(rng, cmds):
    names = [c[0] for c in cmds]
    ops = []
    if rng.random() < 0.25:
        ops.append(("result", rng.choice(names)))      # a result read before any run()
    ops.append(("run",))
    for _ in range(rng.randrange(0, 4)):
        ops.append(("run",) if rng.random() < 0.4 else ("result", rng.choice(names)))
    return ops


def oracle_recovery(ctx, sc, res):
    """a run stopped by an execution-time failure, the cause removed, then run(): everything completes exactly once, nothing that had
    completed before runs again, and the failing command's body is entered again (it did not count as executed)"""
    names = [c[0] for c in sc.commands]
    cut = sc.ops.index(("flag", 0))
    if res["load"] != "ok" or any(o != "ok" for o in res["ops"][cut:]):
        ctx.fail("after the cause of the failure was removed the program still fails: load=%s ops=%s" % (res["load"], res["ops"]), sc.describe())
        return
    done = [e[1:] for e in res["log"] if e[0] == "-"]
    for n in names:
        if done.count(n) != 1:
            ctx.fail("command %s completed %d times over a failed run followed by a successful one (expected exactly once)" % (n, done.count(n)), sc.describe())
            return
    for consumer, producer, fin_before, is_final in res["reads"]:
        if not is_final:
            ctx.fail("%s read a result of %s that is not that command's finished result" % (consumer, producer), sc.describe())
            return
    if sorted(res["finished"]) != sorted(names):
        ctx.fail("after the successful run() the commands %r are not finished" % sorted(set(names) - set(res["finished"])), sc.describe())


def oracle_replaced(ctx, sc, res):
    """after del/add of a command under the same name and a successful run: every command of the program now has completed, none twice since the
    replacement, and everything read after it came from the command that carries the name now"""
    names = [c[0] for c in sc.commands]
    if res["load"] != "ok" or any(o != "ok" for o in res["ops"][1:]):
        ctx.fail("a model whose failing cause was removed and one command replaced still fails: load=%s ops=%s" % (res["load"], res["ops"]), sc.describe())
        return
    for consumer, producer, fin_before, is_final in res["reads"]:
        if not is_final:
            ctx.fail("%s read a result of %s that is not the finished result of the command carrying that name in the program" % (consumer, producer), sc.describe())
            return
    done = [e[1:] for e in res["log"] if e[0] == "-"]
    for n in names:
        if n != sc.replaced and done.count(n) != 1:
            ctx.fail("command %s completed %d times over a failed run, a replacement of %s and a successful run (expected exactly once)" % (n, done.count(n), sc.replaced), sc.describe())
            return
    if sorted(res["finished"]) != sorted(names):
        ctx.fail("after the successful run() the commands %r are not finished" % sorted(set(names) - set(res["finished"])), sc.describe())


def oracle(ctx, sc, res):
    if getattr(sc, "replaced", None) is not None:
        return oracle_replaced(ctx, sc, res)
    if ("flag", 0) in sc.ops:
        return oracle_recovery(ctx, sc, res)
    if res["load"] != "ok" or any(o != "ok" for o in res["ops"]):
        ctx.fail("an acyclic well-formed model failed: load=%s ops=%s" % (res["load"], res["ops"]), sc.describe())
        return
    names = [c[0] for c in sc.commands] + [o[1][0] for o in sc.ops if o[0] in ("add", "addobj")]
    starts = [e[1:] for e in res["log"] if e[0] == "+"]
    did_run = any(o[0] == "run" for o in sc.ops)
    for n in names:
        k = starts.count(n)
        if k > 1 or (did_run and k != 1):
            ctx.fail("command %s executed %d times (expected exactly once)" % (n, k), sc.describe())
            return
    # fed by finished dependencies: a read returns the producer's final result, and the producer's execution lies before the consumer's exit
    for consumer, producer, fin_before, is_final in res["reads"]:
        if not is_final:
            ctx.fail("%s read a result of %s that is not that command's finished result" % (consumer, producer), sc.describe())
            return
    # ... and it reads the results it names, no others: as often as it names them (a command executed once reads each reference once)
    for cmd in list(sc.commands) + [o[1] for o in sc.ops if o[0] in ("add", "addobj")]:
        if starts.count(cmd[0]) == 1:
            got = sorted(prod for consumer, prod, _f, _i in res["reads"] if consumer == cmd[0])
            if got != sorted(graphs.refs_of(cmd)):
                ctx.fail("%s names the results %r but read the results of %r" % (cmd[0], sorted(graphs.refs_of(cmd)), got), sc.describe())
                return
    pos = {e: i for i, e in enumerate(res["log"])}
    for (name, _, _), cmd in zip(sc.commands, sc.commands):
        for d in set(graphs.refs_of(cmd)):
            if "+" + name in pos and ("-" + d not in pos or not pos["-" + d] < pos.get("-" + name, 10 ** 9)):
                ctx.fail("%s finished without its dependency %s having finished first" % (name, d), sc.describe())
                return
    if did_run and sorted(res["finished"]) != sorted(names):
        ctx.fail("after run() the commands %r are not finished" % sorted(set(names) - set(res["finished"])), sc.describe())


TYPED_SRC = '''
from mpilot import params
from mpilot.commands import Command

RETURNED = {}     # result name -> the object its body returned
RUNS = []         # result names, in execution order
READS = []        # (consumer, the object it was handed)


class Five(Command):
    """plug-in style producer (no declared output): any consumer may read it; typed consumers check the finished value"""
    inputs = {}

    def execute(self, **kw):
        RUNS.append(self.result_name)
        RETURNED[self.result_name] = v = 5
        return v


class Word(Command):
    inputs = {}

    def execute(self, **kw):
        RUNS.append(self.result_name)
        RETURNED[self.result_name] = v = "12"
        return v


class _Reader(Command):
    output = params.BooleanParameter()

    def execute(self, **kw):
        RUNS.append(self.result_name)
        x = kw["X"]
        for c in (x if isinstance(x, list) else [x]):
            READS.append((self.result_name, c.result_name, c.result))
        RETURNED[self.result_name] = v = True
        return v


class AsNum(_Reader):
    inputs = {"X": params.ResultParameter(params.NumberParameter())}


class AsStr(_Reader):
    inputs = {"X": params.ResultParameter(params.StringParameter())}


class AsAny(_Reader):
    inputs = {"X": params.ResultParameter()}


class Collect(_Reader):
    inputs = {"X": params.ListParameter(params.ResultParameter())}
'''


def typed_consumers(ctx):
    """one result read by consumers that declare different types for it (number, text, anything, a list): each is handed the very object the
    producer returned, the producer runs once, and its stored result stays that object - through repeated runs and reads, in every file order"""
    import sys, types, itertools
    from mpilot.program import Program
    name = "mpverif_typed"
    if name not in sys.modules:
        m = types.ModuleType(name)
        sys.modules[name] = m
        exec(compile(TYPED_SRC, name, "exec"), m.__dict__)
    m = sys.modules[name]
    rng = ctx.rng
    lines = ["V = Five()", "W = Word()", "A = AsStr(X = V)", "B = AsNum(X = V)", "C = AsAny(X = V)", "D = Collect(X = [V, W, V])", "E = AsNum(X = W)", "F = AsStr(X = W)"]
    for i in range(ctx.budget(12, 300)):
        order = list(lines)
        rng.shuffle(order)
        src = "\n".join(order) + "\n"
        m.RETURNED.clear(); del m.RUNS[:]; del m.READS[:]
        ops = ["run"] + [rng.choice(["run", "read"]) for _ in range(rng.randrange(0, 3))]
        try:
            p = Program.from_source(src, libraries=(name,))
            for op in ops:
                if op == "run":
                    p.run()
                else:
                    p.commands[rng.choice("VWABCDEF")].result
            outcome = "ok"
        except Exception as e:
            outcome = progrun.classify(e)
            p = locals().get("p")
        ctx.case("typed " + src + repr(ops), sample=None)
        ctx.count("typed_consumer_cases")
        desc = {"source": src, "ops": ops}
        if outcome != "ok":
            ctx.fail("a well-typed model with differently typed consumers of one result failed: %s" % outcome, desc)
            continue
        for n in "VWABCDEF":
            if m.RUNS.count(n) != 1:
                ctx.fail("command %s executed %d times (expected exactly once)" % (n, m.RUNS.count(n)), desc)
                break
            if p.commands[n]._result is not m.RETURNED[n]:
                ctx.fail("the stored result of %s is %r, its body returned %r: something replaced it" % (n, p.commands[n]._result, m.RETURNED[n]), desc)
                break
        else:
            for consumer, producer, got in m.READS:
                if got is not m.RETURNED[producer]:
                    ctx.fail("%s was handed %r as the result of %s, whose body returned %r" % (consumer, got, producer, m.RETURNED[producer]), desc)
                    break


def api_spellings(ctx):
    """result names a program gets through the programming interface (add_command takes any text: field names of a table, names with blanks or
    accents) that collapse under lower / upper / casefold, under trimming or squeezing of blanks, under Unicode normalisation, or that are numerals of
    one value: still one result each; every consumer - direct and through a list - reads the one it names, everything executes once"""
    from collections import OrderedDict
    from mpilot.program import Program
    m = prog.testlib()
    rng = ctx.rng
    groups = (["Temp", "TEMP", "temp"], ["Stra\u00dfe", "STRASSE", "strasse", "stra\u00dfe"], ["a b", "a  b", " a b", "a b ", "a\tb"],
              ["\u00e9", "e\u0301", "\u00c9"],                                            # e-acute composed, decomposed, upper case
              ["\u0130stanbul", "istanbul", "\u0131stanbul", "ISTANBUL"],                 # dotted capital I, dotless small i
              ["1", "01", "1.0", "\uff11", "+1"])                                          # numerals of one value (U+FF11 = fullwidth 1)
    for names in groups:
        for rep in range(ctx.budget(1, 30)):
            steps = [(nm, OrderedDict()) for nm in names] + [("use %d" % i, OrderedDict([("One", nm)])) for i, nm in enumerate(names)]
            steps.append(("use all", OrderedDict([("Many", list(names)), ("Nested", [[names[-1]], [names[0]]])])))
            rng.shuffle(steps)
            # what every command names, taken down before the structures are handed over (they are the caller's; whatever becomes of them later is not consulted)
            import copy
            shown = [[r, copy.deepcopy(dict(a))] for r, a in steps]
            wants = dict((res, sorted([args["One"]] if "One" in args else []) if "Many" not in args else sorted(args["Many"] + [g[0] for g in args["Nested"]])) for res, args in steps)
            rec = progrun.Recorder()
            with progrun.stubbed([m.N], rec):
                try:
                    p = Program(libraries=(prog.TESTLIB,))
                    for res, args in steps:
                        p.add_command(m.N, res, args)
                    p.run()
                    p.commands[names[0]].result
                    p.run()
                    out = "ok"
                except Exception as e:
                    out = progrun.classify(e)
            ctx.case("api-spellings %r %r" % (names, [st[0] for st in steps]), sample=None)
            ctx.count("api_spelling_cases")
            desc = {"built_with": "Program.add_command(N, result_name, arguments) in this order, then run(), a result read, run()", "commands": shown}
            if out != "ok":
                ctx.fail("a well-formed model over the result names %r failed: %s" % (names, out), desc)
                continue
            starts = [e[1:] for e in rec.log if e[0] == "+"]
            bad = [res for res, _a in steps if starts.count(res) != 1]
            if bad:
                ctx.fail("command %r executed %d times (expected exactly once)" % (bad[0], starts.count(bad[0])), desc)
                continue
            for res, args in steps:
                want = wants[res]
                got = sorted(prod for consumer, prod, _f, _i in rec.reads if consumer == res)
                if got != want:
                    ctx.fail("%r names the results %r but read the results of %r" % (res, want, got), desc)
                    break


SCALE_LIB = "mpverif_c01scale"

SCALE_SRC = '''
import numpy
from mpilot import params
from mpilot.commands import Command

READS = []        # (consumer, producer, the object the consumer was handed)


class Grid(Command):
    """producer: a field of Cells cells in Rows rows, the first cell missing"""
    inputs = {"Cells": params.NumberParameter(), "Rows": params.NumberParameter(), "Kind": params.StringParameter(required=False)}
    output = params.DataParameter()

    def execute(self, **kw):
        a = numpy.ma.masked_array(numpy.arange(kw["Cells"], dtype=kw.get("Kind", "float64")).reshape(kw["Rows"], -1) % 97)
        a[0, 0] = numpy.ma.masked
        return a


class Scale(Command):
    """intermediate: a new field of the same size"""
    inputs = {"In": params.ResultParameter(params.DataParameter())}
    output = params.DataParameter()

    def execute(self, **kw):
        r = kw["In"].result
        READS.append((self.result_name, kw["In"].result_name, r))
        return r * 0.5


class Pick(Command):
    """consumer: a few numbers taken from every field listed"""
    inputs = {"Of": params.ListParameter(params.ResultParameter(params.DataParameter()))}
    output = params.DataParameter()

    def execute(self, **kw):
        out = []
        for c in kw["Of"]:
            r = c.result
            READS.append((self.result_name, c.result_name, r))
            out.append(float(r.reshape(-1)[-1]))
        return numpy.ma.masked_array(out)
'''

# models of the ladder: {n} = cells, {r} = rows, {k} = element type.  Producer -> intermediate(s) -> consumer(s); built-in commands in between
SCALE_MODELS = {
    "chain": ["G = Grid(Cells = {n}, Rows = {r}, Kind = {k})", "H = Scale(In = G)", "T = Pick(Of = [H])"],
    "diamond": ["G = Grid(Cells = {n}, Rows = {r}, Kind = {k})", "H = Scale(In = G)", "S = Sum(InFieldNames = [G, H])", "T = Pick(Of = [H, S])"],
    "levels": ["G = Grid(Cells = {n}, Rows = {r}, Kind = {k})", "H = Copy(InFieldName = G)", "I = Scale(In = H)", "J = AMinusB(A = H, B = I)", "T = Pick(Of = [J])", "U = Pick(Of = [I, J])"],
}


def fingerprint(a):
    import numpy
    if not isinstance(a, numpy.ndarray):
        return repr(a)
    return (a.shape, str(a.dtype), int(numpy.ma.count_masked(a)), float(numpy.ma.filled(a, 0).sum(dtype="float64")))


def scale_ladder(ctx):
    """"exactly once" and "reading a result again executes nothing further" are stated for every program, whatever the size of its fields: the same three small
    models (producer -> intermediate results -> consumers; plug-in commands and built-in ones) on a ladder of field sizes from a handful of cells to several
    million (tens of megabytes per result - where an implementation may be tempted to drop or recompute intermediate results), 1, 3 or 1000 rows, 8- and 4-byte
    cells.  After run(): every result - the intermediate ones first - is read again, run() is called again, a consumer of an intermediate result is added and run:
    executions are counted around every `execute`, every result read must be the one its body returned, every consumer must have been handed exactly that"""
    import contextlib, gc, sys, types
    from collections import OrderedDict
    from mpilot.program import Program
    if SCALE_LIB not in sys.modules:
        m = types.ModuleType(SCALE_LIB)
        sys.modules[SCALE_LIB] = m
        exec(compile(SCALE_SRC, SCALE_LIB, "exec"), m.__dict__)
    m = sys.modules[SCALE_LIB]
    libs = ("mpilot.libraries.eems.basic", SCALE_LIB)
    rng = ctx.rng
    runs, returned = [], {}

    @contextlib.contextmanager
    def counted(classes):
        saved = [(c, c.__dict__["execute"]) for c in classes]

        def wrap(orig):
            def execute(self, **kw):
                runs.append(self.result_name)
                out = orig(self, **kw)
                returned.setdefault(self.result_name, []).append(out)
                return out
            return execute
        for c, orig in saved:
            c.execute = wrap(orig)
        try:
            yield
        finally:
            for c, orig in saved:
                c.execute = orig
    lib = Program(libraries=libs).command_library
    used = [lib[n] for n in ("Grid", "Scale", "Pick", "Sum", "Copy", "AMinusB")]
    # the ladder: every model at every size up to 10^5 in three file orders and three histories; above, each size once per model, order and history rotating
    plan = []
    for model in sorted(SCALE_MODELS):
        for n in (6, 3000, 100000):
            for order in ("inputs-first", "users-first", "shuffled"):
                rows = rng.choice([1, 3, 1000 if n % 1000 == 0 else 2])
                plan.append((model, n - n % rows, rows, "float64", order, ("after", "before", "late")[len(plan) % 3]))
    k = rng.randrange(6)
    for i, n in enumerate((600000, 1500000, 2500000, 4000000, 6000000)):
        # the top of the ladder (32 / 48 MB per result) with two / one of the models, rotating: keeps the check to a few seconds and a few hundred megabytes
        for model in sorted(SCALE_MODELS) if n <= 2500000 else [sorted(SCALE_MODELS)[(k + j) % 3] for j in range(6000000 // n + (n < 6000000))]:
            k += 1
            rows = (3, 1000, 1)[k % 3]
            n_ = n + 3000 * rng.randrange(0, 30)
            plan.append((model, n_ - n_ % rows, rows, "float32" if k % 5 == 0 else "float64",
                         ("users-first", "shuffled", "inputs-first")[k % 3], ("after", "late", "before")[(k // 3) % 3]))
    for model, n, rows, kind, order, history in plan:
        lines = [ln.format(n=n, r=rows, k=kind) for ln in SCALE_MODELS[model]]
        if order == "users-first":
            lines.reverse()
        elif order == "shuffled":
            rng.shuffle(lines)
        src = "\n".join(lines) + "\n"
        names = [ln.split(" = ")[0] for ln in lines]
        inner = [nm for nm in sorted(names) if nm not in ("T", "U")]
        # histories: read everything after run / a consumer's result read before the first run / a consumer of an intermediate result added after run
        ops = {"after": [("run",)] + [("read", nm) for nm in inner + ["T"]] + [("run",), ("read", inner[-1])],
               "before": [("read", "T"), ("read", inner[0]), ("run",)] + [("read", nm) for nm in inner] + [("run",)],
               "late": [("run",), ("add", "late", inner[-1]), ("read", inner[0]), ("run",), ("read", "late"), ("add", "late2", inner[0]), ("run",)]}[history]
        del runs[:]; returned.clear(); del m.READS[:]
        desc = {"source": src, "ops": [list(o) for o in ops], "libraries": list(libs), "cells_per_result": n, "bytes_per_result": n * (4 if kind == "float32" else 8),
                "plugin_library": "harness/props/c01.py SCALE_SRC (module %s); add = Program.add_command(Pick, name, {Of: [result]})" % SCALE_LIB}
        ctx.case("scale %s %d %d %s %s %s" % (model, n, rows, kind, order, history), sample=None)
        ctx.count("scale_ladder_cases")
        ctx.count("scale_cells:1e%d" % (len(str(n)) - 1))
        problem = None
        p = None
        with counted(used):
            try:
                p = Program.from_source(src, libraries=libs)
                present = list(names)
                for i, op in enumerate(ops):
                    at = "after %s" % " ".join("%s(%s)" % (o[0], ", ".join(o[1:])) for o in ops[:i + 1])
                    if op[0] == "run":
                        p.run()
                        missing = [nm for nm in present if runs.count(nm) == 0]
                        if missing:
                            problem = "%s: %r never executed" % (at, missing)
                    elif op[0] == "add":
                        p.add_command(lib["Pick"], op[1], OrderedDict([("Of", [op[2]])]))
                        present.append(op[1])
                    else:
                        got = p.commands[op[1]].result
                        if runs.count(op[1]) == 1 and fingerprint(got) != fingerprint(returned[op[1]][0]):
                            problem = "%s: the result of %s read is %r, its body returned %r" % (at, op[1], fingerprint(got), fingerprint(returned[op[1]][0]))
                    twice = [nm for nm in present if runs.count(nm) > 1]
                    if twice and not problem:
                        problem = "%s: executions %r (expected at most once each: %s executed again)" % (at, dict((nm, runs.count(nm)) for nm in present), ", ".join(twice))
                    if problem:
                        break
                if not problem:
                    for consumer, producer, got in m.READS:
                        if fingerprint(got) != fingerprint(returned[producer][0]):
                            problem = "%s was handed %r as the result of %s, whose body returned %r" % (consumer, fingerprint(got), producer, fingerprint(returned[producer][0]))
                            break
            except Exception as e:
                problem = "a well-formed acyclic model failed: %s" % progrun.classify(e)
        if problem:
            ctx.fail("%d cells per result (%s model, written %s): %s" % (n, model, order, problem), desc)
        del p
        returned.clear(); del m.READS[:]
        got = None
        gc.collect()


def _history(ctx, w, ops, steps, must, what, tolerated=()):
    """runs the steps [(text, callable)] of one case built in the world w; every step of an acyclic well-formed model must succeed (or end with one of the
    `tolerated` exception objects: an interruption planted by the case); then the bodies' log must satisfy C01 (apihist.World.problems)"""
    desc = w.describe(ops)
    for text, step in steps:
        ops.append(text)
        try:
            step()
        except BaseException as e:          # noqa (interruptions are BaseExceptions)
            if any(e is t for t in tolerated):
                ops[-1] += "   -> interrupted by %s" % type(e).__name__
                continue
            ops[-1] += "   -> %s" % progrun.classify(e)
            ctx.fail("%s: an acyclic well-formed model failed at `%s` with %s" % (what, text, progrun.classify(e)), w.describe(ops))
            return False
    bad = w.problems(must)
    if bad:
        ctx.fail("%s: %s" % (what, bad[0]), dict(w.describe(ops), all_problems=bad[:6]))
    return not bad


def foreign_objects(ctx):
    """add_command takes Command objects as references.  The object need not be the command registered under that name in the consuming program: a sub-result
    shared from another Program (run there already or not), a free-standing Command (pre-computed or not) - directly, in a list, in a nested list, with or
    without a command of the same name in the consuming program.  The consumer is fed by the finished result of exactly the object it was given, that command
    executes once (with its own dependencies, in its own program), nothing executes twice, and running / reading again executes nothing"""
    from .. import apihist
    rng = ctx.rng
    for kind in ("a command of another program", "a command of another program that has run", "a free-standing command", "a free-standing command that has finished"):
        for collide in (False, True):
            for via in ("One", "Many", "Nested", "One+Many", "Two+Nested"):
                for consumer_first in ((False, True) if collide else (False,)):
                    w = apihist.World()
                    if kind.startswith("a command of another"):
                        other = w.program("other")
                        deep = w.add(other, "Deep", 100)
                        foreign = w.add(other, "Base", 10, one=deep) if rng.random() < 0.5 else w.add(other, "Base", 10, many=[deep])
                        if kind.endswith("has run"):
                            other.run()
                            w.built.append("other.run()")
                    else:
                        deep = w.free("Deep", 100)
                        foreign = w.free("Base", 10, one=deep)
                        if kind.endswith("finished"):
                            foreign.result
                            w.built.append("Base.result")
                    q = w.program("q")
                    own = w.add(q, "Own", 3)
                    ns = w.add(q, "Base", 1) if collide and not consumer_first else None
                    t = w.add(q, "T", 1000, one=foreign if via in ("One", "One+Many") else None, two=foreign if via == "Two+Nested" else None,
                              many=[own, foreign] if via in ("Many", "One+Many") else None, nested=[[own], [foreign, own]] if via in ("Nested", "Two+Nested") else None,
                              by=lambda r: "object" if r is foreign else rng.choice(["name", "object"]))
                    if collide and consumer_first:
                        ns = w.add(q, "Base", 1)
                    top = w.add(q, "Top", 0, one=t, many=[own])
                    ops = []
                    steps = [("q.run()", q.run)]
                    ctx.case("foreign %s %s %s %s" % (kind, collide, via, consumer_first), sample=None)
                    ctx.count("foreign_object_cases")
                    what = "%s handed to add_command as the value of %s%s" % (kind, via, " (the consuming program has a command of that name too)" if collide else "")
                    if not _history(ctx, w, ops, steps, [own, t, top, foreign, deep], what):
                        continue
                    if ns is not None and not w.entered(ns):
                        # (F26, fixed in /repo 3577bab: a direct reference used to be recorded by name in run(), so the namesake counted as consumed)
                        ctx.count("foreign_object_namesake_not_started_by_run")
                        ctx.fail("run() returned without executing the program's own command %r: a command of ANOTHER program (or of none) with the same result name is %s" % (
                            ns.result_name, what), {"history": ["q = Program(); q.add_command(..., %r, ...)" % ns.result_name, what, "q.run()"], "executed": [getattr(x, "result_name", "?") for k, x in w.m.EVENTS if k == "+"]})
                    n_events = len(w.m.EVENTS)
                    more = [("%s.result" % c.result_name, (lambda c=c: c.result)) for c in [t, top, foreign] + ([ns] if ns is not None else [])] + [("q.run()", q.run)]
                    if _history(ctx, w, ops, more, [own, t, top, foreign, deep] + ([ns] if ns is not None else []), what):
                        again = [x for k, x in w.m.EVENTS[n_events:] if k == "+" and not (x is ns and not any(y is ns for _k, y in w.m.EVENTS[:n_events]))]
                        if again:
                            ctx.fail("%s: reading results and running again executed %r" % (what, [w.who(x) for x in again]), w.describe(ops))
    # random models spread over two programs and free-standing commands: references inside a program by name or object, across by object
    for _ in range(ctx.budget(15, 600)):
        w = apihist.World()
        progs = [w.program("P0"), w.program("P1")]
        made = []
        for i in range(rng.randrange(3, 9)):
            deps = rng.sample(made, rng.randrange(0, min(len(made), 3) + 1))
            home = rng.choice(progs + [None]) if i else progs[0]
            rng.shuffle(deps)
            one = deps.pop() if deps and rng.random() < 0.6 else None
            if home is None:
                made.append(w.free("c%d" % i, rng.randrange(1, 1000), one=one, many=deps or None))
                continue
            two = deps.pop() if deps and rng.random() < 0.3 else None
            nested = [deps[:1], deps[1:]] if deps and rng.random() < 0.4 else None
            made.append(w.add(home, "c%d" % i, rng.randrange(1, 1000), one=one, two=two, many=deps if deps and nested is None else None, nested=nested,
                              by=lambda r, home=home: "object" if getattr(r, "program", None) is not home else rng.choice(["name", "object"])))
        order = list(progs)
        rng.shuffle(order)
        steps = []
        for p_ in order:
            if rng.random() < 0.3:
                c = rng.choice(made)
                steps.append(("%s.result" % c.result_name, (lambda c=c: c.result)))
            steps.append(("%s.run()" % p_.label, p_.run))
        steps += [("%s.result" % c.result_name, (lambda c=c: c.result)) for c in made] + [("%s.run()" % order[0].label, order[0].run)]
        ctx.case("foreign-random " + repr(w.built), sample=None)
        ctx.count("foreign_object_cases")
        _history(ctx, w, [], steps, made, "a model spread over two programs and free-standing commands (references across by object)")


def reused_arguments(ctx):
    """Argument structures belong to the caller: the same dictionary / list objects are handed to add_command for several Programs (one model applied to
    several data sets), and a program is built again from the `arguments` of the commands of one that has run (with one input changed).  A name in such a
    structure stands, in every program, for the command of that name in THAT program: each program executes its own commands once and feeds its consumers
    with its own commands' finished results"""
    from collections import OrderedDict
    from .. import apihist
    from mpilot.program import Program
    rng = ctx.rng
    for rep in range(ctx.budget(10, 300)):
        # -- one set of argument objects, several programs whose source values differ
        n = rng.randrange(3, 8)
        spec = apihist.rand_spec(rng, n)
        if not any("Many" in r or "Nested" in r for _n, _v, r in spec):
            spec.append(("c%d" % n, 7, {"Many": [spec[0][0], spec[-1][0]], "Nested": [[spec[0][0]], [spec[1][0]]]}))
        owned = dict((name, apihist.fresh_args(value, refs)) for name, value, refs in spec)        # the caller's objects, reused below
        tuples = rng.random() < 0.2                                                                 # (tuples are accepted for lists: they cannot be edited in place)
        if tuples:
            for a in owned.values():
                for k in a:
                    if isinstance(a[k], list):
                        a[k] = tuple(tuple(x) if isinstance(x, list) else x for x in a[k])
        k = rng.randrange(2, 4)
        mode = rng.choice(["each program run before the next is built", "all built, then run in building order", "all built, then run in reverse order", "a result read before the next is built"])
        w = apihist.World()
        progs, steps = [], []

        def variant(j):
            return [(name, value + (100000 * j if not refs else 0), refs) for name, value, refs in spec]

        def args_of(j):
            def f(name, value, refs):
                a = owned[name]
                a["Value"] = value
                return a
            return f
        ops = []
        ok = True
        ctx.case("reused-args %r %s %d %s" % (spec, mode, k, tuples), sample=None)
        ctx.count("reused_argument_cases")
        what = "one set of argument objects%s handed to add_command for %d programs (%s)" % (" (lists given as tuples)" if tuples else "", k, mode)
        for j in range(k):
            try:
                p = apihist.build(w, "P%d" % j, variant(j), args_of(j))
            except BaseException as e:      # noqa
                ctx.fail("%s: building program no. %d failed with %s" % (what, j, progrun.classify(e)), w.describe(ops))
                ok = False
                break
            progs.append(p)
            if mode.startswith("each"):
                ok = _history(ctx, w, ops, [("P%d.run()" % j, p.run)], list(p.commands.values()), what)
            elif mode.startswith("a result"):
                last = p.commands[spec[-1][0]]
                ok = _history(ctx, w, ops, [("P%d.commands[%r].result" % (j, last.result_name), (lambda c=last: c.result))], [last], what)
            if not ok:
                break
        if not ok:
            continue
        order = progs if "reverse" not in mode else progs[::-1]
        _history(ctx, w, ops, [("%s.run()" % p.label, p.run) for p in order] + [("%s.run()" % order[0].label, order[0].run)], [c for p in progs for c in p.commands.values()], what)
    for rep in range(ctx.budget(10, 300)):
        # -- a program that has run, built again from the arguments of its commands (one source value changed)
        n = rng.randrange(3, 8)
        spec = apihist.rand_spec(rng, n)
        if not any("Many" in r or "Nested" in r for _n, _v, r in spec):
            spec.append(("c%d" % n, 7, {"Many": [spec[0][0], spec[-1][0]], "Nested": [[spec[1][0]], [spec[0][0]]]}))
        w = apihist.World()
        origin = rng.choice(["from_source", "add_command"])
        hand = rng.choice(["values", "values", "Argument objects"])
        used = rng.choice(["run()", "run()", "a result read", "nothing"])
        order = list(range(len(spec)))
        rng.shuffle(order)
        ctx.case("rebuilt %r %s %s %s %r" % (spec, origin, hand, used, order), sample=None)
        ctx.count("rebuilt_program_cases")
        what = "a program (%s) rebuilt through add_command from the %s of its commands' `arguments` after %s, one source value changed" % (origin, hand, used)
        ops = []
        try:
            first = apihist.load(w, "first", spec, order) if origin == "from_source" else apihist.build(w, "first", spec)
        except BaseException as e:      # noqa
            ctx.fail("%s: the first program could not be built: %s" % (what, progrun.classify(e)), w.describe(ops))
            continue
        last = first.commands[spec[-1][0]]
        if used != "nothing" and not _history(ctx, w, ops, [("first.run()", first.run)] if used == "run()" else [("first.commands[%r].result" % last.result_name, (lambda: last.result))],
                                              list(first.commands.values()) if used == "run()" else [last], what):
            continue
        changed = [(name, value + (100000 if not refs else 0), refs) for name, value, refs in spec]

        def args_of(name, value, refs):
            c = first.commands[name]
            if hand == "values":
                a = OrderedDict((x.name, x.value) for x in c.arguments)
                a["Value"] = value
            else:
                from mpilot.arguments import Argument
                a = OrderedDict((x.name, x if x.name != "Value" else Argument("Value", value)) for x in c.arguments)
            return a
        try:
            second = apihist.build(w, "second", changed, args_of, how="built from first.commands[name].arguments")
        except BaseException as e:      # noqa
            ctx.fail("%s: add_command refused the arguments of a loaded command: %s" % (what, progrun.classify(e)), w.describe(ops))
            continue
        _history(ctx, w, ops, [("second.run()", second.run), ("first.run()", first.run), ("second.run()", second.run)], list(second.commands.values()) + list(first.commands.values()), what)


def interrupted_runs(ctx):
    """histories in which a run()/result access is cut short by something that is no Exception - KeyboardInterrupt (Ctrl-C), SystemExit, GeneratorExit,
    asyncio's CancelledError, a watchdog's own BaseException - raised inside a body (before or after it has read its inputs) and caught by the caller, once or
    twice; then the program is simply used again.  It is the same acyclic model: the next run() completes every command exactly once, nothing that had
    completed runs again, every consumer is fed by finished results; a further run()/read executes nothing"""
    import asyncio
    from .. import apihist
    rng = ctx.rng
    m = apihist.lib()
    kinds = [KeyboardInterrupt, SystemExit, GeneratorExit, asyncio.CancelledError, m.Timeout]
    plan = [(kind, when, origin) for kind in kinds for when in ("before", "after") for origin in ("from_source", "add_command")]
    plan += [(rng.choice(kinds), rng.choice(["before", "after"]), rng.choice(["from_source", "add_command"])) for _ in range(ctx.budget(10, 600))]
    for kind, when, origin in plan:
        n = rng.randrange(2, 8)
        spec = apihist.rand_spec(rng, n)
        w = apihist.World()
        order = list(range(n))
        rng.shuffle(order)
        p = apihist.load(w, "p", spec, order) if origin == "from_source" else apihist.build(w, "p", spec)
        victim = rng.choice(spec)[0]
        times = rng.choice([1, 1, 2])
        exc = kind("interrupted") if kind is not SystemExit else SystemExit(3)
        if not issubclass(kind, BaseException) or issubclass(kind, Exception):
            continue                    # (CancelledError is an Exception before Python 3.8)
        m.STOP[victim] = [exc, when, times]
        w.built.append("the body of %s raises %s %s reading its inputs, the next %d time(s) it is entered; the caller catches it" % (victim, kind.__name__, when, times))
        names = [s[0] for s in spec]
        steps = []
        for _i in range(times):
            first = rng.choice(["run", "run", "read"])
            steps.append(("p.run()", p.run) if first == "run" else (lambda nm: ("p.commands[%r].result" % nm, (lambda: p.commands[nm].result)))(rng.choice(names)))
        steps += [("p.run()", p.run)] * (times + 1)       # (a result read above may not have reached the interrupted command)
        ctx.case("interrupted %r %s %s %s %s %d %r" % (spec, kind.__name__, when, origin, victim, times, [s[0] for s in steps]), sample=None)
        ctx.count("interrupted_run_cases")
        ctx.count("interrupted_by:" + kind.__name__)
        what = "a run interrupted by %s inside the body of %s (%s it read its inputs), then the program used again" % (kind.__name__, victim, when)
        ops = []
        if not _history(ctx, w, ops, steps, list(p.commands.values()), what, tolerated=(exc,)):
            continue
        if m.STOP[victim][2] != 0:
            continue
        n_events = len(m.EVENTS)
        if _history(ctx, w, ops, [("p.commands[%r].result" % nm, (lambda nm=nm: p.commands[nm].result)) for nm in names] + [("p.run()", p.run)], list(p.commands.values()), what) \
                and len(m.EVENTS) != n_events:
            ctx.fail("%s: after the completed run, reading results and run() executed %r again" % (what, [w.who(x) for k, x in m.EVENTS[n_events:] if k == "+"]), w.describe(ops))
    m.STOP.clear()


def run(ctx):
    ctx.check_proofs(["MPilot.Props.C01", "MPilot.Props.C01Hist", "MPilot.Props.C01Edit"])
    model = common.Model()
    scs = scenarios(ctx)
    classes = decl_classes()
    answers = model.ask([sc.protocol(classes) for sc in scs])
    for sc, ans in zip(scs, answers):
        res = progrun.run_impl(sc)
        ctx.case(sc.source + repr(sc.ops), sample={"source": sc.source[:600], "ops": [list(o) for o in sc.ops], "impl": progrun.impl_text(res)[:300], "model": ans[:300]})
        ctx.count("n_commands:%02d" % min(len(sc.commands), 13))
        ctx.count("ops:%d" % len(sc.ops))
        d = progrun.compare(res, ans)
        if d:
            ctx.disagree("run-loop", sc.describe(), d[0][:600], d[1][:600])
        oracle(ctx, sc, res)
    typed_consumers(ctx)
    api_spellings(ctx)
    scale_ladder(ctx)
    foreign_objects(ctx)
    reused_arguments(ctx)
    interrupted_runs(ctx)
    return ctx.finish(
        rule="scenarios = (acyclic graph over opaque logging commands with references through direct parameters, lists and nested lists, "
             "repeated references, fan-in <= 5; textual order: every permutation for <= 3 commands, sampled above; chains of 20-60; "
             "tail of run()/result accesses incl. a result read before the first run); distinct by source text + ops",
        explanation="theorems in Props/C01.lean hold for the model's run loop for every acyclic program and every op sequence; the event log "
                    "(execute entry/exit order) of the real Program on each scenario is compared with the model's; counting oracles run on the implementation")


def replay(path):
    import json
    print(json.dumps(json.load(open(path)), indent=1)[:6000])
    return 0
