"""C01 — every command executes exactly once, fed by its finished dependencies.

proof:          lean/MPilot/Props/C01.lean  (memoised pull evaluation: at most once, at least once, dependencies first, idempotent re-run)
correspondence: real Program.from_source + run()/result accesses on random DAGs (references through direct parameters, lists,
                nested lists; every textual order for small graphs) with logging stub bodies vs the model's run loop: full event log
oracles:        execution count per command = 1; every read returns the finished producer's final result; re-running adds nothing;
                every command reads exactly the results it names (result names differing only in letter case and other look-alike spellings);
                text in the undeclared arguments of a plug-in command is no reference, whatever it spells; a ladder of result sizes up to
                millions of cells (run, every result read again, run again, a consumer added later: nothing executes a second time)
"""
import itertools

from .. import common, prog, progrun, graphs
from ..progrun import Scenario, Name


def decl_classes():
    m = prog.testlib()
    return [m.N, m.NoneResult, m.D, m.F, m.S, m.X, m.NoOut, m.W]


def scenarios(ctx):
    rng = ctx.rng
    out = []
    # every textual order of small graphs
    for n in (1, 2, 3, 4):
        for _ in range(ctx.budget(1, 12)):
            cmds = graphs.dag_commands(rng, n)
            perms = list(itertools.permutations(cmds))
            if len(perms) > 12 and not ctx.thorough:
                perms = rng.sample(perms, 12)
            for p in perms:
                out.append(Scenario(list(p), ops=rand_ops(rng, cmds)))
    for _ in range(ctx.budget(20, 1500)):
        n = rng.randrange(5, 13)
        cmds = graphs.dag_commands(rng, n)
        out.append(Scenario(graphs.shuffled(rng, cmds), ops=rand_ops(rng, cmds), blank={rng.randrange(n): rng.randrange(1, 4)}))
    for _ in range(ctx.budget(2, 40)):
        n = rng.choice([20, 40, 60])
        cmds = graphs.dag_commands(rng, n, chain=True)
        out.append(Scenario(graphs.shuffled(rng, cmds), ops=[("run",), ("run",)]))
    # histories with a run stopped by a failure at execution time whose cause is then removed: the next run must complete the program
    for _ in range(ctx.budget(30, 1200)):
        n = rng.randrange(2, 9)
        cmds = graphs.dag_commands(rng, n)
        k = rng.randrange(n)
        res, cmd, args = cmds[k]
        cmds[k] = (res, cmd, list(args) + [("Fail", rng.choice(["flag", "flag", "flagvalue"]))])
        names = [c[0] for c in cmds]
        ops = [("run",)] if rng.random() < 0.8 else [("result", rng.choice(names))]
        if rng.random() < 0.3:
            ops.append(("run",))
        ops.append(("flag", 0))
        ops += [("run",)] + [(("run",) if rng.random() < 0.5 else ("result", rng.choice(names))) for _ in range(rng.randrange(0, 3))]
        out.append(Scenario(graphs.shuffled(rng, cmds), ops=ops))
    # a run stopped by a failure, then a referenced command taken out of the program (del program.commands[name]) and added again under the same name with
    # other references, the cause removed, run again: consumers that had not run are fed by the command that carries the name *now*
    for _ in range(ctx.budget(25, 800)):
        n = rng.randrange(3, 9)
        cmds = graphs.dag_commands(rng, n, cmd_pool=("N", "N", "N", "X"))
        consumers = {}
        for c in cmds:
            for d in set(graphs.refs_of(c)):
                consumers.setdefault(d, []).append(c[0])
        cands = [c[0] for c in cmds if c[0] in consumers]
        if not cands:
            continue
        x = rng.choice(cands)
        xi = [c[0] for c in cmds].index(x)
        # the failing command: the replaced one itself, or something it feeds (so that its consumers cannot all have run)
        f = rng.choice([x] + consumers[x])
        fi = [c[0] for c in cmds].index(f)
        res, cmd, args = cmds[fi]
        cmds[fi] = (res, cmd, list(args) + [("Fail", "flag")])
        # the replacement may reference only commands numbered below x (no loop can arise), other ones than before where possible
        newdeps = [cmds[j][0] for j in rng.sample(range(xi), rng.randrange(0, min(xi, 3) + 1))] if xi else []
        repl = graphs.make_command(rng, x, "N", newdeps)
        ops = [("run",), ("del", x), ("add", repl), ("flag", 0), ("run",)]
        if rng.random() < 0.4:
            ops.append(("result", rng.choice([c[0] for c in cmds])))
        sc_ = Scenario(graphs.shuffled(rng, cmds), ops=ops)
        sc_.replaced = x
        out.append(sc_)
    # the program deep-copied (the original dropped) before, between and after runs: the copy is the same program, with what has finished
    for _ in range(ctx.budget(20, 600)):
        n = rng.randrange(2, 9)
        cmds = graphs.dag_commands(rng, n)
        ops = rand_ops(rng, cmds)
        for _k in range(rng.randrange(1, 3)):
            ops.insert(rng.randrange(len(ops) + 1), ("copy",))
        if rng.random() < 0.5:
            ops.insert(0, ("copy",))
        out.append(Scenario(graphs.shuffled(rng, cmds), ops=ops))
    # consumers added through the API with the referenced commands given as objects (directly, in lists, in nested lists), before anything has run
    for _ in range(ctx.budget(20, 600)):
        n = rng.randrange(1, 6)
        cmds = graphs.dag_commands(rng, n)
        names = [c[0] for c in cmds]
        ops = []
        for k in range(rng.randrange(1, 4)):
            deps = [rng.choice(names) for _d in range(rng.randrange(1, 4))]
            res, cmd, args = graphs.make_command(rng, "added%d" % k, "N", deps)
            ops.append(("addobj", (res, cmd, args)))
            names.append(res)
        ops.append(("run",))
        if rng.random() < 0.5:
            ops.append(("result", rng.choice(names)))
        out.append(Scenario(graphs.shuffled(rng, cmds), ops=ops))
    out += extra_input_scenarios(ctx) + spelling_scenarios(ctx)
    return out


def renamed(cmds, mapping):
    """the same commands under other result names (references follow)"""
    def sub(v):
        if isinstance(v, Name):
            return Name(mapping.get(v.s, v.s))
        return [sub(x) for x in v] if isinstance(v, list) else v
    return [(mapping.get(r, r), c, [(n, sub(v)) for n, v in args]) for r, c, args in cmds]


def extra_input_scenarios(ctx):
    """A command that accepts undeclared arguments (allow_extra_inputs: plug-ins with free-form options) is handed them as written; they are text, not
    references - also when the text happens to spell the name of a result (a label, a title, a list of layer names).  Such a model is the acyclic graph
    of its *declared* references: run() executes every command once, including the ones whose name some option spells and which nothing references"""
    rng = ctx.rng
    out = []

    def extras(names, k):
        forms = []
        for _ in range(k):
            nm = rng.choice(names)
            forms.append(rng.choice([Name(nm), nm, [Name(nm), Name(rng.choice(names))], [Name(nm), "no such result", 5], [[Name(nm)], [Name(rng.choice(names)), 2.5]],
                                     {"layer": nm, nm: "x"}, [nm]]))
        keys = rng.sample(["Title", "Layers", "Label", "Scale", "Legend", "Group"], k)
        return list(zip(keys, forms))
    # directed, every run: the options name commands nothing references (they are started by run() itself or not at all), commands that are referenced
    # elsewhere, the command's own consumer and the command itself (text cannot close a loop) - in every file order
    base = [("raw", "N", []), ("summary", "N", [("One", Name("raw"))]), ("elevation", "W", [("One", Name("raw"))]), ("user", "N", [("One", Name("note"))])]
    for xargs in ([("One", Name("raw")), ("Title", Name("summary")), ("Layers", [Name("elevation"), Name("slope")]), ("Scale", 5)],
                  [("Title", "summary"), ("One", Name("raw"))],
                  [("Layers", [[Name("elevation")], [Name("summary"), Name("raw")]]), ("Many", [Name("raw")])],
                  [("Legend", {"summary": "elevation", "x": "summary"})],
                  [("Title", Name("user")), ("Label", Name("note")), ("Many", [Name("raw"), Name("raw")])]):
        cmds = base + [("note", "X", xargs)]
        for p in rng.sample(list(itertools.permutations(cmds)), ctx.budget(2, 120)):
            out.append(Scenario(list(p), ops=rand_ops(rng, cmds)))
    for _ in range(ctx.budget(15, 600)):
        n = rng.randrange(2, 9)
        cmds = graphs.dag_commands(rng, n, cmd_pool=("N", "X", "X", "W"))
        names = [c[0] for c in cmds]
        if not any(c[1] == "X" for c in cmds):
            k = rng.randrange(n)
            cmds[k] = (cmds[k][0], "X", cmds[k][2])
        cmds = [(r, c, list(a) + (extras(names, rng.randrange(1, 4)) if c == "X" else [])) for r, c, a in cmds]
        out.append(Scenario(graphs.shuffled(rng, cmds), ops=rand_ops(rng, cmds)))
    return out


SPELLINGS = (["temp", "Temp", "TEMP", "tEmp", "temP"], ["x", "X", "x_", "_x", "X_"], ["Elev", "ELEV", "elev", "Elev2", "ELEV2", "elev_2"], ["ab", "aB", "Ab", "AB", "a_b", "A_B"])


def spelling_scenarios(ctx):
    """Result names are exact: `Temp`, `TEMP` and `temp` are three results (the loader accepts them side by side).  The same graphs as above with names that
    differ only in letter case, in a trailing / leading underscore or digit: every command reads the results it names and no look-alike"""
    rng = ctx.rng
    out = []
    # directed: a producer per spelling, a consumer of each single one and one of all of them in a list - in many file orders
    for fam in SPELLINGS:
        prods = [(nm, "N", []) for nm in fam[:3]]
        cons = [("use%d" % i, "N", [("One", Name(nm))]) for i, nm in enumerate(fam[:3])]
        allc = [("all", "N", [("Many", [Name(nm) for nm in fam[:3]]), ("Nested", [[Name(fam[1])], [Name(fam[0])]])])]
        cmds = prods + cons + allc
        for _ in range(ctx.budget(2, 60)):
            out.append(Scenario(graphs.shuffled(rng, cmds), ops=rand_ops(rng, cmds)))
        # a later command added through the API names one of them too
        late = ("late", "N", [("One", Name(fam[0])), ("Many", [Name(fam[2]), Name(fam[1])])])
        out.append(Scenario(graphs.shuffled(rng, prods + cons), ops=[("run",), ("add", late), ("run",), ("result", fam[0])]))
    for _ in range(ctx.budget(15, 600)):
        n = rng.randrange(2, 7)
        cmds = graphs.dag_commands(rng, n, cmd_pool=("N", "N", "X", "W"))
        fam = rng.choice(SPELLINGS)
        pool = list(fam) if n <= len(fam) else list(fam) + ["c%d" % i for i in range(n)]
        mapping = dict(zip([c[0] for c in cmds], rng.sample(pool[:max(n, len(fam))], n)))
        cmds = renamed(cmds, mapping)
        for p in ([graphs.shuffled(rng, cmds) for _o in range(2)] if n > 3 else rng.sample(list(itertools.permutations(cmds)), 2)):
            out.append(Scenario(list(p), ops=rand_ops(rng, cmds)))
    return out


def rand_ops(rng, cmds):
    names = [c[0] for c in cmds]
    ops = []
    if rng.random() < 0.25:
        ops.append(("result", rng.choice(names)))      # a result read before any run()
    ops.append(("run",))
    for _ in range(rng.randrange(0, 4)):
        ops.append(("run",) if rng.random() < 0.4 else ("result", rng.choice(names)))
    return ops


def oracle_recovery(ctx, sc, res):
    """a run stopped by an execution-time failure, the cause removed, then run(): everything completes exactly once, nothing that had
    completed before runs again, and the failing command's body is entered again (it did not count as executed)"""
    names = [c[0] for c in sc.commands]
    cut = sc.ops.index(("flag", 0))
    if res["load"] != "ok" or any(o != "ok" for o in res["ops"][cut:]):
        ctx.fail("after the cause of the failure was removed the program still fails: load=%s ops=%s" % (res["load"], res["ops"]), sc.describe())
        return
    done = [e[1:] for e in res["log"] if e[0] == "-"]
    for n in names:
        if done.count(n) != 1:
            ctx.fail("command %s completed %d times over a failed run followed by a successful one (expected exactly once)" % (n, done.count(n)), sc.describe())
            return
    for consumer, producer, fin_before, is_final in res["reads"]:
        if not is_final:
            ctx.fail("%s read a result of %s that is not that command's finished result" % (consumer, producer), sc.describe())
            return
    if sorted(res["finished"]) != sorted(names):
        ctx.fail("after the successful run() the commands %r are not finished" % sorted(set(names) - set(res["finished"])), sc.describe())


def oracle_replaced(ctx, sc, res):
    """after del/add of a command under the same name and a successful run: every command of the program now has completed, none twice since the
    replacement, and everything read after it came from the command that carries the name now"""
    names = [c[0] for c in sc.commands]
    if res["load"] != "ok" or any(o != "ok" for o in res["ops"][1:]):
        ctx.fail("a model whose failing cause was removed and one command replaced still fails: load=%s ops=%s" % (res["load"], res["ops"]), sc.describe())
        return
    for consumer, producer, fin_before, is_final in res["reads"]:
        if not is_final:
            ctx.fail("%s read a result of %s that is not the finished result of the command carrying that name in the program" % (consumer, producer), sc.describe())
            return
    done = [e[1:] for e in res["log"] if e[0] == "-"]
    for n in names:
        if n != sc.replaced and done.count(n) != 1:
            ctx.fail("command %s completed %d times over a failed run, a replacement of %s and a successful run (expected exactly once)" % (n, done.count(n), sc.replaced), sc.describe())
            return
    if sorted(res["finished"]) != sorted(names):
        ctx.fail("after the successful run() the commands %r are not finished" % sorted(set(names) - set(res["finished"])), sc.describe())


def oracle(ctx, sc, res):
    if getattr(sc, "replaced", None) is not None:
        return oracle_replaced(ctx, sc, res)
    if ("flag", 0) in sc.ops:
        return oracle_recovery(ctx, sc, res)
    if res["load"] != "ok" or any(o != "ok" for o in res["ops"]):
        ctx.fail("an acyclic well-formed model failed: load=%s ops=%s" % (res["load"], res["ops"]), sc.describe())
        return
    names = [c[0] for c in sc.commands] + [o[1][0] for o in sc.ops if o[0] in ("add", "addobj")]
    starts = [e[1:] for e in res["log"] if e[0] == "+"]
    did_run = any(o[0] == "run" for o in sc.ops)
    for n in names:
        k = starts.count(n)
        if k > 1 or (did_run and k != 1):
            ctx.fail("command %s executed %d times (expected exactly once)" % (n, k), sc.describe())
            return
    # fed by finished dependencies: a read returns the producer's final result, and the producer's execution lies before the consumer's exit
    for consumer, producer, fin_before, is_final in res["reads"]:
        if not is_final:
            ctx.fail("%s read a result of %s that is not that command's finished result" % (consumer, producer), sc.describe())
            return
    # ... and it reads the results it names, no others: as often as it names them (a command executed once reads each reference once)
    for cmd in list(sc.commands) + [o[1] for o in sc.ops if o[0] in ("add", "addobj")]:
        if starts.count(cmd[0]) == 1:
            got = sorted(prod for consumer, prod, _f, _i in res["reads"] if consumer == cmd[0])
            if got != sorted(graphs.refs_of(cmd)):
                ctx.fail("%s names the results %r but read the results of %r" % (cmd[0], sorted(graphs.refs_of(cmd)), got), sc.describe())
                return
    pos = {e: i for i, e in enumerate(res["log"])}
    for (name, _, _), cmd in zip(sc.commands, sc.commands):
        for d in set(graphs.refs_of(cmd)):
            if "+" + name in pos and ("-" + d not in pos or not pos["-" + d] < pos.get("-" + name, 10 ** 9)):
                ctx.fail("%s finished without its dependency %s having finished first" % (name, d), sc.describe())
                return
    if did_run and sorted(res["finished"]) != sorted(names):
        ctx.fail("after run() the commands %r are not finished" % sorted(set(names) - set(res["finished"])), sc.describe())


TYPED_SRC = '''
from mpilot import params
from mpilot.commands import Command

RETURNED = {}     # result name -> the object its body returned
RUNS = []         # result names, in execution order
READS = []        # (consumer, the object it was handed)


class Five(Command):
    """plug-in style producer (no declared output): any consumer may read it; typed consumers check the finished value"""
    inputs = {}

    def execute(self, **kw):
        RUNS.append(self.result_name)
        RETURNED[self.result_name] = v = 5
        return v


class Word(Command):
    inputs = {}

    def execute(self, **kw):
        RUNS.append(self.result_name)
        RETURNED[self.result_name] = v = "12"
        return v


class _Reader(Command):
    output = params.BooleanParameter()

    def execute(self, **kw):
        RUNS.append(self.result_name)
        x = kw["X"]
        for c in (x if isinstance(x, list) else [x]):
            READS.append((self.result_name, c.result_name, c.result))
        RETURNED[self.result_name] = v = True
        return v


class AsNum(_Reader):
    inputs = {"X": params.ResultParameter(params.NumberParameter())}


class AsStr(_Reader):
    inputs = {"X": params.ResultParameter(params.StringParameter())}


class AsAny(_Reader):
    inputs = {"X": params.ResultParameter()}


class Collect(_Reader):
    inputs = {"X": params.ListParameter(params.ResultParameter())}
'''


def typed_consumers(ctx):
    """one result read by consumers that declare different types for it (number, text, anything, a list): each is handed the very object the
    producer returned, the producer runs once, and its stored result stays that object - through repeated runs and reads, in every file order"""
    import sys, types, itertools
    from mpilot.program import Program
    name = "mpverif_typed"
    if name not in sys.modules:
        m = types.ModuleType(name)
        sys.modules[name] = m
        exec(compile(TYPED_SRC, name, "exec"), m.__dict__)
    m = sys.modules[name]
    rng = ctx.rng
    lines = ["V = Five()", "W = Word()", "A = AsStr(X = V)", "B = AsNum(X = V)", "C = AsAny(X = V)", "D = Collect(X = [V, W, V])", "E = AsNum(X = W)", "F = AsStr(X = W)"]
    for i in range(ctx.budget(12, 300)):
        order = list(lines)
        rng.shuffle(order)
        src = "\n".join(order) + "\n"
        m.RETURNED.clear(); del m.RUNS[:]; del m.READS[:]
        ops = ["run"] + [rng.choice(["run", "read"]) for _ in range(rng.randrange(0, 3))]
        try:
            p = Program.from_source(src, libraries=(name,))
            for op in ops:
                if op == "run":
                    p.run()
                else:
                    p.commands[rng.choice("VWABCDEF")].result
            outcome = "ok"
        except Exception as e:
            outcome = progrun.classify(e)
            p = locals().get("p")
        ctx.case("typed " + src + repr(ops), sample=None)
        ctx.count("typed_consumer_cases")
        desc = {"source": src, "ops": ops}
        if outcome != "ok":
            ctx.fail("a well-typed model with differently typed consumers of one result failed: %s" % outcome, desc)
            continue
        for n in "VWABCDEF":
            if m.RUNS.count(n) != 1:
                ctx.fail("command %s executed %d times (expected exactly once)" % (n, m.RUNS.count(n)), desc)
                break
            if p.commands[n]._result is not m.RETURNED[n]:
                ctx.fail("the stored result of %s is %r, its body returned %r: something replaced it" % (n, p.commands[n]._result, m.RETURNED[n]), desc)
                break
        else:
            for consumer, producer, got in m.READS:
                if got is not m.RETURNED[producer]:
                    ctx.fail("%s was handed %r as the result of %s, whose body returned %r" % (consumer, got, producer, m.RETURNED[producer]), desc)
                    break


def api_spellings(ctx):
    """result names a program gets through the programming interface (add_command takes any text: field names of a table, names with blanks or
    accents) that collapse under lower / upper / casefold, under trimming or squeezing of blanks, under Unicode normalisation, or that are numerals of
    one value: still one result each; every consumer - direct and through a list - reads the one it names, everything executes once"""
    from collections import OrderedDict
    from mpilot.program import Program
    m = prog.testlib()
    rng = ctx.rng
    groups = (["Temp", "TEMP", "temp"], ["Stra\u00dfe", "STRASSE", "strasse", "stra\u00dfe"], ["a b", "a  b", " a b", "a b ", "a\tb"],
              ["\u00e9", "e\u0301", "\u00c9"],                                            # e-acute composed, decomposed, upper case
              ["\u0130stanbul", "istanbul", "\u0131stanbul", "ISTANBUL"],                 # dotted capital I, dotless small i
              ["1", "01", "1.0", "\uff11", "+1"])                                          # numerals of one value (U+FF11 = fullwidth 1)
    for names in groups:
        for rep in range(ctx.budget(1, 30)):
            steps = [(nm, OrderedDict()) for nm in names] + [("use %d" % i, OrderedDict([("One", nm)])) for i, nm in enumerate(names)]
            steps.append(("use all", OrderedDict([("Many", list(names)), ("Nested", [[names[-1]], [names[0]]])])))
            rng.shuffle(steps)
            rec = progrun.Recorder()
            with progrun.stubbed([m.N], rec):
                try:
                    p = Program(libraries=(prog.TESTLIB,))
                    for res, args in steps:
                        p.add_command(m.N, res, args)
                    p.run()
                    p.commands[names[0]].result
                    p.run()
                    out = "ok"
                except Exception as e:
                    out = progrun.classify(e)
            ctx.case("api-spellings %r %r" % (names, [st[0] for st in steps]), sample=None)
            ctx.count("api_spelling_cases")
            desc = {"built_with": "Program.add_command(N, result_name, arguments) in this order, then run(), a result read, run()", "commands": [[r, dict(a)] for r, a in steps]}
            if out != "ok":
                ctx.fail("a well-formed model over the result names %r failed: %s" % (names, out), desc)
                continue
            starts = [e[1:] for e in rec.log if e[0] == "+"]
            bad = [res for res, _a in steps if starts.count(res) != 1]
            if bad:
                ctx.fail("command %r executed %d times (expected exactly once)" % (bad[0], starts.count(bad[0])), desc)
                continue
            for res, args in steps:
                want = sorted([args["One"]] if "One" in args else []) if "Many" not in args else sorted(args["Many"] + [g[0] for g in args["Nested"]])
                got = sorted(prod for consumer, prod, _f, _i in rec.reads if consumer == res)
                if got != want:
                    ctx.fail("%r names the results %r but read the results of %r" % (res, want, got), desc)
                    break


SCALE_LIB = "mpverif_c01scale"

SCALE_SRC = '''
import numpy
from mpilot import params
from mpilot.commands import Command

READS = []        # (consumer, producer, the object the consumer was handed)


class Grid(Command):
    """producer: a field of Cells cells in Rows rows, the first cell missing"""
    inputs = {"Cells": params.NumberParameter(), "Rows": params.NumberParameter(), "Kind": params.StringParameter(required=False)}
    output = params.DataParameter()

    def execute(self, **kw):
        a = numpy.ma.masked_array(numpy.arange(kw["Cells"], dtype=kw.get("Kind", "float64")).reshape(kw["Rows"], -1) % 97)
        a[0, 0] = numpy.ma.masked
        return a


class Scale(Command):
    """intermediate: a new field of the same size"""
    inputs = {"In": params.ResultParameter(params.DataParameter())}
    output = params.DataParameter()

    def execute(self, **kw):
        r = kw["In"].result
        READS.append((self.result_name, kw["In"].result_name, r))
        return r * 0.5


class Pick(Command):
    """consumer: a few numbers taken from every field listed"""
    inputs = {"Of": params.ListParameter(params.ResultParameter(params.DataParameter()))}
    output = params.DataParameter()

    def execute(self, **kw):
        out = []
        for c in kw["Of"]:
            r = c.result
            READS.append((self.result_name, c.result_name, r))
            out.append(float(r.reshape(-1)[-1]))
        return numpy.ma.masked_array(out)
'''

# models of the ladder: {n} = cells, {r} = rows, {k} = element type.  Producer -> intermediate(s) -> consumer(s); built-in commands in between
SCALE_MODELS = {
    "chain": ["G = Grid(Cells = {n}, Rows = {r}, Kind = {k})", "H = Scale(In = G)", "T = Pick(Of = [H])"],
    "diamond": ["G = Grid(Cells = {n}, Rows = {r}, Kind = {k})", "H = Scale(In = G)", "S = Sum(InFieldNames = [G, H])", "T = Pick(Of = [H, S])"],
    "levels": ["G = Grid(Cells = {n}, Rows = {r}, Kind = {k})", "H = Copy(InFieldName = G)", "I = Scale(In = H)", "J = AMinusB(A = H, B = I)", "T = Pick(Of = [J])", "U = Pick(Of = [I, J])"],
}


def fingerprint(a):
    import numpy
    if not isinstance(a, numpy.ndarray):
        return repr(a)
    return (a.shape, str(a.dtype), int(numpy.ma.count_masked(a)), float(numpy.ma.filled(a, 0).sum(dtype="float64")))


def scale_ladder(ctx):
    """"exactly once" and "reading a result again executes nothing further" are stated for every program, whatever the size of its fields: the same three small
    models (producer -> intermediate results -> consumers; plug-in commands and built-in ones) on a ladder of field sizes from a handful of cells to several
    million (tens of megabytes per result - where an implementation may be tempted to drop or recompute intermediate results), 1, 3 or 1000 rows, 8- and 4-byte
    cells.  After run(): every result - the intermediate ones first - is read again, run() is called again, a consumer of an intermediate result is added and run:
    executions are counted around every `execute`, every result read must be the one its body returned, every consumer must have been handed exactly that"""
    import contextlib, gc, sys, types
    from collections import OrderedDict
    from mpilot.program import Program
    if SCALE_LIB not in sys.modules:
        m = types.ModuleType(SCALE_LIB)
        sys.modules[SCALE_LIB] = m
        exec(compile(SCALE_SRC, SCALE_LIB, "exec"), m.__dict__)
    m = sys.modules[SCALE_LIB]
    libs = ("mpilot.libraries.eems.basic", SCALE_LIB)
    rng = ctx.rng
    runs, returned = [], {}

    @contextlib.contextmanager
    def counted(classes):
        saved = [(c, c.__dict__["execute"]) for c in classes]

        def wrap(orig):
            def execute(self, **kw):
                runs.append(self.result_name)
                out = orig(self, **kw)
                returned.setdefault(self.result_name, []).append(out)
                return out
            return execute
        for c, orig in saved:
            c.execute = wrap(orig)
        try:
            yield
        finally:
            for c, orig in saved:
                c.execute = orig
    lib = Program(libraries=libs).command_library
    used = [lib[n] for n in ("Grid", "Scale", "Pick", "Sum", "Copy", "AMinusB")]
    # the ladder: every model at every size up to 10^5 in three file orders and three histories; above, each size once per model, order and history rotating
    plan = []
    for model in sorted(SCALE_MODELS):
        for n in (6, 3000, 100000):
            for order in ("inputs-first", "users-first", "shuffled"):
                rows = rng.choice([1, 3, 1000 if n % 1000 == 0 else 2])
                plan.append((model, n - n % rows, rows, "float64", order, ("after", "before", "late")[len(plan) % 3]))
    k = rng.randrange(6)
    for i, n in enumerate((600000, 1500000, 2500000, 4000000, 6000000)):
        # the top of the ladder (32 / 48 MB per result) with two / one of the models, rotating: keeps the check to a few seconds and a few hundred megabytes
        for model in sorted(SCALE_MODELS) if n <= 2500000 else [sorted(SCALE_MODELS)[(k + j) % 3] for j in range(6000000 // n + (n < 6000000))]:
            k += 1
            rows = (3, 1000, 1)[k % 3]
            n_ = n + 3000 * rng.randrange(0, 30)
            plan.append((model, n_ - n_ % rows, rows, "float32" if k % 5 == 0 else "float64",
                         ("users-first", "shuffled", "inputs-first")[k % 3], ("after", "late", "before")[(k // 3) % 3]))
    for model, n, rows, kind, order, history in plan:
        lines = [ln.format(n=n, r=rows, k=kind) for ln in SCALE_MODELS[model]]
        if order == "users-first":
            lines.reverse()
        elif order == "shuffled":
            rng.shuffle(lines)
        src = "\n".join(lines) + "\n"
        names = [ln.split(" = ")[0] for ln in lines]
        inner = [nm for nm in sorted(names) if nm not in ("T", "U")]
        # histories: read everything after run / a consumer's result read before the first run / a consumer of an intermediate result added after run
        ops = {"after": [("run",)] + [("read", nm) for nm in inner + ["T"]] + [("run",), ("read", inner[-1])],
               "before": [("read", "T"), ("read", inner[0]), ("run",)] + [("read", nm) for nm in inner] + [("run",)],
               "late": [("run",), ("add", "late", inner[-1]), ("read", inner[0]), ("run",), ("read", "late"), ("add", "late2", inner[0]), ("run",)]}[history]
        del runs[:]; returned.clear(); del m.READS[:]
        desc = {"source": src, "ops": [list(o) for o in ops], "libraries": list(libs), "cells_per_result": n, "bytes_per_result": n * (4 if kind == "float32" else 8),
                "plugin_library": "harness/props/c01.py SCALE_SRC (module %s); add = Program.add_command(Pick, name, {Of: [result]})" % SCALE_LIB}
        ctx.case("scale %s %d %d %s %s %s" % (model, n, rows, kind, order, history), sample=None)
        ctx.count("scale_ladder_cases")
        ctx.count("scale_cells:1e%d" % (len(str(n)) - 1))
        problem = None
        p = None
        with counted(used):
            try:
                p = Program.from_source(src, libraries=libs)
                present = list(names)
                for i, op in enumerate(ops):
                    at = "after %s" % " ".join("%s(%s)" % (o[0], ", ".join(o[1:])) for o in ops[:i + 1])
                    if op[0] == "run":
                        p.run()
                        missing = [nm for nm in present if runs.count(nm) == 0]
                        if missing:
                            problem = "%s: %r never executed" % (at, missing)
                    elif op[0] == "add":
                        p.add_command(lib["Pick"], op[1], OrderedDict([("Of", [op[2]])]))
                        present.append(op[1])
                    else:
                        got = p.commands[op[1]].result
                        if runs.count(op[1]) == 1 and fingerprint(got) != fingerprint(returned[op[1]][0]):
                            problem = "%s: the result of %s read is %r, its body returned %r" % (at, op[1], fingerprint(got), fingerprint(returned[op[1]][0]))
                    twice = [nm for nm in present if runs.count(nm) > 1]
                    if twice and not problem:
                        problem = "%s: executions %r (expected at most once each: %s executed again)" % (at, dict((nm, runs.count(nm)) for nm in present), ", ".join(twice))
                    if problem:
                        break
                if not problem:
                    for consumer, producer, got in m.READS:
                        if fingerprint(got) != fingerprint(returned[producer][0]):
                            problem = "%s was handed %r as the result of %s, whose body returned %r" % (consumer, fingerprint(got), producer, fingerprint(returned[producer][0]))
                            break
            except Exception as e:
                problem = "a well-formed acyclic model failed: %s" % progrun.classify(e)
        if problem:
            ctx.fail("%d cells per result (%s model, written %s): %s" % (n, model, order, problem), desc)
        del p
        returned.clear(); del m.READS[:]
        got = None
        gc.collect()


def run(ctx):
    ctx.check_proofs(["MPilot.Props.C01", "MPilot.Props.C01Hist", "MPilot.Props.C01Edit"])
    model = common.Model()
    scs = scenarios(ctx)
    classes = decl_classes()
    answers = model.ask([sc.protocol(classes) for sc in scs])
    for sc, ans in zip(scs, answers):
        res = progrun.run_impl(sc)
        ctx.case(sc.source + repr(sc.ops), sample={"source": sc.source[:600], "ops": [list(o) for o in sc.ops], "impl": progrun.impl_text(res)[:300], "model": ans[:300]})
        ctx.count("n_commands:%02d" % min(len(sc.commands), 13))
        ctx.count("ops:%d" % len(sc.ops))
        d = progrun.compare(res, ans)
        if d:
            ctx.disagree("run-loop", sc.describe(), d[0][:600], d[1][:600])
        oracle(ctx, sc, res)
    typed_consumers(ctx)
    api_spellings(ctx)
    scale_ladder(ctx)
    return ctx.finish(
        rule="scenarios = (acyclic graph over opaque logging commands with references through direct parameters, lists and nested lists, "
             "repeated references, fan-in <= 5; textual order: every permutation for <= 3 commands, sampled above; chains of 20-60; "
             "tail of run()/result accesses incl. a result read before the first run); distinct by source text + ops",
        explanation="theorems in Props/C01.lean hold for the model's run loop for every acyclic program and every op sequence; the event log "
                    "(execute entry/exit order) of the real Program on each scenario is compared with the model's; counting oracles run on the implementation")


def replay(path):
    import json
    print(json.dumps(json.load(open(path)), indent=1)[:6000])
    return 0
