"""C12 — models are accepted iff well-formed, and rejected before any side effect.

proof:          lean/MPilot/Props/C12.lean
correspondence: every built-in command (CSV libraries) and the harness' test commands x every parameter x every kind of wrong value,
                producer/consumer pairings (fuzzy/non-fuzzy, data/non-data), single faults at every position of valid models;
                real Program.from_source + run() (stub bodies logging execution and side effects) vs the model's load + pre-pass
oracles:        well-formed models are accepted and run; every injected fault is rejected with its specific error carrying the line of the
                offending command/argument, with nothing executed and no effect performed; every spelling of a number as text is a Number
                (and text that is none is not); user-defined Parameter kinds refining one another as declared output / wanted kind (oracle only);
                every parameter x the "nothing" of every kind (0, 0.0, -0.0, "", [], {}, False, None, ()) and values only the programming interface delivers
                (None, Python tuples, type objects, Command objects), from a command file and through add_command, for required / optional / undeclared parameters
"""
import os

from .. import common, prog, progrun
from ..progrun import Scenario, Name

LIBS = progrun.EEMS_LIBS + (prog.TESTLIB,)


def valid_value(rng, p, env, name=None):
    from mpilot import params as P
    cls = type(p)
    if cls is P.Parameter:
        return 1
    if cls is P.StringParameter:
        return {"Direction": "LowToHigh", "TruestOrFalsest": "Truest"}.get(name, "text")
    if cls is P.NumberParameter:
        return rng.choice([1, 2, 0.5])
    if cls is P.BooleanParameter:
        return rng.choice([True, False])
    if cls is P.PathParameter:
        return env["in"] if p.must_exist else rng.choice(["out_%s.csv", "newdir_%s/out.csv"]) % rng.randrange(1000)
    if cls is P.ResultParameter:
        if p.is_fuzzy is True:
            return Name("Fz")
        if p.is_fuzzy is False:
            return Name("Rd")
        if p.output_type is not None and type(p.output_type) is P.DataParameter:
            return Name(rng.choice(["Rd", "Fz"]))
        return Name(rng.choice(["Rd", "Fz", "Tok"]))
    if cls is P.ListParameter:
        k = 2 if name in ("Weights",) else rng.randrange(1, 4)
        if name in ("InFieldNames", "OutFieldNames", "DataList", "FDataList", "Many"):
            k = 2
        return [valid_value(rng, p.value_type, env) for _ in range(k)]
    if cls is P.TupleParameter:
        return {"k": "v"}
    if cls is P.DataTypeParameter:
        return rng.choice(list(p.valid_types))
    raise ValueError(cls)


def wrong_values(p, name):
    """(value, expected error class) pairs of the wrong kind for parameter p"""
    from mpilot import params as P
    cls = type(p)
    if cls is P.NumberParameter:
        return [("abc", "ParameterNotValid"), ([1, 2], "ParameterNotValid"), ({"a": "b"}, "ParameterNotValid"), ("1.2.3", "ParameterNotValid")]
    if cls is P.BooleanParameter:
        return [("maybe", "ParameterNotValid"), (2.5, "ParameterNotValid"), ([1], "ParameterNotValid")]
    if cls is P.PathParameter:
        out = [([1], "ParameterNotValid"), ({"a": "b"}, "ParameterNotValid")]
        if p.must_exist:
            out.append(("missing_file.csv", "PathDoesNotExist"))
            # names the file system itself refuses (longer than any file name may be; a directory component that is a file): they do not exist
            out.append(("n" * 300 + ".csv", "PathDoesNotExist"))
            out.append(("in.csv/inside.csv", "PathDoesNotExist"))
        return out
    if cls is P.ResultParameter:
        out = [(Name("NoSuch"), "ResultDoesNotExist"), (5, "ParameterNotValid"), ([Name("Rd")], "ParameterNotValid")]
        if p.is_fuzzy is True:
            out.append((Name("Rd"), "ResultNotFuzzy"))
        if p.is_fuzzy is False:
            out.append((Name("Fz"), "ResultIsFuzzy"))
        if p.output_type is not None and type(p.output_type) is P.DataParameter and p.is_fuzzy is not True:
            out.append((Name("Tok"), "ResultTypeNotValid"))
        return out
    if cls is P.ListParameter:
        out = [(5, "ParameterNotValid"), (Name("word"), "ParameterNotValid"), ({"a": "b"}, "ParameterNotValid")]
        for v, e in wrong_values(p.value_type, name):
            out.append(([v], e))
        return out
    if cls is P.TupleParameter:
        return [("x", "ParameterNotValid"), (5, "ParameterNotValid"), ([1, 2], "ParameterNotValid")]
    if cls is P.DataTypeParameter:
        # (type names that only another library's reader knows are no type names here)
        return [("Nope", "ParameterNotValid"), (5, "ParameterNotValid"), (["Float"], "ParameterNotValid")] + \
            [(n, "ParameterNotValid") for n in ("Positive Integer", "Fuzzy", "Positive Float") if n not in p.valid_types]

    return []


def documented_wrong(cls, name):
    """what the documentation of a built-in command rules out, written down here rather than read from the parameter object (which a shared table could have altered)"""
    if cls.__module__ == "mpilot.libraries.eems.csv.io" and cls.name == "EEMSRead" and name == "DataType":
        return [(n, "ParameterNotValid") for n in ("Positive Integer", "Fuzzy", "Positive Float")]
    return []


def producers(env):
    return [("Rd", "EEMSRead", [("InFileName", env["in"]), ("InFieldName", "a")]),
            ("Fz", "CvtToFuzzy", [("InFieldName", Name("Rd"))]),
            ("Tok", "N", [])]


def valid_call(rng, cls, env, res="T"):
    args = []
    for name, p in cls.inputs.items():
        if name == "Metadata" and rng.random() < 0.7:
            continue
        if p.required or rng.random() < 0.4:
            if name == "Fail":
                continue
            args.append((name, valid_value(rng, p, env, name)))
    return (res, cls.name, args)


def eems2_faults(ctx, model, tmp, env, classes):
    """the same well-formedness rules hold for files in EEMS 2.0 syntax (and mixed files): duplicate result names (given through NewFieldName
    or by the input field) and unknown commands are rejected with the line of the offending command, before anything runs"""
    from . import c16
    from ..common import enc_str
    rng = ctx.rng
    tbl = c16.table()
    by_name = dict((c.name, c) for c in classes)
    tenc = "%d %s" % (len(tbl), " ".join("%s %s" % (enc_str(k), enc_str(v)) for k, v in tbl.items()))
    items = []
    for _ in range(ctx.budget(12, 400)):
        try:
            v2, v3, names = c16.gen_model(rng, env, {k: v for k, v in tbl.items() if v in by_name}, by_name)
        except KeyError:
            continue
        j = rng.randrange(len(v2))
        kind = rng.choice(["duplicate", "duplicate", "unknown"])
        if kind == "duplicate":
            # a later command delivering a result name that is already taken
            dup = names[rng.randrange(j + 1)]
            style = rng.choice(["v2", "mpilot"])
            src_res = v2[0][2]
            if style == "v2":
                bad = (None, "READ", [("InFileName", env["in"]), ("InFieldName", Name("a")), ("NewFieldName", Name(dup))])
            else:
                bad = (dup, "EEMSRead", [("InFileName", env["in"]), ("InFieldName", Name("a"))])
            c2 = v2[:j + 1] + [bad] + v2[j + 1:]
            err = "DuplicateResult"
        else:
            # unknown legacy name, or one that differs from a legacy / MPilot name only in case
            bad = (None, rng.choice(["NOSUCHCOMMAND", "Not", "cvttofuzzy", "sUM", "copy", "Union"]), [("InFieldName", Name(names[0])), ("NewFieldName", Name("Zz"))])
            c2 = v2[:j + 1] + [bad] + v2[j + 1:]
            err = "CommandDoesNotExist"
        sc = Scenario(c2, wd=tmp, libs=LIBS)
        items.append((sc, err, sc.lines[j + 1][0], kind))
    lines = ["load %s %s %d %s %s 1 run" % (prog.enc_env(tmp, sc.existing_paths()), tenc, len(classes), " ".join(prog.enc_decl(c) for c in classes), enc_str(sc.source))
             for sc, _, _, _ in items]
    for (sc, err, line, kind), ans in zip(items, model.ask(lines)):
        res = progrun.run_impl(sc)
        outcome = res["load"] if res["load"] != "ok" else res["ops"][0]
        ctx.case(sc.source, sample={"kind": "eems2-" + kind, "source": sc.source[-400:], "impl": outcome, "model": ans[:120]})
        ctx.count("kind:eems2-" + kind)
        if "OutsideModel" in ans:
            ctx.count("outside_model_domain")
        elif not ans.startswith("load " + outcome):
            ctx.disagree("load:eems2-fault", sc.describe(), "load " + outcome, ans[:300])
        want = "mp:%s:%s" % (err, line)
        if outcome != want:
            ctx.fail("ill-formed EEMS 2.0 model (%s): %s, expected %s" % (kind, "accepted" if outcome == "ok" else "reported " + outcome, want), sc.describe())
        if res["log"] or res["effects"]:
            ctx.fail("ill-formed EEMS 2.0 model (%s): rejected only after executing %r" % (kind, res["log"]), sc.describe())


# numbers as text: what a quoted value, or an unquoted one the lexer does not read as a number (1e3, 1_000), hands to a Number parameter.  A Number is what
# int() or float() reads: integer literals, decimals, exponent forms - whole-valued or not, signed or not.  The rest is no number.
NUMBER_TEXTS = ["12", "+3", "-12", " 7 ", "1_000", "00", "-0", "9007199254740993", "2.5", ".5", "5.", "1.0", "1000.0", "-0.0", "0.0", "3.14159", "1_0.2_5", "1e3", "1E3", "10e2", "1e5", "+1e+3", "-2E+2",
                "5e-1", "1.5e1", "2.5E-1", "1e-3", "25e-1", "100e-2", "0e0", "1.0e0", "12345678901234567890.0", "1e22", "\t8\n"]
NUMBER_WORDS = ["1e3", "1E3", "10e2", "1_000", "2e0"]          # written without quotes
NOT_NUMBER_TEXTS = ["abc", "1e", "e3", "1,5", "1e3.0", "0x10", "1__0", "", "1 2", "--1", "1e3x", "1.2.3", "_1", "1e+", "."]


def number_spellings(rng, classes, env, tmp):
    """every Number parameter (and every list of numbers) of every command, given each spelling of a number / each text that is no number"""
    from mpilot import params as P
    pairs = []
    for cls in classes:
        for name, p in cls.inputs.items():
            if type(p) is P.NumberParameter:
                pairs.append((cls, name, False))
            elif type(p) is P.ListParameter and type(p.value_type) is P.NumberParameter:
                pairs.append((cls, name, True))
    out = []
    spellings = [(t, None) for t in NUMBER_TEXTS] + [(Name(t), None) for t in NUMBER_WORDS] + [(t, "ParameterNotValid") for t in NOT_NUMBER_TEXTS]
    for k, (text, err) in enumerate(spellings):
        for cls, name, listy in (pairs[k % len(pairs)], pairs[(5 * k + 3) % len(pairs)], rng.choice(pairs)):
            call = valid_call(rng, cls, env)
            v = [1, text] if listy else text
            args = [(n, x) for n, x in call[2] if n != name] + [(name, v)]
            cmds = producers(env) + [(call[0], call[1], args)]
            sc = Scenario(cmds, wd=tmp, libs=LIBS)
            out.append((sc, None if err is None else (err, sc.lines[len(cmds) - 1][1][len(args) - 1]), "number-text:%s.%s" % (cls.name, name)))
    return out


KINDS_LIB = "mpverif_kinds"
# kind -> the kind it refines (a plug-in library's own Parameter classes next to the built-in ones; none of them is below String / Number, whose
# documented mutual acceptance is a rule of its own)
KIND_PARENT = {"Parameter": None, "Data": "Parameter", "Boolean": "Parameter", "List": "Parameter", "Tuple": "Parameter", "Grid": "Data", "FineGrid": "Grid", "Series": "Data",
               "Flag": "Boolean", "Points": "List", "Token": "Parameter", "SubToken": "Token"}
KINDS_SRC = '''
import numpy
from mpilot import params
from mpilot.commands import Command

LOG = []
PARENT = %r
KINDS = {"Parameter": params.Parameter, "Data": params.DataParameter, "Boolean": params.BooleanParameter, "List": params.ListParameter, "Tuple": params.TupleParameter}
VALUES = {"Data": lambda: numpy.ma.array([1.5, 2.0]), "Boolean": lambda: True, "List": lambda: [1, 2], "Tuple": lambda: {"k": "v"}, "Parameter": lambda: "anything", "Token": lambda: "tok"}


def root_value(kind):
    while kind not in VALUES:
        kind = PARENT[kind]
    return VALUES[kind]()


def define(kind):
    if kind not in KINDS:
        define(PARENT[kind])
        KINDS[kind] = type(kind + "Parameter", (KINDS[PARENT[kind]],), {"__module__": __name__, "__doc__": "a refinement of " + PARENT[kind]})
    return KINDS[kind]


def make(kind):
    def execute(self, **kw):
        LOG.append(self.result_name)
        return root_value(kind)
    return type(Command)("Make" + kind, (Command,), {"__module__": __name__, "inputs": {}, "output": define(kind)(), "execute": execute})


def want(kind):
    def execute(self, **kw):
        LOG.append(self.result_name)
        for c in ([kw["One"]] if "One" in kw else []) + list(kw.get("Many", [])):
            c.result
        return True
    return type(Command)("Want" + kind, (Command,), {"__module__": __name__, "output": params.BooleanParameter(), "execute": execute, "inputs": {
        "One": params.ResultParameter(define(kind)(), required=False), "Many": params.ListParameter(params.ResultParameter(define(kind)()), required=False)}})


for _k in sorted(PARENT):
    make(_k)
    want(_k)
''' % (KIND_PARENT,)


def kind_hierarchies(ctx, tmp, env):
    """"every referenced result has the declared output kind" over kinds that refine one another (a plug-in's Grid is Data, its FineGrid is a Grid; Data is not a
    Grid): every producer kind x every wanted kind, given directly and through a list, consumer before and after the producer in the file, built-in
    producers and consumers included.  Accepted exactly when the producer's declared kind is the wanted kind or refines it; otherwise ResultTypeNotValid
    naming the result, on the consumer's argument line, before anything has executed.  Real bodies (the model has no user-defined kinds: oracle only)"""
    import contextlib, io, sys, types
    from mpilot.program import Program
    if KINDS_LIB not in sys.modules:
        m = types.ModuleType(KINDS_LIB)
        sys.modules[KINDS_LIB] = m
        exec(compile(KINDS_SRC, KINDS_LIB, "exec"), m.__dict__)
    m = sys.modules[KINDS_LIB]
    libs = progrun.EEMS_LIBS + (KINDS_LIB,)

    def is_a(k, w):
        while k is not None:
            if k == w:
                return True
            k = KIND_PARENT[k]
        return False
    kinds = sorted(KIND_PARENT)
    # (producer command, its kind), (consumer command, argument, list?, wanted kind)
    producers_ = [("Make" + k, [], k) for k in kinds] + [("EEMSRead", [("InFileName", env["in"]), ("InFieldName", "a")], "Data")]
    consumers_ = [("Want" + k, arg, listy, k) for k in kinds for arg, listy in (("One", False), ("Many", True))] + \
                 [("Copy", "InFieldName", False, "Data"), ("Sum", "InFieldNames", True, "Data"), ("EEMSWrite", "OutFieldNames", True, "Data")]
    for pcmd, pargs, pk in producers_:
        for ccmd, arg, listy, wk in consumers_:
            for consumer_first in (False, True):
                extra = [("OutFileName", "kinds_out.csv")] if ccmd == "EEMSWrite" else []
                cons = ("T", ccmd, extra + [(arg, [Name("Src")] if listy else Name("Src"))])
                cmds = [("Other", "MakeToken", []), ("Src", pcmd, pargs)]
                cmds = ([cons] + cmds) if consumer_first else (cmds + [cons])
                sc = Scenario(cmds, wd=tmp, libs=libs, blank={0: 1, len(cmds) - 1: 2})
                line = sc.lines[0 if consumer_first else len(cmds) - 1][1][-1]
                del m.LOG[:]
                p = None
                try:
                    with contextlib.redirect_stdout(io.StringIO()):
                        p = Program.from_source(sc.source, libraries=libs, working_dir=tmp)
                        p.run()
                    outcome, exc = "ok", None
                except BaseException as e:
                    outcome, exc = progrun.classify(e), e
                ran = list(m.LOG) + ([n for n, c in p.commands.items() if c.is_finished and n not in m.LOG] if p is not None else [])
                wrote = os.path.exists(os.path.join(tmp, "kinds_out.csv"))
                if wrote:
                    os.remove(os.path.join(tmp, "kinds_out.csv"))
                ctx.case("kinds " + sc.source, sample={"kind": "kind-hierarchy", "source": sc.source, "impl": outcome})
                ctx.count("kind:kind-hierarchy")
                desc = dict(sc.describe(), producer_kind=pk, wanted_kind=wk, refines=dict((k, v) for k, v in KIND_PARENT.items() if v))
                if is_a(pk, wk):
                    ctx.count("kind_hierarchy_wellformed")
                    if outcome != "ok":
                        ctx.fail("well-formed model rejected (%s): the result of %s is declared %s, which is %s %s as %s wants" % (
                            outcome, pcmd, pk, "the kind" if pk == wk else "a refinement of", wk, ccmd), desc)
                    elif sorted(ran) != ["Other", "Src", "T"]:
                        ctx.fail("well-formed model accepted, but run() executed %r" % sorted(ran), desc)
                else:
                    want = "mp:ResultTypeNotValid:%d" % line
                    if outcome == "ok":
                        ctx.fail("ill-formed model accepted and executed (%r): %s wants a %s result, the result of %s is declared %s, which is no %s" % (ran, ccmd, wk, pcmd, pk, wk), desc)
                    elif outcome != want:
                        ctx.fail("ill-formed model (%s wants %s, %s delivers %s): reported %s, expected %s" % (ccmd, wk, pcmd, pk, outcome, want), desc)
                    elif getattr(exc, "result", None) != "Src":
                        ctx.fail("ResultTypeNotValid names %r; the offending result is Src" % (getattr(exc, "result", None),), desc)
                    if outcome != "ok" and (ran or wrote):
                        ctx.fail("ill-formed model (%s wants %s, %s delivers %s): rejected (%s) only after executing %r" % (ccmd, wk, pcmd, pk, outcome, ran), desc)


# the "nothing" of every kind: what a tidy `if not value` takes for "not given".  A value of the wrong kind is of the wrong kind whether or not it is falsy.
FALSY = [0, 0.0, -0.0, "", [], {}, False, None, ()]
SOURCE_FALSY = [0, 0.0, -0.0, "", []]          # those a command file can deliver ({} is written like []; False arrives as the text "False")
CMD = Name("Tok")                              # through add_command: the Command object itself (op addobj)
API_ONLY = [(1, 2), float, CMD]                # values no command file delivers (None and () are among the falsy ones)
PNV = "ParameterNotValid"


def kind_verdict(p, v):
    """None: v is of the kind p declares; an error class: it is not, and that is the specific error; "?": the property text does not decide (a Boolean
    given to a Number, a number or the empty text given as a Path, an empty Python tuple as a Tuple, kinds defined by a plug-in) - no case is built"""
    from mpilot import params as P
    cls, t = type(p), type(v)
    if cls is P.NumberParameter:
        return None if t in (int, float) else "?" if t is bool else PNV
    if cls is P.BooleanParameter:
        return None if t in (bool, int) else "?" if t is float else PNV          # (the only int tried is 0: one of the true/false/0/1 forms)
    if cls is P.PathParameter:
        return "?" if t in (int, float, str) else PNV
    if cls is P.ResultParameter:
        return "?" if t is Name else "ResultDoesNotExist" if t is str else PNV    # (the only text tried is "": no result carries that name)
    if cls is P.ListParameter:
        return (None if len(v) == 0 else "?") if t in (list, tuple) else PNV
    if cls is P.TupleParameter:
        return None if (t is dict or (t is list and not v)) else "?" if (t is tuple and not v) else PNV
    if cls is P.DataTypeParameter:
        return "?" if t is type else PNV
    return "?"


def kind_cases(p, values, item_values):
    """(value, verdict, offending value) for parameter p: each of `values` itself and - for lists - one-item lists of `item_values` the item kind rules out"""
    from mpilot import params as P
    out = [(v, kind_verdict(p, v), v) for v in values]
    if type(p) is P.ListParameter:
        out += [([v], kind_verdict(p.value_type, v), v) for v in item_values if kind_verdict(p.value_type, v) not in (None, "?")]
    return [c for c in out if c[1] != "?"]


def with_arg(call, name, v, first=False):
    rest = [(n, x) for n, x in call[2] if n != name]
    return (call[0], call[1], ([(name, v)] + rest) if first else (rest + [(name, v)]))


def nothing_values_from_source(ctx, classes, calls, env, tmp):
    """every parameter of every command given the "nothing" of every kind in a command file: accepted exactly when that value is of the declared kind
    ([] for a list or a tuple, 0 / 0.0 for a number, 0 for a boolean), otherwise the specific error on the argument's line before anything runs.
    Full matrix for the first parameter of each declaration (kind, item kind, required or not) and in the thorough tier; two values in rotation for the others"""
    out, seen, k = [], set(), 0
    for cls in classes:
        call = calls.get(cls.name)
        if call is None:
            continue
        for name, p in cls.inputs.items():
            cases = kind_cases(p, SOURCE_FALSY, [0, ""])
            if not cases:
                continue
            key = (prog.enc_spec(p), p.required)
            if not (ctx.thorough or key not in seen):
                k += 1
                cases = [cases[(2 * k) % len(cases)], cases[(2 * k + 1) % len(cases)]]
            seen.add(key)
            for v, verdict, _ in cases:
                c = with_arg(call, name, v)
                cmds = producers(env) + [c]
                sc = Scenario(cmds, wd=tmp, libs=LIBS)
                out.append((sc, None if verdict is None else (verdict, sc.lines[len(cmds) - 1][1][len(c[2]) - 1]), "%s:%s.%s" % ("nothing-value" if verdict else "nothing-value-ok", cls.name, name)))
    return out


def run_api(sc):
    """progrun.run_impl for scenarios whose ops are ("add", command) and ("run",), with the argument values handed to add_command as the Python values they
    are (progrun hands True / False over as the words a command file holds): references by name, CMD as the Command object that carries that name"""
    import contextlib, io
    from collections import OrderedDict
    from mpilot.program import Program
    rec = progrun.Recorder()
    _, classes = progrun.library_classes(sc.libs)
    res = {"ops": [], "log": rec.log, "reads": rec.reads, "effects": rec.effects, "program": None, "finished": [], "str_errors": []}
    with progrun.stubbed(classes, rec):
        try:
            p = Program.from_source(sc.source, libraries=sc.libs, working_dir=sc.wd)
        except BaseException as e:
            res["load"], res["exc"] = progrun.classify(e), e
            return res
        res["load"], res["program"] = "ok", p

        def py(v):
            if isinstance(v, Name):
                return p.commands[v.s] if v is CMD else v.s
            return [py(x) for x in v] if isinstance(v, list) else v
        for op in sc.ops:
            try:
                with contextlib.redirect_stdout(io.StringIO()):
                    if op[0] == "run":
                        p.run()
                    else:
                        p.add_command(p.find_command_class(op[1][1]), op[1][0], OrderedDict((n, py(v)) for n, v in op[1][2]))
                res["ops"].append("ok")
            except BaseException as e:
                res["ops"].append(progrun.classify(e))
                res["exc"] = e
        res["finished"] = [n for n, c in p.commands.items() if c.is_finished]
    return res


def api_values(ctx, model, classes, calls, env, tmp):
    """models built with Program.add_command, which takes any Python value: every parameter of every command (required or optional) given the "nothing" of every
    kind, None, a Python tuple, a type object, a Command object; undeclared parameters given None and other values.  Accepted exactly when the value is of the
    declared kind; otherwise rejected - by add_command or by run() - with the specific error naming the value / the parameter, before anything has executed
    or been written.  None is always tried; the full matrix for the first parameter of each declaration and in the thorough tier, rotation for the others"""
    from mpilot import params as P
    items, seen, k = [], set(), 0
    base = producers(env) + [("Eff", "W", [])]

    def item(cls, c, verdict, offender, tag, pname):
        # (the model is asked where the protocol renders the value as it is: it writes True / False as the words of a command file and references as names)
        faithful = not any(x is CMD or isinstance(x, bool) or (isinstance(x, list) and any(y is CMD or isinstance(y, bool) for y in x)) for _, x in c[2])
        sc = Scenario(base, ops=[("add", c), ("run",)], wd=tmp, libs=LIBS)
        items.append((sc, verdict, offender, "%s:%s.%s" % (tag, cls.name, pname), faithful, pname))
    for cls in classes:
        call = calls.get(cls.name)
        if call is None:
            continue
        for name, p in cls.inputs.items():
            cases = kind_cases(p, FALSY + API_ONLY, [0, "", None, {}, ()])
            if not cases:
                continue
            key = (prog.enc_spec(p), p.required)
            if not (ctx.thorough or key not in seen):
                k += 1
                others = [c for c in cases if c[0] is not None]
                cases = [c for c in cases if c[0] is None] + [others[k % len(others)]]
            seen.add(key)
            for v, verdict, offender in cases:
                item(cls, with_arg(call, name, v, first=(k % 2 == 1)), verdict, offender, "api-value" if verdict else "api-value-ok", name)
        # an undeclared parameter is undeclared whatever it is given - also a name that differs from a declared one in case only
        extra = [None] + (FALSY[:7] + [(), 1, "x", float, CMD] if ctx.thorough or cls.name in ("S", "Sum") else [(FALSY[:7] + [(), 1, "x", float])[len(items) % 11]])
        for j, v in enumerate(extra):
            bogus = ("Bogus", "metadata", "Infieldnames")[j % 3]
            item(cls, with_arg(call, bogus, v, first=(j % 2 == 1)), None if cls.allow_extra_inputs else "NoSuchParameter", bogus, "api-undeclared", bogus)
    asked = [it for it in items if it[4]]
    answers = dict((id(it[0]), a) for it, a in zip(asked, model.ask([it[0].protocol(classes) for it in asked])))
    for sc, verdict, offender, tag, _, pname in items:
        before_tree = tree(tmp)
        res = run_api(sc)
        ctx.case(sc.source + repr(sc.ops), sample={"kind": tag, "ops": repr(sc.ops)[:300], "impl": progrun.impl_text(res)[:200], "model": answers.get(id(sc), "-")[:200]})
        ctx.count("kind:" + tag.split(":")[0])
        desc = dict(sc.describe(), parameter=pname, value=repr(offender))
        if id(sc) in answers:
            d = progrun.compare(res, answers[id(sc)])
            if d:
                ctx.disagree("load+prepass:" + tag, desc, d[0][:400], d[1][:400])
        if res["load"] != "ok" or len(res["ops"]) != 2:
            ctx.fail("%s: the well-formed part failed: %s %s" % (tag, res["load"], res["ops"]), desc)
            continue
        added, ran = res["ops"]
        first = added if added != "ok" else ran
        exc = res.get("exc")
        if verdict is None:
            if first != "ok":
                ctx.fail("well-formed model built with add_command (%s = %r, %s) rejected: %s" % (pname, offender, tag, first), desc)
            continue
        if first == "ok":
            ctx.fail("ill-formed model built with add_command accepted (%s = %r is %s; expected %s): run() executed %r, effects %r" % (
                pname, offender, "no declared parameter" if verdict == "NoSuchParameter" else "not of the declared kind", verdict, res["log"], res["effects"]), desc)
        elif not first.startswith("mp:%s:" % verdict):
            ctx.fail("ill-formed model built with add_command (%s = %r): reported %s, expected %s (executed before: %r)" % (pname, offender, first, verdict, res["log"] if added == "ok" else []), desc)
        elif verdict == PNV and offender is not CMD and not (type(getattr(exc, "value", None)) is type(offender) and exc.value == offender):
            ctx.fail("ParameterNotValid names the value %r; the offending value is %r" % (getattr(exc, "value", None), offender), desc)
        elif verdict == "NoSuchParameter" and getattr(exc, "parameter", None) != offender:
            ctx.fail("NoSuchParameter names the parameter %r; the undeclared one is %r" % (getattr(exc, "parameter", None), offender), desc)
        if first != "ok" and added == "ok" and (res["log"] or res["effects"]):
            ctx.fail("ill-formed model built with add_command (%s = %r): rejected (%s) only after executing %r (effects %r)" % (pname, offender, first, res["log"], res["effects"]), desc)
        if added != "ok" and res["program"] is not None and sc.ops[0][1][0] in res["program"].commands:
            ctx.fail("add_command refused the command (%s) and kept it in the program" % added, desc)
        if tree(tmp) != before_tree:
            ctx.fail("ill-formed model built with add_command (%s): files or folders appeared: %r" % (tag, sorted(set(tree(tmp)) - set(before_tree))[:5]), desc)


def empty_working_dir(ctx):
    """a well-formed model whose paths are relative is accepted whatever well-formed spelling the working directory has - also "", which is what
    os.path.dirname() gives for a bare file name and what the tool passes when started as `mpilot eems-csv model.mpt` inside the model's folder (relative
    paths then resolve against the current directory, which is changed to the model's folder here and restored in a finally).  Real bodies: the model
    must run and write its outputs.  Through Program.from_source and through the tool in-process; every command that has a path parameter"""
    import contextlib, io
    from mpilot.program import Program
    from .. import clicorr
    import mpilot.cli.mpilot as cli
    tmp = common.tmpdir("mpv_c12_wd_")
    os.mkdir(os.path.join(tmp, "sub"))
    for fn in ("in.csv", os.path.join("sub", "in2.csv")):
        with open(os.path.join(tmp, fn), "w") as f:
            f.write("a,b\n1,2\n3,4\n5,6\n")
    models = [
        ("read+write", 'A = EEMSRead(InFileName = "in.csv", InFieldName = "a")\nF = CvtToFuzzy(InFieldName = A, TrueThreshold = 3, FalseThreshold = 1)\nOut = EEMSWrite(OutFileName = "out.csv", OutFieldNames = [A, F])\n', ["out.csv"]),
        ("read-only", 'A = EEMSRead(InFileName = in.csv, InFieldName = a)\nB = EEMSRead(InFileName = in.csv, InFieldName = b)\nS = Sum(InFieldNames = [A, B])\n', []),
        ("subfolder", 'A = EEMSRead(InFileName = "sub/in2.csv", InFieldName = "b")\nOut = EEMSWrite(OutFileName = "sub/out2.csv", OutFieldNames = [A])\n', ["sub/out2.csv"]),
        ("dot-slash", 'A = EEMSRead(InFileName = "./in.csv", InFieldName = "a")\nOut = EEMSWrite(OutFileName = "./out3.csv", OutFieldNames = [A])\n', ["out3.csv"]),
        ("printvars-file", 'A = EEMSRead(InFileName = "in.csv", InFieldName = "a")\nP = PrintVars(InFieldNames = [A], OutFileName = "vars.txt")\n', ["vars.txt"]),
    ]
    old = os.getcwd()
    try:
        os.chdir(tmp)
        for tag, src, outs in models:
            with open("model.mpt", "w") as f:
                f.write(src)
            # the spellings of "here": what dirname gives for a bare name, the dot, the absolute path
            for wd_tag, wd in (("empty", os.path.dirname("model.mpt")), ("dot", "."), ("absolute", tmp), ("tool", None)):
                for o in outs:
                    if os.path.exists(o):
                        os.remove(o)
                outcome = "ok"
                try:
                    with contextlib.redirect_stdout(io.StringIO()):
                        if wd_tag == "tool":
                            code, err, crash = clicorr._invoke(cli.main, ["eems-csv", "model.mpt"])
                            if code != 0 or crash != "-":
                                outcome = "exit %s, escaped %s, standard error %r" % (code, crash, err[-300:])
                        else:
                            Program.from_source(src, working_dir=wd).run()
                except BaseException as e:
                    outcome = progrun.classify(e)
                ctx.case("wd %s %s" % (wd_tag, src), sample={"kind": "relative-paths-wd-" + wd_tag, "source": src, "working_dir": wd, "impl": outcome})
                ctx.count("kind:relative-paths-wd-" + wd_tag)
                desc = {"source": src, "working_dir": wd, "current_directory": "the folder holding in.csv, sub/in2.csv and model.mpt",
                        "how": "mpilot eems-csv model.mpt (in-process)" if wd_tag == "tool" else "Program.from_source(source, working_dir=%r).run()" % (wd,), "outcome": outcome}
                if outcome != "ok":
                    ctx.fail("well-formed model with relative paths (%s) rejected with the working directory %r (%s): %s" % (tag, wd, wd_tag, outcome), desc)
                elif not all(os.path.exists(o) for o in outs):
                    ctx.fail("well-formed model with relative paths (%s) accepted with the working directory %r, but %r not written" % (tag, wd, [o for o in outs if not os.path.exists(o)]), desc)
    finally:
        os.chdir(old)


def _as_written(v):
    """a value inside a list, as the error should carry it: names and texts as text, lists as lists"""
    if isinstance(v, Name):
        return v.s
    return [_as_written(x) for x in v] if isinstance(v, list) else v


def offending_values_in_lists(ctx, classes, calls, env, tmp):
    """"the specific error names the offending ... value": a value of the wrong kind INSIDE a list (of numbers, of results) - a nested list, a nested list of
    lists, a key:value tuple, a word - at every position of the list, written on a line of its own or not; from a command file and through add_command.
    The ParameterNotValid raised carries that very value (the Python value the text denotes: no wrapper object of the parser) and its message shows it -
    in particular no object repr with an address"""
    import re
    from mpilot import params as P
    from mpilot.exceptions import ParameterNotValid
    rng = ctx.rng
    pairs = []
    for cls in classes:
        call = calls.get(cls.name)
        for name, p in (cls.inputs.items() if call is not None else []):
            if type(p) is P.ListParameter and type(p.value_type) in (P.NumberParameter, P.ResultParameter):
                pairs.append((cls, call, name, p))
    for k, (cls, call, name, p) in enumerate(pairs):
        number = type(p.value_type) is P.NumberParameter
        good = [1, 0.5, 2] if number else [Name("Rd"), Name("Rd"), Name("Rd")]
        # (lists nested deeper - [1, [[2], 3]] - are left out: the pinned tree unwraps one level only and shows the inner list as an object there; reported, not demanded)
        bads = ([[1, 2], [0.5, 1.5], [1, 2, 3.5], [], ["x"], {"a": "b"}, Name("word"), [Name("Rd")]] if number else [[Name("Rd")], [Name("Rd"), Name("Fz")], [Name("NoSuch")], [], [1, 2], {"a": "b"}, 5])
        if not ctx.thorough:
            bads = [bads[0], bads[1 + k % (len(bads) - 1)], bads[1 + (k + 3) % (len(bads) - 1)]]
        for j, bad in enumerate(bads):
            pos = (k + j) % 3
            value = good[:pos] + [bad] + good[pos:2]
            want = dict(bad) if isinstance(bad, dict) else _as_written(bad)
            for how in ("source", "api"):
                if how == "source":
                    sc = Scenario(producers(env) + [with_arg(call, name, value)], wd=tmp, libs=LIBS, **({"blank": {3: 1}} if j % 2 else {}))
                    res = progrun.run_impl(sc)
                    first = res["load"] if res["load"] != "ok" else res["ops"][0]
                else:
                    sc = Scenario(producers(env), ops=[("add", with_arg(call, name, value)), ("run",)], wd=tmp, libs=LIBS)
                    res = run_api(sc)
                    first = res["load"] if res["load"] != "ok" else next((o for o in res["ops"] if o != "ok"), "ok")
                exc = res.get("exc")
                tag = "value-in-list-%s:%s.%s" % (how, cls.name, name)
                ctx.case(tag + sc.source + repr(sc.ops), sample={"kind": tag, "source": sc.source[-300:], "ops": repr(sc.ops)[:200], "impl": first, "value": repr(getattr(exc, "value", None))[:80]})
                ctx.count("kind:value-in-list-" + how)
                desc = dict(sc.describe(), parameter=name, list_given=repr(value), offending_item=repr(want), error=first, error_value=repr(getattr(exc, "value", None)), message=str(exc)[:400])
                if first == "ok":
                    ctx.fail("ill-formed model accepted: %s = %r holds %r, which is no %s" % (name, value, want, "number" if number else "result"), desc)
                    continue
                if res["log"] or res["effects"]:
                    ctx.fail("ill-formed model (%s): rejected (%s) only after executing %r" % (tag, first, res["log"]), desc)
                if not isinstance(exc, ParameterNotValid):
                    continue        # (another specific error: which one it is, is checked by the wrong-kind cases)
                got = exc.value
                if re.search(r"<[\w.]+ object at 0x[0-9a-fA-F]+>", str(exc)) or re.search(r" object at 0x[0-9a-fA-F]+>", repr(got)):
                    ctx.fail("ParameterNotValid for an item of the list %s does not name the offending value %r: it shows an internal object (%s)" % (name, want, str(exc).splitlines()[0][:200]), desc)
                elif not (got == want or got == value or got == _as_written(value)):
                    ctx.fail("ParameterNotValid for an item of the list %s names %r; the offending value is %r (in the list %r)" % (name, got, want, _as_written(value)), desc)
                elif got == want and repr(want) not in str(exc) and str(want) not in str(exc):
                    ctx.fail("the message of ParameterNotValid for an item of the list %s does not show the offending value %r: %s" % (name, want, str(exc).splitlines()[0][:200]), desc)


def tree(root):
    out = []
    for d, dirs, files in os.walk(root):
        out += [os.path.relpath(os.path.join(d, x), root) for x in dirs + files]
    return sorted(out)


def run(ctx):
    ctx.check_proofs(["MPilot.Props.C12", "MPilot.Props.C12Kinds"])
    from .. import eems
    eems.arrays_lib()       # commands of a library no program here asks for are registered in the process
    model = common.Model()
    rng = ctx.rng
    tmp = common.tmpdir("mpv_c12_")
    with open(os.path.join(tmp, "in.csv"), "w") as f:
        f.write("a,b\n1,2\n3,4\n")
    env = {"in": "in.csv"}
    exist = [os.path.join(tmp, "in.csv")]
    base, classes = progrun.library_classes(LIBS)
    classes = sorted(classes, key=lambda c: c.name)
    scs = []      # (scenario, expectation)   expectation: None = well-formed, else (error class, line)
    reps = 1 if not ctx.thorough else 4
    calls = {}
    for cls in classes:
        if cls.name in ("NoOut",):
            continue
        for _ in range(reps):
            call = valid_call(rng, cls, env)
            calls[cls.name] = call
            cmds = producers(env) + [call]
            sc = Scenario(list(cmds), wd=tmp, libs=LIBS)
            scs.append((sc, None, "valid:" + cls.name))
            t_idx = len(cmds) - 1
            # wrong kind at every parameter
            for name, p in cls.inputs.items():
                if name == "Fail":
                    continue
                wv = wrong_values(p, name)
                for v, err in wv + [x for x in documented_wrong(cls, name) if x not in wv]:
                    args = [(n, x) for n, x in call[2] if n != name] + [(name, v)]
                    c2 = cmds[:-1] + [(call[0], call[1], args)]
                    sc = Scenario(c2, wd=tmp, libs=LIBS)
                    scs.append((sc, (err, sc.lines[t_idx][1][len(args) - 1]), "wrong-kind:%s.%s" % (cls.name, name)))
                if p.required:
                    args = [(n, x) for n, x in call[2] if n != name]
                    sc = Scenario(cmds[:-1] + [(call[0], call[1], args)], wd=tmp, libs=LIBS)
                    scs.append((sc, ("MissingParameters", sc.lines[t_idx][0]), "missing:%s.%s" % (cls.name, name)))
            if not cls.allow_extra_inputs:
                args = call[2] + [("Bogus", 1)]
                sc = Scenario(cmds[:-1] + [(call[0], call[1], args)], wd=tmp, libs=LIBS)
                scs.append((sc, ("NoSuchParameter", sc.lines[t_idx][1][-1]), "undeclared:" + cls.name))
            else:
                sc = Scenario(cmds[:-1] + [(call[0], call[1], call[2] + [("Bogus", 1)])], wd=tmp, libs=LIBS)
                scs.append((sc, None, "extra-allowed:" + cls.name))
    scs += number_spellings(rng, [c for c in classes if c.name != "NoOut"], env, tmp)
    scs += nothing_values_from_source(ctx, classes, calls, env, tmp)
    # faults at program level, at every position of valid models
    for _ in range(ctx.budget(6, 200)):
        n = rng.randrange(2, 6)
        body = [valid_call(rng, rng.choice(classes[:]), env, res="T%d" % i) for i in range(n)]
        body = [b for b in body if b[1] != "NoOut"]
        cmds = producers(env) + body
        rng.shuffle(cmds)
        pos = rng.randrange(len(cmds))
        kind = rng.choice(["unknown-command", "duplicate-result", "after-effect"])
        if kind == "unknown-command":
            # a name that exists nowhere, one that only differs in case, or a command that exists in a library this program did not ask for
            for bad_name in ["NoSuchCommand", "sum", "COPY", "Fuzzynot", "HeldData", "HeldFuzzy"]:
                c2 = list(cmds); c2[pos] = (c2[pos][0], bad_name, c2[pos][2])
                sc = Scenario(c2, wd=tmp, libs=LIBS)
                scs.append((sc, ("CommandDoesNotExist", sc.lines[pos][0]), kind))
        elif kind == "duplicate-result":
            c2 = list(cmds); c2.insert(pos + 1, (cmds[rng.randrange(pos + 1)][0], "N", []))
            sc = Scenario(c2, wd=tmp, libs=LIBS)
            scs.append((sc, ("DuplicateResult", sc.lines[pos + 1][0]), kind))
        else:
            # an effectful leaf first, a faulty command in a later, separate branch: nothing may happen
            c2 = [("Eff", "W", [])] + list(cmds) + [("Bad", "S", [("Req", "not a number")])]
            sc = Scenario(c2, wd=tmp, libs=LIBS)
            scs.append((sc, ("ParameterNotValid", sc.lines[-1][1][0]), kind))
    # directed: a writer whose output lies in a folder that does not exist yet, and a fault elsewhere in the model (any order): nothing is created
    k = 0
    for wcmd, wargs in (("EEMSWrite", [("OutFieldNames", [Name("Rd")])]), ("PrintVars", [("InFieldNames", [Name("Rd")])])):
        for fault, err, argi in ((("Bad", "S", [("Req", "not a number")]), "ParameterNotValid", 0), (("Bad", "N", [("One", Name("NoSuchResult"))]), "ResultDoesNotExist", 0),
                                 (("Bad", "D", [("Data", Name("Fz"))]), "ResultIsFuzzy", 0), (("Bad", "S", [("Req", 1), ("PathIn", "missing_file.csv")]), "PathDoesNotExist", 1)):
            for first in (True, False):
                k += 1
                writer = ("Out%d" % k, wcmd, wargs + [("OutFileName", "newfolder_%d/sub/out.csv" % k)])
                cmds = producers(env) + ([writer, fault] if first else [fault, writer])
                sc = Scenario(cmds, wd=tmp, libs=LIBS)
                idx = len(cmds) - (1 if first else 2)
                scs.append((sc, (err, sc.lines[idx][1][argi]), "rejected-with-writer"))
    # commands derived from a fuzzy / non-fuzzy command (plug-ins built on the library's commands) are fuzzy / non-fuzzy like their base
    # (a derived command does not inherit `inputs` - the metaclass gives every class its own table - so the derived ones only produce here)
    for prod, pcls, good, bad, err in (("Fz2", "F2", [("F", "FData"), ("FuzzyNot", "InFieldName"), ("Copy", "InFieldName")], [("D", "Data"), ("Normalize", "InFieldName")], "ResultIsFuzzy"),
                                      ("Dd2", "D2", [("D", "Data"), ("Normalize", "InFieldName"), ("Copy", "InFieldName")], [("F", "FData"), ("FuzzyNot", "InFieldName")], "ResultNotFuzzy")):
        for cname, arg in good:
            sc = Scenario(producers(env) + [(prod, pcls, []), ("T", cname, [(arg, Name(prod))])], wd=tmp, libs=LIBS)
            scs.append((sc, None, "derived-command:%s->%s" % (pcls, cname)))
        for cname, arg in bad:
            sc = Scenario(producers(env) + [(prod, pcls, []), ("T", cname, [(arg, Name(prod))])], wd=tmp, libs=LIBS)
            scs.append((sc, (err, sc.lines[-1][1][0]), "derived-command:%s->%s" % (pcls, cname)))
    # one result with a legitimate consumer AND a consumer of the wrong fuzziness, in both orders: the wrong one is rejected whatever was accepted before
    for res, okc, badc, err in (("Fz", ("FuzzyNot", "InFieldName", False), ("Sum", "InFieldNames", True), "ResultIsFuzzy"), ("Fz", ("F", "FData", False), ("D", "Data", False), "ResultIsFuzzy"),
                                ("Rd", ("Sum", "InFieldNames", True), ("FuzzyNot", "InFieldName", False), "ResultNotFuzzy"), ("Rd", ("D", "DataList", True), ("F", "FDataList", True), "ResultNotFuzzy")):
        for first_ok in (True, False):
            def call(nm, spec):
                cname, arg, listy = spec
                return (nm, cname, [(arg, [Name(res)] if listy else Name(res))])
            pair = [call("Good", okc), call("Wrong", badc)]
            if not first_ok:
                pair.reverse()
            sc = Scenario(producers(env) + pair, wd=tmp, libs=LIBS)
            idx = len(sc.commands) - (1 if first_ok else 2)
            scs.append((sc, (err, sc.lines[idx][1][0]), "two-consumers:%s" % res))
    # models extended through add_command after a successful run: the additions are validated like everything else, before anything executes
    ext = []
    for _ in range(ctx.budget(10, 300)):
        cmds = producers(env) + [("T0", "N", [("One", Name("Tok"))])]
        good = ("Eff", "W", [("Data", Name("Rd"))] if rng.random() < 0.5 else [])
        fault, err = rng.choice([
            (("Bad", "S", [("Req", "not a number")]), "ParameterNotValid"),
            (("Bad", "N", [("One", "NoSuchResult")]), "ResultDoesNotExist"),
            (("Bad", "D", [("Data", "Fz")]), "ResultIsFuzzy"),
            (("Bad", "F", [("FData", "Rd")]), "ResultNotFuzzy"),
            (("Bad", "S", [("Req", 1), ("PathIn", "missing_file.csv")]), "PathDoesNotExist"),
            (("Bad", "D", [("Data", "Tok")]), "ParameterNotValid"),      # the producer has finished: its actual result is checked
        ])
        order = [good, fault] if rng.random() < 0.7 else [fault, good]
        ops = [("run",)] + [("add", c) for c in order] + [("run",)]
        sc = Scenario(cmds, ops=ops, wd=tmp, libs=LIBS)
        ext.append((sc, err))
    # commands refused by add_command itself (undeclared parameter, missing parameter, a result name already taken): the program is what it was before -
    # the refused command is not part of it, the corrected one can be added under the same name, and run() executes exactly the accepted commands
    ext_add = []
    for _ in range(ctx.budget(12, 300)):
        cmds = producers(env) + [("T0", "N", [("One", Name("Tok"))])]
        bad, err = rng.choice([
            (("New", "N", [("One", "Tok"), ("Bogus", 1)]), "NoSuchParameter"),
            (("New", "S", []), "MissingParameters"),
            (("New", "S", [("Bogus", 2), ("Req", 1)]), "NoSuchParameter"),
            (("T0", "N", []), "DuplicateResult"),
            (("New", "NoSuchCommand", []), "CommandDoesNotExist"),
        ])
        good = ("New", rng.choice(["N", "W"]), [])
        pre = [("run",)] if rng.random() < 0.5 else []
        ops = pre + [("add", bad), ("add", good), ("run",), ("result", "New")]
        sc = Scenario(cmds, ops=ops, wd=tmp, libs=LIBS)
        ext_add.append((sc, err, len(pre)))
    # producer / consumer pairings
    prods = {"Rd": "data", "Fz": "fuzzy", "Tok": "token", "Wr": "bool"}
    for pname in prods:
        for cname, arg, listy in (("D", "Data", False), ("D", "DataList", True), ("F", "FData", False), ("F", "FDataList", True),
                                  ("N", "One", False), ("N", "Many", True), ("W", "Data", False), ("Sum", "InFieldNames", True),
                                  ("FuzzyNot", "InFieldName", False), ("Copy", "InFieldName", False), ("EEMSWrite", "OutFieldNames", True),
                                  ("PrintVars", "InFieldNames", True)):
            v = [Name(pname)] if listy else Name(pname)
            extra = [("OutFileName", "o.csv")] if cname == "EEMSWrite" else []
            cmds = producers(env) + [("Wr", "W", []), ("T", cname, [(arg, v)] + extra)]
            sc = Scenario(cmds, wd=tmp, libs=LIBS)
            scs.append((sc, "pairing", "pairing:%s->%s.%s" % (prods[pname], cname, arg)))
    lines = [sc.protocol(classes) for sc, _, _ in scs]
    answers = model.ask(lines)
    from mpilot.program import Program as _Program
    BROKEN = ['A = B(', 'READ(InFileName = "in.csv", InFieldName = a)\nCVTTOFUZZY(InFieldName = a,\n\n\n  NewFieldName = ]\n', 'A = N()\n\n\nB = N(One = "x\\x4")\n',
              'A = N(\n One = [1, k: 2]\n)\n', '\n\n\n\n)', 'A = N()\nB = N(Many = [A,\n\n']
    for (sc, expect, tag), ans in zip(scs, answers):
        if rng.random() < 0.3:
            # a malformed text was handed to the loader just before (rejected with a syntax error after some of it had been read): what is accepted next,
            # and the line an error names, depends on the model alone
            try:
                _Program.from_source(rng.choice(BROKEN), libraries=LIBS, working_dir=tmp)
                ctx.fail("a malformed text was accepted", {"source": "one of " + repr(BROKEN)})
            except SyntaxError:
                ctx.count("loads_after_a_syntax_error")
            except Exception as e_:
                ctx.fail("a malformed text was rejected with %s" % type(e_).__name__, {"source": "one of " + repr(BROKEN)})
        before_tree = tree(tmp)
        res = progrun.run_impl(sc)
        if expect is not None and expect != "pairing" and tree(tmp) != before_tree:
            ctx.fail("ill-formed model (%s): files or folders appeared although the model was rejected: %r" % (
                tag, sorted(set(tree(tmp)) - set(before_tree))[:5]), sc.describe())
        ctx.case(sc.source, sample={"kind": tag, "source": sc.source[-400:], "impl": progrun.impl_text(res)[:160], "model": ans[:160]})
        ctx.count("kind:" + tag.split(":")[0])
        d = progrun.compare(res, ans)
        if d:
            ctx.disagree("load+prepass:" + tag, sc.describe(), d[0][:400], d[1][:400])
        outcome = res["load"] if res["load"] != "ok" else res["ops"][0]
        if expect is None:
            if outcome != "ok":
                ctx.fail("well-formed model (%s) rejected: %s" % (tag, outcome), sc.describe())
        elif expect == "pairing":
            if outcome != "ok" and (res["log"] or res["effects"]):
                ctx.fail("%s: rejected (%s) after executing %r" % (tag, outcome, res["log"]), sc.describe())
        else:
            err, line = expect
            want = "mp:%s:%s" % (err, line)
            if outcome == "ok":
                ctx.fail("ill-formed model (%s) accepted; expected %s" % (tag, want), sc.describe())
            elif not outcome.startswith("mp:"):
                ctx.fail("ill-formed model (%s): %s instead of %s" % (tag, outcome, want), sc.describe())
            elif outcome != want:
                ctx.fail("ill-formed model (%s): reported %s, expected %s" % (tag, outcome, want), sc.describe())
            if res["log"] or res["effects"] or any(f.startswith("out_") or f in ("o.csv",) for f in os.listdir(tmp)):
                ctx.fail("ill-formed model (%s): rejected only after executing %r (effects %r)" % (tag, res["log"], res["effects"]), sc.describe())
    for (sc, err), ans in zip(ext, model.ask([sc.protocol(classes) for sc, _ in ext])):
        res = progrun.run_impl(sc)
        ctx.case(sc.source + repr(sc.ops), sample={"kind": "api-extension", "ops": repr(sc.ops)[:300], "impl": progrun.impl_text(res)[:200], "model": ans[:200]})
        ctx.count("kind:api-extension")
        d = progrun.compare(res, ans)
        if d:
            ctx.disagree("load+prepass:api-extension", sc.describe(), d[0][:400], d[1][:400])
        if res["load"] != "ok" or res["ops"][:-1] != ["ok"] * (len(sc.ops) - 1):
            ctx.fail("api-extension: the well-formed part failed: %s %s" % (res["load"], res["ops"]), sc.describe())
        elif res["ops"][-1] != "mp:%s:~" % err and not res["ops"][-1].startswith("mp:%s:" % err):
            ctx.fail("a faulty command added through add_command after a successful run: run() gave %s, expected %s" % (res["ops"][-1], err), sc.describe())
        elif "Eff" in res["effects"] or "+Eff" in res["log"] or "+Bad" in res["log"]:
            ctx.fail("a faulty command added through add_command after a successful run is rejected (%s) only after executing %r" % (
                err, [e for e in res["log"] if e[1:] in ("Eff", "Bad")]), sc.describe())
    for (sc, err, k0), ans in zip(ext_add, model.ask([sc.protocol(classes) for sc, _, _ in ext_add])):
        if sc.ops[k0][1][1] == "NoSuchCommand":
            continue        # find_command_class raises before add_command is reached: nothing to compare
        res = progrun.run_impl(sc)
        ctx.case(sc.source + repr(sc.ops), sample={"kind": "refused-addition", "ops": repr(sc.ops)[:300], "impl": progrun.impl_text(res)[:200], "model": ans[:200]})
        ctx.count("kind:refused-addition")
        d = progrun.compare(res, ans)
        if d:
            ctx.disagree("load+prepass:refused-addition", sc.describe(), d[0][:400], d[1][:400])
        if res["load"] != "ok" or not res["ops"][k0].startswith("mp:%s:" % err):
            ctx.fail("add_command with a faulty command gave %s, expected %s" % (res["ops"][k0:k0 + 1], err), sc.describe())
        elif res["ops"][k0 + 1:] != ["ok", "ok", "ok"]:
            ctx.fail("after add_command refused a command (%s), adding the corrected command under the same name, run() and reading its result gave %r: "
                     "the refused command left something behind" % (err, res["ops"][k0 + 1:]), sc.describe())
        elif res["program"] is not None and sorted(res["program"].commands) != sorted([c[0] for c in sc.commands] + ["New"]):
            ctx.fail("after a refused and a corrected addition the program holds %r" % sorted(res["program"].commands), sc.describe())
    # a file that existed when an earlier model was validated and run, and is gone when the next model that names it is run: rejected before anything executes
    for k in range(ctx.budget(3, 20)):
        fn = "vanishing_%d.csv" % k
        cmds = [("Eff", "W", []), ("P", "S", [("Req", 1), ("PathIn", fn)])]
        rng.shuffle(cmds)
        sc = Scenario(cmds, wd=tmp, libs=LIBS)
        open(os.path.join(tmp, fn), "w").write("a\n1\n")
        first = progrun.run_impl(sc)
        os.remove(os.path.join(tmp, fn))
        second = progrun.run_impl(Scenario(cmds, ops=[("run",), ("run",)], wd=tmp, libs=LIBS))
        ctx.case("vanishing " + sc.source, sample=None)
        ctx.count("kind:vanishing-file")
        if first["load"] != "ok" or first["ops"] != ["ok"]:
            ctx.fail("a model naming an existing file is rejected: %s %s" % (first["load"], first["ops"]), sc.describe())
        elif second["load"] != "ok" or not all(o.startswith("mp:PathDoesNotExist:") for o in second["ops"]):
            ctx.fail("a model naming a file that no longer exists (it did when an earlier model ran) gave %s %s, expected PathDoesNotExist" % (second["load"], second["ops"]), sc.describe())
        elif second["log"] or second["effects"]:
            ctx.fail("a model naming a file that no longer exists is rejected only after executing %r" % second["log"], sc.describe())
    api_values(ctx, model, classes, calls, env, tmp)
    eems2_faults(ctx, model, tmp, env, classes)
    kind_hierarchies(ctx, tmp, env)
    empty_working_dir(ctx)
    offending_values_in_lists(ctx, classes, calls, env, tmp)
    return ctx.finish(
        rule="scenarios = producers (EEMSRead, CvtToFuzzy, opaque) + one call of each of the %d command classes with valid arguments, then the same "
             "with each parameter replaced by each wrong kind of value / removed / an undeclared parameter added; unknown command, duplicate result, "
             "faulty command behind an effectful leaf at random positions of shuffled valid models; all producer kinds x consumer parameter kinds; "
             "distinct by source text" % len(classes),
        explanation="theorems in Props/C12.lean hold for the model's load and pre-pass; the real loader and pre-pass are compared with the model on every "
                    "scenario (error class and line, or acceptance and the full execution log); expectation oracles by construction run on the implementation")


def replay(path):
    import json
    print(json.dumps(json.load(open(path)), indent=1)[:6000])
    return 0
