"""C13 — only declared error types escape, and the CLI reports them.

proof:          lean/MPilot/Props/C13.lean
correspondence: kind-confusion matrix (every command x parameter x every raw kind) and failing bodies through from_source()/run() vs the model;
                corrupted command files vs the parser model; CSV fault files through the real EEMSRead body
oracles:        the exception type at the from_source()/run() boundary is SyntaxError or an MPilotError (never anything else), its str() works;
                the command-line tool exits non-zero and prints the problem/solution message (and marks the line) for MPilot errors
"""
import contextlib
import io
import os
import subprocess
import sys

from .. import common, prog, progrun, clicorr
from ..progrun import Scenario, Name
from . import c12

RAW_KINDS = [5, -1, 0.5, True, "text", "12", "", Name("Rd"), Name("NoSuch"), Name("word"), [], [1, 2], ["a"], [[1], [2]], [Name("Rd")], [Name("Tok")],
             {"k": "v"}, "é☃", "a\\b", 'q"uote', "snow ☃\there \\ \"x\"", "\u00b2", "1\u00b3", "\u2460", "nan", "-inf", "1e999", {"k☃": "v\n☃"}, "in\x00put.csv", "x" * 5000]      # ², 1³, ①: digits to str.isdigit, not to int()


def boundary_ok(outcome):
    return outcome == "ok" or outcome == "syntax" or outcome.startswith("mp:") or outcome.startswith("unexpected:")


def kind_matrix(ctx, classes, env, tmp):
    rng = ctx.rng
    scs = []
    for cls in classes:
        if cls.name == "NoOut":
            continue
        call = c12.valid_call(rng, cls, env)
        cmds = c12.producers(env) + [call]
        names = [n for n in cls.inputs if n != "Fail"]
        for name in names:
            kinds = RAW_KINDS if ctx.thorough else rng.sample(RAW_KINDS[:-10], 5) + [rng.choice(RAW_KINDS[-10:-7]), rng.choice(RAW_KINDS[-7:-4])] + RAW_KINDS[-4:]
            for v in kinds:
                args = [(n, x) for n, x in call[2] if n != name] + [(name, v)]
                scs.append((Scenario(cmds[:-1] + [(call[0], call[1], args)], wd=tmp, libs=c12.LIBS), "kind:%s.%s" % (cls.name, name)))
    # failing bodies, directly and nested
    for fail in ("mp", "value"):
        scs.append((Scenario([("a", "N", [("Fail", fail)])], libs=c12.LIBS), "failing-body"))
        scs.append((Scenario([("a", "N", [("Fail", fail)]), ("b", "N", [("One", Name("a"))]), ("c", "N", [("Many", [Name("b")])])], libs=c12.LIBS), "failing-body"))
        scs.append((Scenario([("c", "N", [("Many", [Name("b")])]), ("b", "N", [("One", Name("a"))]), ("a", "N", [("Fail", fail)])],
                             ops=[("run",), ("result", "c"), ("run",)], libs=c12.LIBS), "failing-body"))
        # the failed command itself asked again, directly (a front end reading results one by one after a failed run)
        scs.append((Scenario([("c", "N", [("Many", [Name("b")])]), ("b", "N", [("One", Name("a"))]), ("a", "N", [("Fail", fail)])],
                             ops=[("run",), ("result", "a"), ("result", "a"), ("result", "b"), ("run",)], libs=c12.LIBS), "failing-body"))
        scs.append((Scenario([("a", "N", [("Fail", fail)])], ops=[("result", "a"), ("result", "a"), ("run",), ("run",)], libs=c12.LIBS), "failing-body"))
    return scs


def corrupt(rng, src):
    """single-token corruption of a command file"""
    toks = ["(", ")", "[", "]", "=", ",", ":", '"', "'"]
    pos = [i for i, ch in enumerate(src) if ch in "()[]=,:\"'"]
    if not pos:
        return src + "("
    i = rng.choice(pos)
    k = rng.randrange(4)
    if k == 0:
        return src[:i] + src[i + 1:]                       # delete a delimiter
    if k == 1:
        return src[:i] + src[i] + src[i:]                  # duplicate it
    if k == 2:
        return src[:i] + rng.choice(toks) + src[i + 1:]    # replace it
    return src[:i] + rng.choice(["\\", "@", "$", ";", "\x00", "\\x"]) + src[i:]   # insert a stray character


def csv_faults(ctx, tmp):
    """the real EEMSRead body on faulty files"""
    from mpilot.program import Program
    from mpilot.exceptions import MPilotError
    files = {
        "empty.csv": "", "header_only.csv": "a,b\n", "ragged.csv": "a,b\n1,2\n3\n4,5\n", "ragged_first.csv": "a,b\n1\n",
        "nonnumeric.csv": "a,b\n1,x\n2,3\n", "nan_int.csv": "a,b\nnan,1\n2,3\n", "inf.csv": "a\ninf\n1\n", "blank_lines.csv": "a,b\n\n1,2\n\n3,4\n",
        "empty_cell.csv": "a,b\n1,\n,2\n", "quoted.csv": '"a","b"\n"1","2"\n', "bom.csv": "﻿a,b\n1,2\n", "crlf.csv": "a,b\r\n1,2\r\n",
        "spaces.csv": "a, b\n1, 2\n", "dup_header.csv": "a,a\n1,2\n", "huge.csv": "a\n1e999\n-1e999\n", "only_newlines.csv": "\n\n\n",
        "no_trailing_newline.csv": "a,b\n1,2", "tabs.csv": "a\tb\n1\t2\n", "unbalanced_quote.csv": 'a,b\n"1,2\n3,4\n', "nul.csv": "a\n1\x002\n",
    }
    for name, text in files.items():
        with open(os.path.join(tmp, name), "w", encoding="utf-8", newline="") as f:
            f.write(text)
    for name in sorted(files):
        for col in ("a", "b", "zz"):
            for extra in ("", ", DataType = Integer", ", MissingVal = 1", ", DataType = Integer, MissingVal = 2.5", ", MissingVal = x"):
                src = 'A = EEMSRead(InFileName = "%s", InFieldName = %s%s)\nS = Sum(InFieldNames = [A, A])\nW = EEMSWrite(OutFileName = "w_out.csv", OutFieldNames = [S])\n' % (name, col, extra)
                try:
                    p = Program.from_source(src, working_dir=tmp)
                    p.run()
                    out = "ok"
                except BaseException as e:
                    out = progrun.classify(e)
                    try:
                        str(e)
                    except Exception as e2:
                        ctx.fail("str(%s) raised %s" % (type(e).__name__, type(e2).__name__), {"source": src, "file": files[name]})
                ctx.case("csv " + src, sample={"file": name, "content": text[:40], "source": src[:120], "outcome": out})
                ctx.count("csv_outcome:" + out.split(":")[0] + (":" + out.split(":")[1] if ":" in out else ""))
                if not boundary_ok(out):
                    ctx.fail("CSV %s (%r), column %s%s: %s escaped from run()" % (name, text[:30], col, extra, out), {"source": src, "file_content": text})


def cli(ctx, tmp, count):
    """the command-line tool on failing and passing models"""
    scratch = common.scratch_repo()
    cases = [
        ("ok.mpt", 'A = EEMSRead(InFileName = "in.csv", InFieldName = a)\n', 0, None),
        ("missing_param.mpt", '\n\nA = EEMSRead(InFileName = "in.csv")\n', 1, 3),
        ("bad_cell_far.mpt", 'A = EEMSRead(InFileName = "bad7.csv", InFieldName = a)\n', 1, None),      # the bad cell is on line 7 of the data file; the model has one line
        ("nan_text.mpt", 'A = EEMSRead(InFileName = "in.csv", InFieldName = a, MissingVal = nan)\nB = CvtToBinary(InFieldName = A, Threshold = -inf, Direction = LowToHigh)\n', 0, None),
        ("no_cmd.mpt", '# c\nA = Nope(X = 1)\n', 1, 2),
        ("bad_value.mpt", 'A = EEMSRead(InFileName = "in.csv", InFieldName = a)\nB = Normalize(\n  InFieldName = A,\n  StartVal = [1, 2]\n)\n', 1, 4),
        ("no_file.mpt", 'A = EEMSRead(\n  InFileName = "nofile.csv",\n  InFieldName = a)\n', 1, 2),
        ("shapes.mpt", 'A = EEMSRead(InFileName = "in.csv", InFieldName = a)\nB = EEMSRead(InFileName = "in3.csv", InFieldName = a)\nC = Sum(InFieldNames = [A, B])\n', 1, 3),
        ("bad_cell.mpt", 'A = EEMSRead(InFileName = "bad.csv", InFieldName = a)\n', 1, None),
        ("cycle.mpt", 'A = Copy(InFieldName = B)\nB = Copy(InFieldName = A)\n', 1, None),
        ("weights.mpt", 'A = EEMSRead(InFileName = "in.csv", InFieldName = a)\nB = WeightedSum(InFieldNames = [A, A], Weights = [1])\n', 1, None),
        ("syntax.mpt", 'A = EEMSRead(InFileName = "in.csv", InFieldName = a\n', None, None),
    ]
    for f, text in (("in.csv", "a,b\n1,2\n3,4\n"), ("in3.csv", "a\n1\n2\n3\n"), ("bad.csv", "a\n1\nx\n"), ("bad7.csv", "a\n1\n2\n3\n4\n5\nx\n")):
        open(os.path.join(tmp, f), "w").write(text)
    for name, src, want_fail, line in cases[:count]:
        path = os.path.join(tmp, name)
        open(path, "w").write(src)
        code = "import sys; sys.path.insert(0, %r); from mpilot.cli.mpilot import main; main()" % scratch
        p = subprocess.run([sys.executable, "-c", code, "eems-csv", path], stdout=subprocess.PIPE, stderr=subprocess.PIPE, universal_newlines=True, timeout=120)
        ctx.case("cli " + src, sample={"file": name, "exit": p.returncode, "stderr": p.stderr[:200]})
        ctx.count("cli_cases")
        desc = {"command_file": src, "exit": p.returncode, "stderr": p.stderr[-600:]}
        if want_fail is None:
            continue
        if want_fail == 0:
            if p.returncode != 0:
                ctx.fail("CLI failed on a valid model (exit %s)" % p.returncode, desc)
            continue
        if p.returncode == 0:
            ctx.fail("CLI exited 0 although the model fails with an MPilot error", desc)
        if "Traceback" in p.stderr:
            ctx.fail("CLI died with a traceback instead of reporting the MPilot error", desc)
        elif "Problem:" not in p.stderr or "Solution:" not in p.stderr:
            ctx.fail("CLI did not print the problem/solution message to standard error", desc)
        if line is not None:
            marked = [l for l in p.stderr.split("\n") if l.startswith("--> ")]
            if not marked or marked[0][4:] != src.split("\n")[line - 1]:
                ctx.fail("CLI marked %r, the offending line %d is %r" % (marked[:1], line, src.split("\n")[line - 1]), desc)


def every_error_class(ctx, tmp):
    """one small model per error class of the package (Generated/ErrTable.lean lists them; Props/C13Err.lean says what the model takes them for): the class
    raised must be the one the model is built to raise, it must be an MPilot error at from_source()/run(), and the command-line tool (in-process) must
    report it - non-zero exit, no escaping exception, its problem/solution text - whichever class it is"""
    from mpilot.program import Program, EEMS_CSV_LIBRARIES
    from mpilot.exceptions import MPilotError
    import mpilot.cli.mpilot as cli
    for f, text in (("e_in.csv", "a,b,z\n1,2,0\n3,4,0\n"), ("e_in3.csv", "a\n1\n2\n3\n"), ("e_bad.csv", "a\n1\nx\n"), ("e_empty.csv", "")):
        open(os.path.join(tmp, f), "w").write(text)
    R = 'A = EEMSRead(InFileName = "e_in.csv", InFieldName = a)\nB = EEMSRead(InFileName = "e_in.csv", InFieldName = b)\n'
    F = R + 'FA = CvtToFuzzy(InFieldName = A)\nFB = CvtToFuzzy(InFieldName = B)\n'
    models = [
        ("CommandDoesNotExist", R + 'X = Nope(P = 1)\n'), ("DuplicateResult", R + 'A = Copy(InFieldName = B)\n'), ("MissingParameters", R + 'X = Copy()\n'),
        ("NoSuchParameter", R + 'X = Copy(InFieldName = A, Bogus = 1)\n'), ("ParameterNotValid", R + 'X = Normalize(InFieldName = A, StartVal = abc)\n'),
        ("PathDoesNotExist", 'X = EEMSRead(InFileName = "e_nofile.csv", InFieldName = a)\n'), ("ResultDoesNotExist", R + 'X = Copy(InFieldName = Nowhere)\n'),
        ("ResultTypeNotValid", R + 'W = EEMSWrite(OutFileName = "e_out.csv", OutFieldNames = [A])\nX = Copy(InFieldName = W)\n'),
        ("ResultNotFuzzy", R + 'X = FuzzyNot(InFieldName = A)\n'), ("ResultIsFuzzy", F + 'X = CvtToFuzzy(InFieldName = FA)\n'),
        ("RecursiveModelStructure", 'X = Copy(InFieldName = Y)\nY = Copy(InFieldName = X)\n'),
        ("EmptyInputs", R + 'X = Sum(InFieldNames = [])\n'),
        ("MixedArrayShapes", R + 'C = EEMSRead(InFileName = "e_in3.csv", InFieldName = a)\nX = Sum(InFieldNames = [A, C])\n'),
        ("MismatchedWeights", R + 'X = WeightedSum(InFieldNames = [A, B], Weights = [1])\n'),
        ("InvalidThresholds", R + 'X = CvtToFuzzy(InFieldName = A, TrueThreshold = 2, FalseThreshold = 2)\n'),
        ("MixedArrayLengths", R + 'X = NormalizeCurve(InFieldName = A, RawValues = [1, 2, 3], NormalValues = [0, 1])\n'),
        ("DuplicateRawValues", R + 'X = NormalizeCurve(InFieldName = A, RawValues = [1, 1], NormalValues = [0, 1])\n'),
        ("InvalidNumberToConsider", F + 'X = FuzzySelectedUnion(InFieldNames = [FA, FB], TruestOrFalsest = Truest, NumberToConsider = 3)\n'),
        ("InvalidTruestOrFalsest", F + 'X = FuzzySelectedUnion(InFieldNames = [FA, FB], TruestOrFalsest = Sometimes, NumberToConsider = 1)\n'),
        ("InvalidDataFile", 'X = EEMSRead(InFileName = "e_bad.csv", InFieldName = a)\n'), ("EmptyDataFile", 'X = EEMSRead(InFileName = "e_empty.csv", InFieldName = a)\n'),
        ("InvalidDirection", R + 'X = CvtToBinary(InFieldName = A, Threshold = 2, Direction = Sideways)\n'),
    ]
    for want, src in models:
        exc = None
        try:
            Program.from_source(src, libraries=EEMS_CSV_LIBRARIES, working_dir=tmp).run()
        except BaseException as e:      # noqa
            exc = e
        got = type(exc).__name__ if exc is not None else "no error"
        ctx.case("class " + want, sample={"class": want, "raised": got})
        ctx.count("error_class:%s" % want)
        desc = {"source": src, "raised": got, "expected_class": want}
        if exc is not None and not isinstance(exc, (MPilotError, SyntaxError)):
            ctx.fail("%s escaped from from_source()/run(): neither a syntax error nor an MPilot error (the model raises %s here)" % (got, want), desc)
            continue
        if got != want:
            ctx.disagree("error-class", desc, got, want)
        # the tool on the same file
        path = os.path.join(tmp, "e_model.mpt")
        open(path, "w").write(src)
        code, err, crash = clicorr._invoke(cli.main, ["eems-csv", path])
        desc2 = dict(desc, exit=code, stderr=err[-400:], escaped=crash)
        if exc is not None and isinstance(exc, MPilotError):
            if crash != "-":
                ctx.fail("the command-line tool died with %s on a model that fails with the MPilot error %s" % (crash, got), desc2)
            elif code == 0:
                ctx.fail("the command-line tool exited 0 although the model fails with %s" % got, desc2)
            elif str(exc) not in err:
                ctx.fail("the command-line tool did not print the problem/solution text of %s to standard error" % got, desc2)


def deep_models(ctx):
    """dependency chains deeper than the interpreter's recursion limit, written inputs-first, dependents-first and shuffled, as direct and as
    list references: whatever the outcome (the pinned code exhausts the stack while executing and wraps that), no RecursionError or other
    undeclared exception escapes - neither from validation nor from the cycle check nor from execution"""
    rng = ctx.rng
    limit = 400
    for order in ("inputs-first", "dependents-first", "shuffled"):
        for style in ("One", "Many"):
            for n in (150, 500):
                cmds = [("c0", "N", [])] + [("c%d" % i, "N", [(style, Name("c%d" % (i - 1)) if style == "One" else [Name("c%d" % (i - 1))])]) for i in range(1, n)]
                if order == "dependents-first":
                    cmds.reverse()
                elif order == "shuffled":
                    rng.shuffle(cmds)
                sc = Scenario(cmds, ops=[("run",), ("run",)], libs=c12.LIBS)
                res = progrun.run_impl(sc, recursion_limit=limit)
                outs = [res["load"]] + res["ops"]
                ctx.case("deep %s %s %d" % (order, style, n) + sc.source[:60], sample={"kind": "deep", "order": order, "n": n, "outcome": outs})
                ctx.count("deep_outcome:" + ":".join(outs[-1].split(":")[:2]))
                for o in outs:
                    if not boundary_ok(o):
                        ctx.fail("a chain of %d commands (%s, %s references) under recursion limit %d: %s escaped from from_source()/run()" % (n, order, style, limit, o),
                                 {"n": n, "order": order, "reference_style": style, "recursion_limit": limit, "source_head": sc.source[:300]})


def netcdf_faults(ctx, tmp):
    """data problems found by the NetCDF reader (missing variable, negative 'Positive' data, out-of-range 'Fuzzy' data, a file that is no
    NetCDF file), with the read as the only command, as a list item and as a direct input: only declared errors leave run()"""
    import numpy
    from mpilot.program import Program, EEMS_NETCDF_LIBRARIES
    from . import c18
    arr = numpy.ma.array(numpy.array([[-2.0, 0.5], [3.0, 1.0]]), mask=[[False, False], [True, False]])
    c18.make_var_file(os.path.join(tmp, "v.nc"), (2, 2), arr, fill=-9999.0)
    open(os.path.join(tmp, "notnc.nc"), "w").write("this is not a NetCDF file\n")
    reads = [('InFileName = "v.nc", InFieldName = nosuch', "NoSuchVariable"), ('InFileName = "v.nc", InFieldName = v, DataType = "Positive Float"', "InvalidPositiveData"),
             ('InFileName = "v.nc", InFieldName = v, DataType = "Positive Integer"', "InvalidPositiveData"), ('InFileName = "v.nc", InFieldName = v, DataType = Fuzzy', "InvalidFuzzyData"),
             ('InFileName = "notnc.nc", InFieldName = v', None), ('InFileName = "v.nc", InFieldName = v, MissingValue = 0.5', "ok")]
    uses = ["", "S = Sum(InFieldNames = [R, R])\n", "C = Copy(InFieldName = R)\n", "W = EEMSWrite(OutFileName = \"o.nc\", OutFieldNames = [R], DimensionFileName = \"v.nc\", DimensionFieldName = v)\n"]
    for args, want in reads:
        for use in uses:
            src = "R = EEMSRead(%s)\n%s" % (args, use)
            try:
                with numpy.errstate(all="ignore"):
                    p = Program.from_source(src, libraries=EEMS_NETCDF_LIBRARIES, working_dir=tmp)
                    p.run()
                out = "ok"
            except BaseException as e:
                out = progrun.classify(e)
                try:
                    str(e)
                except Exception as e2:
                    ctx.fail("NetCDF model: str() of the error raised %s" % type(e2).__name__, {"source": src})
            ctx.case("netcdf " + src, sample={"kind": "netcdf", "source": src, "outcome": out})
            ctx.count("netcdf_outcome:" + ":".join(out.split(":")[:2]))
            if not boundary_ok(out):
                ctx.fail("NetCDF model: %s escaped from from_source()/run()" % out, {"source": src})
            elif want not in (None, "ok") and not (out.startswith("mp:" + want) or (use.startswith("C =") and out.startswith("unexpected:"))) and out != "ok":
                # the declared error of the reader (a consumer that reads it through a single result parameter may see it wrapped)
                ctx.fail("NetCDF model: expected %s, got %s" % (want, out), {"source": src})


def strict_caller(ctx, tmp):
    """a caller who has turned warnings into errors (python -W error, PYTHONWARNINGS=error, a test runner): loading and running still ends in success,
    SyntaxError or an MPilot error - the same as without that setting; a warning is no declared error type"""
    import warnings
    from mpilot.program import Program
    with open(os.path.join(tmp, "sc.csv"), "w") as f:
        f.write("a,b,c\n1,0.5,-1\n2,0.25,0\n4,-0.5,1\n3,1,0\n")
    texts = [
        # EEMS 2.0 syntax, with the arguments that the conversion drops
        'READ(InFileName = "sc.csv", InFieldName = a, OutFileName = "o1.csv")\nCVTTOFUZZY(InFieldName = a, NewFieldName = fa, TrueThreshold = 4, FalseThreshold = 1, OutFileName = "o1.csv")\n',
        'READ(InFileName = "sc.csv", InFieldName = b)\nREAD(InFileName = "sc.csv", InFieldName = c)\nOR(InFieldNames = [b, c], NewFieldName = o, OutFileName = "o2.csv")\nNOT(InFieldName = o, NewFieldName = n)\n',
        'READ(InFileName = "sc.csv", InFieldName = a)\nREAD(InFileName = "sc.csv", InFieldName = b)\nSUM(InFieldNames = [a, b], NewFieldName = s)\nWTDSUM(InFieldNames = [a, b], Weights = [1, 2.5], NewFieldName = w, OutFileName = "o3.csv")\n',
        'READ(InFileName = "sc.csv", InFieldName = 2010)\n',
        'READ(InFileName = "sc.csv", InFieldName = 2010)\nREAD(InFileName = "sc.csv", InFieldName = a)\nREAD(InFileName = "sc.csv", InFieldName = 7.5)\n',
        'READ(InFileName = "sc.csv", InFieldName = a)\nMEANTOMID(InFieldName = a, NewFieldName = m, IgnoreZeros = False, FuzzyValues = [-1, -0.5, 0, 0.5, 1])\n',
        # MPilot syntax: every family of command, strings with unknown escapes, metadata
        'A = EEMSRead(InFileName = "sc.csv", InFieldName = a)\nB = EEMSRead(InFileName = "sc.csv", InFieldName = b, DataType = Float)\nS = Sum(InFieldNames = [A, B])\n'
        'M = Mean(InFieldNames = [A, B, S])\nD = ADividedByB(A = A, B = B)\nW = WeightedMean(InFieldNames = [A, B], Weights = [1, 3])\nX = Multiply(InFieldNames = [A, B])\n',
        'A = EEMSRead(InFileName = "sc.csv", InFieldName = a, Metadata = [Description: "C:\\path\\q", Color: red])\nN = Normalize(InFieldName = A)\nZ = NormalizeZScore(InFieldName = A)\n'
        'F = CvtToFuzzy(InFieldName = A)\nG = CvtToFuzzyZScore(InFieldName = A, TrueThresholdZScore = 1, FalseThresholdZScore = -1)\nC = CvtToFuzzyCurve(InFieldName = A, RawValues = [1, 2, 4], FuzzyValues = [-1, 0.5, 1])\n',
        'B = EEMSRead(InFileName = "sc.csv", InFieldName = b)\nC = EEMSRead(InFileName = "sc.csv", InFieldName = c)\nFB = CvtToFuzzy(InFieldName = B, TrueThreshold = 1, FalseThreshold = -1)\n'
        'FC = CvtToFuzzy(InFieldName = C, TrueThreshold = 1, FalseThreshold = -1)\nO = FuzzyOr(InFieldNames = [FB, FC])\nX = FuzzyXOr(InFieldNames = [FB, FC])\nU = FuzzyUnion(InFieldNames = [FB, FC])\n'
        'SU = FuzzySelectedUnion(InFieldNames = [FB, FC], TruestOrFalsest = Truest, NumberToConsider = 1)\nWU = FuzzyWeightedUnion(InFieldNames = [FB, FC], Weights = [2, 1])\nR = CvtFromFuzzy(InFieldName = O, TrueThreshold = 10, FalseThreshold = 0)\n'
        'Out = EEMSWrite(OutFileName = "o4.csv", OutFieldNames = [O, X, U])\nP = PrintVars(InFieldNames = [WU])\n',
        'A = EEMSRead(InFileName = "sc.csv", InFieldName = a)\nK = CvtToFuzzyCat(InFieldName = A, RawValues = [1, 2], FuzzyValues = [1, -1], DefaultFuzzyValue = 0)\nT = CvtToBinary(InFieldName = A, Threshold = 2, Direction = LowToHigh)\n'
        'Q = NormalizeMeanToMid(InFieldName = A, IgnoreZeros = True, NormalValues = [0, 1, 2, 3, 4])\nY = NormalizeCurveZScore(InFieldName = A, ZScoreValues = [-1, 0, 1], NormalValues = [0, 1, 2])\n',
        # faulty ones: the error classes must be the same too
        'A = EEMSRead(InFileName = "missing.csv", InFieldName = a)\n', 'A = EEMSRead(InFileName = "sc.csv", InFieldName = zz)\nS = Sum(InFieldNames = [A])\n',
        'A = EEMSRead(InFileName = "sc.csv", InFieldName = a)\nD = ADividedByB(A = A, B = A, Extra = 1)\n', 'A = Sum(InFieldNames = [])\n', 'A = B(', 'A = Sum(InFieldNames = "x\\q")\n',
    ]
    for src in texts:
        outs = []
        for strict in (False, True):
            try:
                with warnings.catch_warnings(), contextlib.redirect_stdout(io.StringIO()):
                    warnings.simplefilter("error" if strict else "ignore")
                    p = Program.from_source(src, working_dir=tmp)
                    p.run()
                out = "ok"
            except BaseException as e:
                out = progrun.classify(e)
            outs.append(out)
        ctx.case("strict-caller " + src, sample={"source": src[:200], "default": outs[0], "warnings_as_errors": outs[1]})
        ctx.count("strict_caller_outcome:" + ":".join(outs[1].split(":")[:2]))
        if not boundary_ok(outs[1]):
            ctx.fail("with warnings turned into errors by the caller, %s escaped from from_source()/run()" % outs[1], {"source": src, "default_outcome": outs[0]})
        elif outs[0].split(":")[:2] != outs[1].split(":")[:2]:
            ctx.fail("with warnings turned into errors by the caller the model ends with %s instead of %s" % (outs[1], outs[0]), {"source": src})


PLUGLIB = "mpverif_c13plug"
PLUGLIB_SRC = '''
import numpy
from mpilot import params
from mpilot.commands import Command
from mpilot.exceptions import MPilotError, ProgramError


class SourceUnavailable(MPilotError):
    """an MPilot error of a plug-in library: derived from MPilotError directly, nothing but its text"""

    def __str__(self):
        return "Problem: The tile service does not answer.\\nSolution: Try again later."


class QuotaExceeded(MPilotError):
    """... built like the NetCDF library's errors: the line is handed to Exception, not kept as an attribute"""

    def __init__(self, what, lineno=None):
        super(QuotaExceeded, self).__init__(lineno)
        self.what = what

    def __str__(self):
        return "Problem: The quota for {} is used up.\\nSolution: Ask for more.".format(self.what)


class Unlicensed(MPilotError):
    """... carrying a `lineno` attribute of its own without being a ProgramError"""

    def __init__(self, lineno=None):
        super(Unlicensed, self).__init__("unlicensed")
        self.lineno = lineno

    def __str__(self):
        return "Problem: No licence for this layer.\\nSolution: Buy one."


class BadTile(ProgramError):
    def __init__(self, lineno=None):
        super(BadTile, self).__init__(lineno, "Problem: The tile is damaged.\\nSolution: Fetch it again.")


class Fetch(Command):
    inputs = {"How": params.StringParameter()}
    output = params.DataParameter()

    def execute(self, **kw):
        how = kw["How"]
        if how == "unavailable":
            raise SourceUnavailable()
        if how == "quota":
            raise QuotaExceeded("tiles", lineno=self.lineno)
        if how == "licence":
            raise Unlicensed(self.lineno)
        if how == "licence-noline":
            raise Unlicensed()
        if how == "damaged":
            raise BadTile(self.lineno)
        return numpy.ma.array([1.0, 2.0, 3.0])
'''

# a user library that defines a command under a name the EEMS libraries use too: requesting both is refused by Program() with a plain MPilotError
CLASHLIB = "mpverif_c13clash"
CLASHLIB_SRC = '''
from mpilot import params
from mpilot.commands import Command


class Copy(Command):
    inputs = {"InFieldName": params.ResultParameter(params.DataParameter())}
    output = params.DataParameter()

    def execute(self, **kw):
        return kw["InFieldName"].result
'''


def _module(name, src):
    import types
    if name not in sys.modules:
        m = types.ModuleType(name)
        sys.modules[name] = m
        exec(compile(src, name, "exec"), m.__dict__)
    return sys.modules[name]


def cli_other_routes(ctx, tmp):
    """the command-line tool on the routes `cli` and `every_error_class` do not take: `eems-netcdf` models whose data the NetCDF reader refuses (its errors derive
    from MPilotError directly), library sets extended with -l (the NetCDF library under eems-csv and the other way round: "duplicated commands", raised by
    Program() itself as a plain MPilotError; a user library with its own MPilot errors; a user library that clashes with a built-in command) - the failing
    command on the first, a middle and the last line, written on one line and on several.  Whatever from_source()/run() raises for the file with that library
    set, if it is an MPilot error the tool reports it: no exception escapes, the exit status is not 0, the error's text is on standard error"""
    import numpy
    import mpilot.cli.mpilot as cli
    from mpilot.program import Program, EEMS_CSV_LIBRARIES, EEMS_NETCDF_LIBRARIES
    from mpilot.exceptions import MPilotError, ProgramError
    from . import c18
    rng = ctx.rng
    _module(PLUGLIB, PLUGLIB_SRC)
    _module(CLASHLIB, CLASHLIB_SRC)
    arr = numpy.ma.array(numpy.array([[-2.0, 0.5, 7.0], [3.0, 1.0, 0.25]]), mask=[[False, False, False], [True, False, False]])
    c18.make_var_file(os.path.join(tmp, "o_v.nc"), (2, 3), arr, fill=-9999.0)
    c18.make_var_file(os.path.join(tmp, "o_ok.nc"), (2, 3), numpy.ma.array(numpy.array([[0.5, 0.25, 1.0], [0.0, 1.0, 0.75]])), fill=-9999.0)
    open(os.path.join(tmp, "o_t.csv"), "w").write("a,b\n1,2\n3,4\n")
    good_nc = ['G = EEMSRead(InFileName = "o_ok.nc", InFieldName = v)', 'H = Sum(InFieldNames = [G, G])', 'I = CvtToFuzzy(InFieldName = H, TrueThreshold = 2, FalseThreshold = 0)']
    good_csv = ['G = EEMSRead(InFileName = "o_t.csv", InFieldName = a)', 'H = Sum(InFieldNames = [G, G])', 'I = CvtToFuzzy(InFieldName = H, TrueThreshold = 2, FalseThreshold = 0)']
    bad_nc = [('InFileName = "o_v.nc"', 'InFieldName = slope'), ('InFileName = "o_v.nc"', 'InFieldName = v', 'DataType = "Positive Float"'), ('InFileName = "o_v.nc"', 'InFieldName = v', 'DataType = "Positive Integer"'),
              ('InFileName = "o_v.nc"', 'InFieldName = v', 'DataType = Fuzzy'), ('InFileName = "o_v.nc"', 'InFieldName = v', 'DataType = Fuzzy', 'MissingValue = 7')]
    jobs = []         # (library argument, -l libraries, lines of the file)

    def placed(good, bad_lines, consumer):
        """the failing command at the top, in the middle, at the end of a model that is fine otherwise, with or without a consumer"""
        k = rng.choice([0, 1, len(good)])
        return good[:k] + bad_lines + ([consumer] if rng.random() < 0.5 else []) + good[k:]
    for args in bad_nc:
        for multi in (False, True):
            bad = ["R = EEMSRead(%s)" % ", ".join(args)] if not multi else ["R = EEMSRead("] + ["    %s%s" % (a, "," if i + 1 < len(args) else "") for i, a in enumerate(args)] + [")"]
            jobs.append(("eems-netcdf", (), placed(good_nc, bad, rng.choice(['C = Copy(InFieldName = R)', 'S = Sum(InFieldNames = [R, G])']))))
    jobs.append(("eems-netcdf", (), good_nc))
    jobs.append(("eems-netcdf", (), good_nc + ['X = Copy(InFieldName = Nowhere)']))
    # -l: clashing library sets (refused before the file is looked at), in every combination; the same models without the clash
    for lib_arg, extra, good in (("eems-csv", ("mpilot.libraries.eems.netcdf",), good_csv), ("eems-netcdf", ("mpilot.libraries.eems.csv",), good_nc), ("eems-csv", (CLASHLIB,), good_csv),
                                 ("eems-netcdf", (PLUGLIB, CLASHLIB), good_nc), ("eems-csv", ("mpilot.libraries.eems.netcdf.io",), good_csv), ("eems-csv", ("mpilot.libraries.eems.fuzzy",), good_csv),
                                 ("eems-csv", (PLUGLIB,), good_csv), ("eems-netcdf", (PLUGLIB, "mpilot.libraries.eems.basic"), good_nc)):
        jobs.append((lib_arg, extra, good))
        jobs.append((lib_arg, extra, good[:1]))
    # -l: a user library whose commands raise MPilot errors of their own
    for how in ("unavailable", "quota", "licence", "licence-noline", "damaged", "fine"):
        for lib_arg, good in (("eems-csv", good_csv), ("eems-netcdf", good_nc)):
            bad = ['T = Fetch(How = %s)' % how] if rng.random() < 0.5 else ['T = Fetch(', '    How = "%s"' % how, ')']
            jobs.append((lib_arg, (PLUGLIB,), placed(good, bad, 'C = Copy(InFieldName = T)')))
    for n, (lib_arg, extra, lines) in enumerate(jobs):
        src = "\n".join(lines) + "\n"
        exc = None
        try:
            with numpy.errstate(all="ignore"):
                Program.from_source("\n".join(lines), libraries=tuple(extra) + (EEMS_CSV_LIBRARIES if lib_arg == "eems-csv" else EEMS_NETCDF_LIBRARIES), working_dir=tmp).run()
        except BaseException as e:      # noqa
            exc = e
        got = type(exc).__name__ if exc is not None else "no error"
        path = os.path.join(tmp, "o_model%d.mpt" % (n % 3))
        open(path, "w").write(src)
        argv = [lib_arg, path] + [x for lib in extra for x in ("-l", lib)]
        with numpy.errstate(all="ignore"):
            code, err, crash = clicorr._invoke(cli.main, argv)
        ctx.case("cli-route %r %s" % (argv[:1] + argv[2:], src), sample={"kind": "cli-route", "argv": argv[:1] + argv[2:], "source": src[:200], "raised": got, "exit": code})
        ctx.count("cli_route:%s" % got)
        desc = {"command_line": "mpilot %s model.mpt %s" % (lib_arg, " ".join("-l " + lib for lib in extra)), "command_file": src, "from_source_run_raises": got if exc is None else "%s: %s" % (got, exc),
                "is_ProgramError": isinstance(exc, ProgramError), "exit": code, "stderr": err[-500:], "escaped": crash,
                "files": "o_v.nc: variable v(2,3) = [[-2, 0.5, 7], [missing, 1, 0.25]]; o_ok.nc: v(2,3) within [0, 1]; o_t.csv: a,b / 1,2 / 3,4",
                "user_libraries": "harness/props/c13.py PLUGLIB_SRC (%s), CLASHLIB_SRC (%s)" % (PLUGLIB, CLASHLIB)}
        if exc is None:
            if code != 0 or crash != "-":
                ctx.fail("the command-line tool failed (exit %s, escaped %s) on a model that loads and runs with that library set" % (code, crash), desc)
        elif isinstance(exc, MPilotError):
            if crash != "-":
                ctx.fail("the command-line tool died with %s on a model that fails with the MPilot error %s" % (crash, got), desc)
            elif code == 0:
                ctx.fail("the command-line tool exited 0 although the model fails with %s" % got, desc)
            elif str(exc) not in err:
                ctx.fail("the command-line tool did not print the problem/solution text of %s to standard error" % got, desc)
        elif not isinstance(exc, SyntaxError):
            ctx.fail("%s escaped from from_source()/run(): neither a syntax error nor an MPilot error" % got, desc)


def unregistered_objects(ctx, tmp):
    """models built through the programming interface whose references are Command objects that are not - or no longer - among program.commands when run()
    is called: registered when the consumer was added and taken out with the documented `del program.commands[name]` (before the first run, or between two
    runs), a free-standing command (pre-computed or not), a command of another program; directly, in a list, in a nested list; plug-in commands and the
    built-in ones over a table.  Running such a model succeeds or fails with an MPilot error like any other"""
    from collections import OrderedDict
    from .. import apihist
    from mpilot.program import Program
    rng = ctx.rng
    open(os.path.join(tmp, "u_t.csv"), "w").write("A,B\n1,10\n2,20\n3,30\n")

    def attempt(what, desc, steps):
        for text, step in steps:
            try:
                step()
                out = "ok"
            except BaseException as e:      # noqa
                out = progrun.classify(e)
            desc["then"].append("%s   -> %s" % (text, out))
            ctx.count("unregistered_outcome:" + ":".join(out.split(":")[:2]))
            if not boundary_ok(out):
                ctx.fail("%s: %s escaped from %s" % (what, out, text), desc)
                return
    for via in ("One", "Many", "Nested", "One+Many"):
        for how in ("removed before the first run", "removed between two runs", "removed and another command added under its name", "free-standing", "free-standing, finished", "of another program",
                    "of another program, named only (control)"):
            w = apihist.World()
            p = w.program("p")
            a = w.add(p, "A", 1)
            if how.startswith("free"):
                b = w.free("B", 10)
                if how.endswith("finished"):
                    b.result
            elif how.startswith("of another"):
                other = w.program("other")
                b = w.add(other, "B", 10)
            else:
                b = w.add(p, "B", 10)
            named = how.endswith("(control)")
            t = w.add(p, "T", 100, one=b if via in ("One", "One+Many") else None, many=[a, b] if via in ("Many", "One+Many") else None, nested=[[a], [b, a]] if via == "Nested" else None,
                      by=lambda r: "name" if (r is a and rng.random() < 0.5) or named else "object")
            desc = w.describe([])
            steps = []

            def remove():
                del p.commands["B"]
            if how == "removed between two runs":
                steps.append(("p.run()", p.run))
            if how.startswith("removed"):
                steps.append(("del p.commands['B']", remove))
            if how.endswith("under its name"):
                steps.append(("p.add_command(Val, 'B', {'Value': 5})", lambda: p.add_command(w.m.Val, "B", OrderedDict([("Value", 5)]))))
            if rng.random() < 0.5:
                steps.append(("p.add_command(Val, 'Out', {'One': <the command T of p>})", lambda: p.add_command(w.m.Val, "Out", OrderedDict([("One", t)]))))
            steps += [("p.run()", p.run), ("p.commands['T'].result", lambda: p.commands["T"].result), ("p.run()", p.run)]
            ctx.case("unregistered %s %s %r" % (via, how, [s_[0] for s_ in steps]), sample=None)
            ctx.count("unregistered_object_cases")
            attempt("a model whose %s reference is a Command object %s" % (via, how), desc, steps)
    # the built-in commands over a table
    src = 'A = EEMSRead(InFileName = "u_t.csv", InFieldName = A)\nB = EEMSRead(InFileName = "u_t.csv", InFieldName = B)\n'
    for cmd, args in (("Sum", lambda p: {"InFieldNames": [p.commands["A"], p.commands["B"]]}), ("AMinusB", lambda p: {"A": p.commands["A"], "B": p.commands["B"]}), ("Copy", lambda p: {"InFieldName": p.commands["B"]}),
                      ("EEMSWrite", lambda p: {"OutFileName": "u_out.csv", "OutFieldNames": [p.commands["B"], "A"]})):
        for between in (False, True):
            p = Program.from_source(src, working_dir=tmp)
            desc = {"source": src, "then": ["program.add_command(%s, 'T', {... the commands A / B given as objects ...})" % cmd]}
            p.add_command(p.find_command_class(cmd), "T", OrderedDict(args(p)))
            victim = rng.choice(["A", "B"]) if cmd in ("Sum", "AMinusB") else "B"

            def remove():
                del p.commands[victim]
            steps = ([("program.run()", p.run)] if between else []) + [("del program.commands[%r]" % victim, remove)]
            if cmd != "EEMSWrite":
                steps.append(("program.add_command(Copy, 'Out', {'InFieldName': <the command T>})", lambda: p.add_command(p.find_command_class("Copy"), "Out", OrderedDict([("InFieldName", p.commands["T"])]))))
            steps += [("program.run()", p.run), ("program.run()", p.run)]
            ctx.case("unregistered-eems %s %s %s" % (cmd, between, victim), sample=None)
            ctx.count("unregistered_object_cases")
            attempt("%s over Command objects one of which was removed from program.commands %s" % (cmd, "between two runs" if between else "before the first run"), desc, steps)


def eems2_result_names(ctx, tmp):
    """EEMS 2.0 command files (commands without `Result =`) whose result name comes from a NewFieldName - or, where that is absent, InFieldName - of every
    kind a command file can write: lists, nested lists, key:value tuples, numbers, empty lists and texts, words; in a file of that one command, after
    well-formed commands, and next to a command the name collides with.  Real bodies of the CSV libraries, through Program.from_source + run() and through
    the tool in-process: only SyntaxError or MPilot errors, and the tool reports the MPilot errors"""
    import contextlib, io
    from mpilot.exceptions import MPilotError
    from mpilot.program import Program, EEMS_CSV_LIBRARIES
    import mpilot.cli.mpilot as cli_mod
    open(os.path.join(tmp, "data2.csv"), "w").write("a,b\n1,4\n2,5\n3,6\n")
    values = ["[a]", "[a, b]", "[[a]]", "[[a], b]", "[DisplayName: a]", "[k: a, j: b]", "[1]", "[1, 2.5]", "[]", '""', '"a b"', "2020", "-1", "0", "0.0", "2.5", "1e3", "True", '["a"]', '[k: [a]]', "a"]
    head = "READ(InFileName = data2.csv, InFieldName = a)\nREAD(InFileName = data2.csv, InFieldName = b)\n"
    shapes = [
        ("READ.InFieldName", "", "READ(InFileName = data2.csv, InFieldName = %s)\n"),
        ("READ.NewFieldName", "", "READ(InFileName = data2.csv, InFieldName = a, NewFieldName = %s)\n"),
        ("SUM.NewFieldName", head, "SUM(InFieldNames = [a, b], NewFieldName = %s)\n"),
        ("CVTTOFUZZY.InFieldName", head, "CVTTOFUZZY(InFieldName = %s, TrueThreshold = 3, FalseThreshold = 1)\n"),
        ("CVTTOFUZZY.both", head, "CVTTOFUZZY(\n    InFieldName = %s,\n    NewFieldName = %s,\n    TrueThreshold = 3, FalseThreshold = 1)\n"),
        ("COPY.NewFieldName-mixed", head + "c = Copy(InFieldName = a)\n", "COPY(InFieldName = b, NewFieldName = %s)\nd = Copy(InFieldName = c)\n"),
        ("MPilot-name.InFieldName", head, "Copy(InFieldName = %s)\n"),
    ]
    path = os.path.join(tmp, "model_v2.eem")
    k = 0
    for tag, pre, shape in shapes:
        for v in values:
            k += 1
            if not ctx.thorough and not (v in ("[a]", "[DisplayName: a]", "[[a], b]", "2020") or (k % 3 == 0)):
                continue
            src = pre + (shape % ((v,) * shape.count("%s")))
            exc = None
            try:
                with contextlib.redirect_stdout(io.StringIO()):
                    Program.from_source(src, libraries=EEMS_CSV_LIBRARIES, working_dir=tmp).run()
                out = "ok"
            except BaseException as e:
                out, exc = progrun.classify(e), e
            with open(path, "w") as f:
                f.write(src)
            code, err, crash = clicorr._invoke(cli_mod.main, ["eems-csv", path])
            ctx.case("eems2-result-name " + src, sample={"kind": "eems2-result-name:" + tag, "source": src[-200:], "impl": out, "exit": code, "escaped": crash})
            ctx.count("eems2_result_name:" + out.split(":")[0])
            desc = {"source": src, "outcome": out, "tool_exit": code, "tool_escaped": crash, "tool_stderr": err[-400:]}
            if not boundary_ok(out):
                ctx.fail("EEMS 2.0 command file whose result name is given as %s (%s): %s escaped from from_source()/run()" % (v, tag, out), desc)
            if isinstance(exc, SyntaxError):
                # malformed text (`[k: [a]]`: a list is no tuple value): the property asks the report of the tool for MPilot errors only; the tool may end with
                # that very SyntaxError - anything else escaping from it is held against it
                if crash not in ("-", "SyntaxError"):
                    ctx.fail("EEMS 2.0 command file whose result name is given as %s (%s): malformed text, the command-line tool died with %s" % (v, tag, crash), desc)
            elif crash != "-":
                ctx.fail("EEMS 2.0 command file whose result name is given as %s (%s): the command-line tool died with %s" % (v, tag, crash), desc)
            elif isinstance(exc, MPilotError) and (code == 0 or str(exc) not in err):
                ctx.fail("EEMS 2.0 command file whose result name is given as %s (%s): fails with %s, the tool %s" % (
                    v, tag, type(exc).__name__, "exited 0" if code == 0 else "did not print its message to standard error"), desc)
    for f in ("model_v2.eem", "data2.csv"):
        os.remove(os.path.join(tmp, f))


def run(ctx):
    ctx.check_proofs(["MPilot.Props.C13", "MPilot.Props.C13Cli", "MPilot.Props.C13Err", "MPilot.Props.C13Run", "MPilot.Props.C13End"])
    model = common.Model()
    rng = ctx.rng
    tmp = common.tmpdir("mpv_c13_")
    open(os.path.join(tmp, "in.csv"), "w").write("a,b\n1,2\n3,4\n")
    env = {"in": "in.csv"}
    exist = [os.path.join(tmp, "in.csv")]
    base, classes = progrun.library_classes(c12.LIBS)
    classes = sorted(classes, key=lambda c: c.name)
    scs = kind_matrix(ctx, classes, env, tmp)
    answers = model.ask([sc.protocol(classes) for sc, _ in scs])
    for (sc, tag), ans in zip(scs, answers):
        res = progrun.run_impl(sc)
        outs = [res["load"]] + res["ops"]
        ctx.case(sc.source + repr(sc.ops), sample={"kind": tag, "source": sc.source[-300:], "impl": progrun.impl_text(res)[:160], "model": ans[:160]})
        ctx.count("matrix_outcome:" + ":".join(outs[-1].split(":")[:2]))
        if "raw:OutsideModel" in ans:
            ctx.count("outside_model_domain")
        else:
            d = progrun.compare(res, ans)
            if d:
                ctx.disagree("boundary:" + tag, sc.describe(), d[0][:400], d[1][:400])
        for o in outs:
            if not boundary_ok(o):
                ctx.fail("%s: %s escaped from from_source()/run()" % (tag, o), sc.describe())
        for s in res["str_errors"]:
            ctx.fail("%s: %s" % (tag, s), sc.describe())
    # corrupted command files (parser boundary)
    from mpilot.program import Program
    n_corrupt = ctx.budget(150, 6000)
    for i in range(n_corrupt):
        sc = scs[rng.randrange(len(scs))][0]
        src = corrupt(rng, sc.source)
        try:
            with progrun.stubbed(classes, progrun.Recorder()):
                p = Program.from_source(src, libraries=c12.LIBS, working_dir=tmp)
                p.run()
            out = "ok"
        except BaseException as e:
            out = progrun.classify(e)
        ctx.case("corrupt " + src, sample=None)
        ctx.count("corrupt_outcome:" + out.split(":")[0])
        if not boundary_ok(out):
            ctx.fail("corrupted command file: %s escaped" % out, {"source": src})
    # texts at the edge of the grammar: repeated tuple keys (the later pair wins), empty tuples/lists, a tuple where a list is expected
    for src in ('A = N(Metadata = [k: 1, k: 2])\n', 'A = N(Metadata = [k: 1, k: 2])\nB = N(One = A)\n', 'B = N()\nA = N(Metadata = [k: a, j: b, k: c], One = B)\nC = N(One = A)\n',
                'A = N(Metadata = [])\n', 'A = N(Many = [k: 1])\n', 'A = N(Metadata = [k: [1, 2]])\n', 'A = N(Metadata = [k: 1,])\n'):
        try:
            with progrun.stubbed(classes, progrun.Recorder()):
                p = Program.from_source(src, libraries=c12.LIBS, working_dir=tmp)
                p.run()
                n_cmds = len(p.commands)
            out = "ok"
        except BaseException as e:
            out = progrun.classify(e)
            n_cmds = None
        ctx.case("edge " + src, sample=None)
        ctx.count("edge_text_outcome:" + out.split(":")[0])
        if not boundary_ok(out):
            ctx.fail("command file at the edge of the grammar: %s escaped" % out, {"source": src})
        elif out == "ok" and n_cmds != src.count(" = N("):
            ctx.fail("command file at the edge of the grammar: %d of its %d commands were loaded" % (n_cmds, src.count(" = N(")), {"source": src})
    deep_models(ctx)
    netcdf_faults(ctx, tmp)
    csv_faults(ctx, tmp)
    strict_caller(ctx, tmp)
    cli(ctx, tmp, 12 if ctx.thorough else 9)
    every_error_class(ctx, tmp)
    cli_other_routes(ctx, tmp)
    unregistered_objects(ctx, tmp)
    eems2_result_names(ctx, tmp)
    clicorr.formatting(ctx, model, ctx.budget(60, 3000), reports=True)         # the tool's reporting against Model/Cli (Props/C13Cli.lean)
    return ctx.finish(
        rule="(a) every command x parameter x raw kinds (numbers, booleans, strings incl. non-ASCII/backslash/quote, names of results of every kind, "
             "unknown names, lists, nested lists, dicts) and failing bodies, through from_source()/run()/result; (b) single-token corruptions of those "
             "files; (c) 20 CSV fault files x 3 columns x 5 read options through the real EEMSRead/Sum/EEMSWrite bodies; (d) the CLI in a subprocess; "
             "distinct by source text",
        explanation="theorems in Props/C13.lean (everything leaving Command.run is an MPilotError; the model's load/pre-pass raise only MPilotErrors) hold for "
                    "the model; any exception class at the API boundary that the model does not predict is a disagreement, and any class other than "
                    "SyntaxError/MPilotError is reported by the boundary oracle with the file as replay")


def replay(path):
    import json
    print(json.dumps(json.load(open(path)), indent=1)[:6000])
    return 0
