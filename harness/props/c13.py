"""C13 — only declared error types escape, and the CLI reports them.

proof:          lean/MPilot/Props/C13.lean
correspondence: kind-confusion matrix (every command x parameter x every raw kind) and failing bodies through from_source()/run() vs the model;
                corrupted command files vs the parser model; CSV fault files through the real EEMSRead body
oracles:        the exception type at the from_source()/run() boundary is SyntaxError or an MPilotError (never anything else), its str() works;
                the command-line tool exits non-zero and prints the problem/solution message (and marks the line) for MPilot errors
"""
import contextlib
import io
import os
import subprocess
import sys

from .. import common, prog, progrun, clicorr
from ..progrun import Scenario, Name
from . import c12

RAW_KINDS = [5, -1, 0.5, True, "text", "12", "", Name("Rd"), Name("NoSuch"), Name("word"), [], [1, 2], ["a"], [[1], [2]], [Name("Rd")], [Name("Tok")],
             {"k": "v"}, "é☃", "a\\b", 'q"uote', "snow ☃\there \\ \"x\"", "\u00b2", "1\u00b3", "\u2460", "nan", "-inf", "1e999", {"k☃": "v\n☃"}, "in\x00put.csv", "x" * 5000]      # ², 1³, ①: digits to str.isdigit, not to int()


def boundary_ok(outcome):
    return outcome == "ok" or outcome == "syntax" or outcome.startswith("mp:") or outcome.startswith("unexpected:")


def kind_matrix(ctx, classes, env, tmp):
    rng = ctx.rng
    scs = []
    for cls in classes:
        if cls.name == "NoOut":
            continue
        call = c12.valid_call(rng, cls, env)
        cmds = c12.producers(env) + [call]
        names = [n for n in cls.inputs if n != "Fail"]
        for name in names:
            kinds = RAW_KINDS if ctx.thorough else rng.sample(RAW_KINDS[:-10], 5) + [rng.choice(RAW_KINDS[-10:-7]), rng.choice(RAW_KINDS[-7:-4])] + RAW_KINDS[-4:]
            for v in kinds:
                args = [(n, x) for n, x in call[2] if n != name] + [(name, v)]
                scs.append((Scenario(cmds[:-1] + [(call[0], call[1], args)], wd=tmp, libs=c12.LIBS), "kind:%s.%s" % (cls.name, name)))
    # failing bodies, directly and nested
    for fail in ("mp", "value"):
        scs.append((Scenario([("a", "N", [("Fail", fail)])], libs=c12.LIBS), "failing-body"))
        scs.append((Scenario([("a", "N", [("Fail", fail)]), ("b", "N", [("One", Name("a"))]), ("c", "N", [("Many", [Name("b")])])], libs=c12.LIBS), "failing-body"))
        scs.append((Scenario([("c", "N", [("Many", [Name("b")])]), ("b", "N", [("One", Name("a"))]), ("a", "N", [("Fail", fail)])],
                             ops=[("run",), ("result", "c"), ("run",)], libs=c12.LIBS), "failing-body"))
        # the failed command itself asked again, directly (a front end reading results one by one after a failed run)
        scs.append((Scenario([("c", "N", [("Many", [Name("b")])]), ("b", "N", [("One", Name("a"))]), ("a", "N", [("Fail", fail)])],
                             ops=[("run",), ("result", "a"), ("result", "a"), ("result", "b"), ("run",)], libs=c12.LIBS), "failing-body"))
        scs.append((Scenario([("a", "N", [("Fail", fail)])], ops=[("result", "a"), ("result", "a"), ("run",), ("run",)], libs=c12.LIBS), "failing-body"))
    return scs


def corrupt(rng, src):
    """single-token corruption of a command file"""
    toks = ["(", ")", "[", "]", "=", ",", ":", '"', "'"]
    pos = [i for i, ch in enumerate(src) if ch in "()[]=,:\"'"]
    if not pos:
        return src + "("
    i = rng.choice(pos)
    k = rng.randrange(4)
    if k == 0:
        return src[:i] + src[i + 1:]                       # delete a delimiter
    if k == 1:
        return src[:i] + src[i] + src[i:]                  # duplicate it
    if k == 2:
        return src[:i] + rng.choice(toks) + src[i + 1:]    # replace it
    return src[:i] + rng.choice(["\\", "@", "$", ";", "\x00", "\\x"]) + src[i:]   # insert a stray character


def csv_faults(ctx, tmp):
    """the real EEMSRead body on faulty files"""
    from mpilot.program import Program
    from mpilot.exceptions import MPilotError
    files = {
        "empty.csv": "", "header_only.csv": "a,b\n", "ragged.csv": "a,b\n1,2\n3\n4,5\n", "ragged_first.csv": "a,b\n1\n",
        "nonnumeric.csv": "a,b\n1,x\n2,3\n", "nan_int.csv": "a,b\nnan,1\n2,3\n", "inf.csv": "a\ninf\n1\n", "blank_lines.csv": "a,b\n\n1,2\n\n3,4\n",
        "empty_cell.csv": "a,b\n1,\n,2\n", "quoted.csv": '"a","b"\n"1","2"\n', "bom.csv": "﻿a,b\n1,2\n", "crlf.csv": "a,b\r\n1,2\r\n",
        "spaces.csv": "a, b\n1, 2\n", "dup_header.csv": "a,a\n1,2\n", "huge.csv": "a\n1e999\n-1e999\n", "only_newlines.csv": "\n\n\n",
        "no_trailing_newline.csv": "a,b\n1,2", "tabs.csv": "a\tb\n1\t2\n", "unbalanced_quote.csv": 'a,b\n"1,2\n3,4\n', "nul.csv": "a\n1\x002\n",
    }
    for name, text in files.items():
        with open(os.path.join(tmp, name), "w", encoding="utf-8", newline="") as f:
            f.write(text)
    for name in sorted(files):
        for col in ("a", "b", "zz"):
            for extra in ("", ", DataType = Integer", ", MissingVal = 1", ", DataType = Integer, MissingVal = 2.5", ", MissingVal = x"):
                src = 'A = EEMSRead(InFileName = "%s", InFieldName = %s%s)\nS = Sum(InFieldNames = [A, A])\nW = EEMSWrite(OutFileName = "w_out.csv", OutFieldNames = [S])\n' % (name, col, extra)
                try:
                    p = Program.from_source(src, working_dir=tmp)
                    p.run()
                    out = "ok"
                except BaseException as e:
                    out = progrun.classify(e)
                    try:
                        str(e)
                    except Exception as e2:
                        ctx.fail("str(%s) raised %s" % (type(e).__name__, type(e2).__name__), {"source": src, "file": files[name]})
                ctx.case("csv " + src, sample={"file": name, "content": text[:40], "source": src[:120], "outcome": out})
                ctx.count("csv_outcome:" + out.split(":")[0] + (":" + out.split(":")[1] if ":" in out else ""))
                if not boundary_ok(out):
                    ctx.fail("CSV %s (%r), column %s%s: %s escaped from run()" % (name, text[:30], col, extra, out), {"source": src, "file_content": text})


def cli(ctx, tmp, count):
    """the command-line tool on failing and passing models"""
    scratch = common.scratch_repo()
    cases = [
        ("ok.mpt", 'A = EEMSRead(InFileName = "in.csv", InFieldName = a)\n', 0, None),
        ("missing_param.mpt", '\n\nA = EEMSRead(InFileName = "in.csv")\n', 1, 3),
        ("bad_cell_far.mpt", 'A = EEMSRead(InFileName = "bad7.csv", InFieldName = a)\n', 1, None),      # the bad cell is on line 7 of the data file; the model has one line
        ("nan_text.mpt", 'A = EEMSRead(InFileName = "in.csv", InFieldName = a, MissingVal = nan)\nB = CvtToBinary(InFieldName = A, Threshold = -inf, Direction = LowToHigh)\n', 0, None),
        ("no_cmd.mpt", '# c\nA = Nope(X = 1)\n', 1, 2),
        ("bad_value.mpt", 'A = EEMSRead(InFileName = "in.csv", InFieldName = a)\nB = Normalize(\n  InFieldName = A,\n  StartVal = [1, 2]\n)\n', 1, 4),
        ("no_file.mpt", 'A = EEMSRead(\n  InFileName = "nofile.csv",\n  InFieldName = a)\n', 1, 2),
        ("shapes.mpt", 'A = EEMSRead(InFileName = "in.csv", InFieldName = a)\nB = EEMSRead(InFileName = "in3.csv", InFieldName = a)\nC = Sum(InFieldNames = [A, B])\n', 1, 3),
        ("bad_cell.mpt", 'A = EEMSRead(InFileName = "bad.csv", InFieldName = a)\n', 1, None),
        ("cycle.mpt", 'A = Copy(InFieldName = B)\nB = Copy(InFieldName = A)\n', 1, None),
        ("weights.mpt", 'A = EEMSRead(InFileName = "in.csv", InFieldName = a)\nB = WeightedSum(InFieldNames = [A, A], Weights = [1])\n', 1, None),
        ("syntax.mpt", 'A = EEMSRead(InFileName = "in.csv", InFieldName = a\n', None, None),
    ]
    for f, text in (("in.csv", "a,b\n1,2\n3,4\n"), ("in3.csv", "a\n1\n2\n3\n"), ("bad.csv", "a\n1\nx\n"), ("bad7.csv", "a\n1\n2\n3\n4\n5\nx\n")):
        open(os.path.join(tmp, f), "w").write(text)
    for name, src, want_fail, line in cases[:count]:
        path = os.path.join(tmp, name)
        open(path, "w").write(src)
        code = "import sys; sys.path.insert(0, %r); from mpilot.cli.mpilot import main; main()" % scratch
        p = subprocess.run([sys.executable, "-c", code, "eems-csv", path], stdout=subprocess.PIPE, stderr=subprocess.PIPE, universal_newlines=True, timeout=120)
        ctx.case("cli " + src, sample={"file": name, "exit": p.returncode, "stderr": p.stderr[:200]})
        ctx.count("cli_cases")
        desc = {"command_file": src, "exit": p.returncode, "stderr": p.stderr[-600:]}
        if want_fail is None:
            continue
        if want_fail == 0:
            if p.returncode != 0:
                ctx.fail("CLI failed on a valid model (exit %s)" % p.returncode, desc)
            continue
        if p.returncode == 0:
            ctx.fail("CLI exited 0 although the model fails with an MPilot error", desc)
        if "Traceback" in p.stderr:
            ctx.fail("CLI died with a traceback instead of reporting the MPilot error", desc)
        elif "Problem:" not in p.stderr or "Solution:" not in p.stderr:
            ctx.fail("CLI did not print the problem/solution message to standard error", desc)
        if line is not None:
            marked = [l for l in p.stderr.split("\n") if l.startswith("--> ")]
            if not marked or marked[0][4:] != src.split("\n")[line - 1]:
                ctx.fail("CLI marked %r, the offending line %d is %r" % (marked[:1], line, src.split("\n")[line - 1]), desc)


def every_error_class(ctx, tmp):
    """one small model per error class of the package (Generated/ErrTable.lean lists them; Props/C13Err.lean says what the model takes them for): the class
    raised must be the one the model is built to raise, it must be an MPilot error at from_source()/run(), and the command-line tool (in-process) must
    report it - non-zero exit, no escaping exception, its problem/solution text - whichever class it is"""
    from mpilot.program import Program, EEMS_CSV_LIBRARIES
    from mpilot.exceptions import MPilotError
    import mpilot.cli.mpilot as cli
    for f, text in (("e_in.csv", "a,b,z\n1,2,0\n3,4,0\n"), ("e_in3.csv", "a\n1\n2\n3\n"), ("e_bad.csv", "a\n1\nx\n"), ("e_empty.csv", "")):
        open(os.path.join(tmp, f), "w").write(text)
    R = 'A = EEMSRead(InFileName = "e_in.csv", InFieldName = a)\nB = EEMSRead(InFileName = "e_in.csv", InFieldName = b)\n'
    F = R + 'FA = CvtToFuzzy(InFieldName = A)\nFB = CvtToFuzzy(InFieldName = B)\n'
    models = [
        ("CommandDoesNotExist", R + 'X = Nope(P = 1)\n'), ("DuplicateResult", R + 'A = Copy(InFieldName = B)\n'), ("MissingParameters", R + 'X = Copy()\n'),
        ("NoSuchParameter", R + 'X = Copy(InFieldName = A, Bogus = 1)\n'), ("ParameterNotValid", R + 'X = Normalize(InFieldName = A, StartVal = abc)\n'),
        ("PathDoesNotExist", 'X = EEMSRead(InFileName = "e_nofile.csv", InFieldName = a)\n'), ("ResultDoesNotExist", R + 'X = Copy(InFieldName = Nowhere)\n'),
        ("ResultTypeNotValid", R + 'W = EEMSWrite(OutFileName = "e_out.csv", OutFieldNames = [A])\nX = Copy(InFieldName = W)\n'),
        ("ResultNotFuzzy", R + 'X = FuzzyNot(InFieldName = A)\n'), ("ResultIsFuzzy", F + 'X = CvtToFuzzy(InFieldName = FA)\n'),
        ("RecursiveModelStructure", 'X = Copy(InFieldName = Y)\nY = Copy(InFieldName = X)\n'),
        ("EmptyInputs", R + 'X = Sum(InFieldNames = [])\n'),
        ("MixedArrayShapes", R + 'C = EEMSRead(InFileName = "e_in3.csv", InFieldName = a)\nX = Sum(InFieldNames = [A, C])\n'),
        ("MismatchedWeights", R + 'X = WeightedSum(InFieldNames = [A, B], Weights = [1])\n'),
        ("InvalidThresholds", R + 'X = CvtToFuzzy(InFieldName = A, TrueThreshold = 2, FalseThreshold = 2)\n'),
        ("MixedArrayLengths", R + 'X = NormalizeCurve(InFieldName = A, RawValues = [1, 2, 3], NormalValues = [0, 1])\n'),
        ("DuplicateRawValues", R + 'X = NormalizeCurve(InFieldName = A, RawValues = [1, 1], NormalValues = [0, 1])\n'),
        ("InvalidNumberToConsider", F + 'X = FuzzySelectedUnion(InFieldNames = [FA, FB], TruestOrFalsest = Truest, NumberToConsider = 3)\n'),
        ("InvalidTruestOrFalsest", F + 'X = FuzzySelectedUnion(InFieldNames = [FA, FB], TruestOrFalsest = Sometimes, NumberToConsider = 1)\n'),
        ("InvalidDataFile", 'X = EEMSRead(InFileName = "e_bad.csv", InFieldName = a)\n'), ("EmptyDataFile", 'X = EEMSRead(InFileName = "e_empty.csv", InFieldName = a)\n'),
        ("InvalidDirection", R + 'X = CvtToBinary(InFieldName = A, Threshold = 2, Direction = Sideways)\n'),
    ]
    for want, src in models:
        exc = None
        try:
            Program.from_source(src, libraries=EEMS_CSV_LIBRARIES, working_dir=tmp).run()
        except BaseException as e:      # noqa
            exc = e
        got = type(exc).__name__ if exc is not None else "no error"
        ctx.case("class " + want, sample={"class": want, "raised": got})
        ctx.count("error_class:%s" % want)
        desc = {"source": src, "raised": got, "expected_class": want}
        if exc is not None and not isinstance(exc, (MPilotError, SyntaxError)):
            ctx.fail("%s escaped from from_source()/run(): neither a syntax error nor an MPilot error (the model raises %s here)" % (got, want), desc)
            continue
        if got != want:
            ctx.disagree("error-class", desc, got, want)
        # the tool on the same file
        path = os.path.join(tmp, "e_model.mpt")
        open(path, "w").write(src)
        code, err, crash = clicorr._invoke(cli.main, ["eems-csv", path])
        desc2 = dict(desc, exit=code, stderr=err[-400:], escaped=crash)
        if exc is not None and isinstance(exc, MPilotError):
            if crash != "-":
                ctx.fail("the command-line tool died with %s on a model that fails with the MPilot error %s" % (crash, got), desc2)
            elif code == 0:
                ctx.fail("the command-line tool exited 0 although the model fails with %s" % got, desc2)
            elif str(exc) not in err:
                ctx.fail("the command-line tool did not print the problem/solution text of %s to standard error" % got, desc2)


def deep_models(ctx):
    """dependency chains deeper than the interpreter's recursion limit, written inputs-first, dependents-first and shuffled, as direct and as
    list references: whatever the outcome (the pinned code exhausts the stack while executing and wraps that), no RecursionError or other
    undeclared exception escapes - neither from validation nor from the cycle check nor from execution"""
    rng = ctx.rng
    limit = 400
    for order in ("inputs-first", "dependents-first", "shuffled"):
        for style in ("One", "Many"):
            for n in (150, 500):
                cmds = [("c0", "N", [])] + [("c%d" % i, "N", [(style, Name("c%d" % (i - 1)) if style == "One" else [Name("c%d" % (i - 1))])]) for i in range(1, n)]
                if order == "dependents-first":
                    cmds.reverse()
                elif order == "shuffled":
                    rng.shuffle(cmds)
                sc = Scenario(cmds, ops=[("run",), ("run",)], libs=c12.LIBS)
                res = progrun.run_impl(sc, recursion_limit=limit)
                outs = [res["load"]] + res["ops"]
                ctx.case("deep %s %s %d" % (order, style, n) + sc.source[:60], sample={"kind": "deep", "order": order, "n": n, "outcome": outs})
                ctx.count("deep_outcome:" + ":".join(outs[-1].split(":")[:2]))
                for o in outs:
                    if not boundary_ok(o):
                        ctx.fail("a chain of %d commands (%s, %s references) under recursion limit %d: %s escaped from from_source()/run()" % (n, order, style, limit, o),
                                 {"n": n, "order": order, "reference_style": style, "recursion_limit": limit, "source_head": sc.source[:300]})


def netcdf_faults(ctx, tmp):
    """data problems found by the NetCDF reader (missing variable, negative 'Positive' data, out-of-range 'Fuzzy' data, a file that is no
    NetCDF file), with the read as the only command, as a list item and as a direct input: only declared errors leave run()"""
    import numpy
    from mpilot.program import Program, EEMS_NETCDF_LIBRARIES
    from . import c18
    arr = numpy.ma.array(numpy.array([[-2.0, 0.5], [3.0, 1.0]]), mask=[[False, False], [True, False]])
    c18.make_var_file(os.path.join(tmp, "v.nc"), (2, 2), arr, fill=-9999.0)
    open(os.path.join(tmp, "notnc.nc"), "w").write("this is not a NetCDF file\n")
    reads = [('InFileName = "v.nc", InFieldName = nosuch', "NoSuchVariable"), ('InFileName = "v.nc", InFieldName = v, DataType = "Positive Float"', "InvalidPositiveData"),
             ('InFileName = "v.nc", InFieldName = v, DataType = "Positive Integer"', "InvalidPositiveData"), ('InFileName = "v.nc", InFieldName = v, DataType = Fuzzy', "InvalidFuzzyData"),
             ('InFileName = "notnc.nc", InFieldName = v', None), ('InFileName = "v.nc", InFieldName = v, MissingValue = 0.5', "ok")]
    uses = ["", "S = Sum(InFieldNames = [R, R])\n", "C = Copy(InFieldName = R)\n", "W = EEMSWrite(OutFileName = \"o.nc\", OutFieldNames = [R], DimensionFileName = \"v.nc\", DimensionFieldName = v)\n"]
    for args, want in reads:
        for use in uses:
            src = "R = EEMSRead(%s)\n%s" % (args, use)
            try:
                with numpy.errstate(all="ignore"):
                    p = Program.from_source(src, libraries=EEMS_NETCDF_LIBRARIES, working_dir=tmp)
                    p.run()
                out = "ok"
            except BaseException as e:
                out = progrun.classify(e)
                try:
                    str(e)
                except Exception as e2:
                    ctx.fail("NetCDF model: str() of the error raised %s" % type(e2).__name__, {"source": src})
            ctx.case("netcdf " + src, sample={"kind": "netcdf", "source": src, "outcome": out})
            ctx.count("netcdf_outcome:" + ":".join(out.split(":")[:2]))
            if not boundary_ok(out):
                ctx.fail("NetCDF model: %s escaped from from_source()/run()" % out, {"source": src})
            elif want not in (None, "ok") and not (out.startswith("mp:" + want) or (use.startswith("C =") and out.startswith("unexpected:"))) and out != "ok":
                # the declared error of the reader (a consumer that reads it through a single result parameter may see it wrapped)
                ctx.fail("NetCDF model: expected %s, got %s" % (want, out), {"source": src})


def strict_caller(ctx, tmp):
    """a caller who has turned warnings into errors (python -W error, PYTHONWARNINGS=error, a test runner): loading and running still ends in success,
    SyntaxError or an MPilot error - the same as without that setting; a warning is no declared error type"""
    import warnings
    from mpilot.program import Program
    with open(os.path.join(tmp, "sc.csv"), "w") as f:
        f.write("a,b,c\n1,0.5,-1\n2,0.25,0\n4,-0.5,1\n3,1,0\n")
    texts = [
        # EEMS 2.0 syntax, with the arguments that the conversion drops
        'READ(InFileName = "sc.csv", InFieldName = a, OutFileName = "o1.csv")\nCVTTOFUZZY(InFieldName = a, NewFieldName = fa, TrueThreshold = 4, FalseThreshold = 1, OutFileName = "o1.csv")\n',
        'READ(InFileName = "sc.csv", InFieldName = b)\nREAD(InFileName = "sc.csv", InFieldName = c)\nOR(InFieldNames = [b, c], NewFieldName = o, OutFileName = "o2.csv")\nNOT(InFieldName = o, NewFieldName = n)\n',
        'READ(InFileName = "sc.csv", InFieldName = a)\nREAD(InFileName = "sc.csv", InFieldName = b)\nSUM(InFieldNames = [a, b], NewFieldName = s)\nWTDSUM(InFieldNames = [a, b], Weights = [1, 2.5], NewFieldName = w, OutFileName = "o3.csv")\n',
        'READ(InFileName = "sc.csv", InFieldName = 2010)\n',
        'READ(InFileName = "sc.csv", InFieldName = 2010)\nREAD(InFileName = "sc.csv", InFieldName = a)\nREAD(InFileName = "sc.csv", InFieldName = 7.5)\n',
        'READ(InFileName = "sc.csv", InFieldName = a)\nMEANTOMID(InFieldName = a, NewFieldName = m, IgnoreZeros = False, FuzzyValues = [-1, -0.5, 0, 0.5, 1])\n',
        # MPilot syntax: every family of command, strings with unknown escapes, metadata
        'A = EEMSRead(InFileName = "sc.csv", InFieldName = a)\nB = EEMSRead(InFileName = "sc.csv", InFieldName = b, DataType = Float)\nS = Sum(InFieldNames = [A, B])\n'
        'M = Mean(InFieldNames = [A, B, S])\nD = ADividedByB(A = A, B = B)\nW = WeightedMean(InFieldNames = [A, B], Weights = [1, 3])\nX = Multiply(InFieldNames = [A, B])\n',
        'A = EEMSRead(InFileName = "sc.csv", InFieldName = a, Metadata = [Description: "C:\\path\\q", Color: red])\nN = Normalize(InFieldName = A)\nZ = NormalizeZScore(InFieldName = A)\n'
        'F = CvtToFuzzy(InFieldName = A)\nG = CvtToFuzzyZScore(InFieldName = A, TrueThresholdZScore = 1, FalseThresholdZScore = -1)\nC = CvtToFuzzyCurve(InFieldName = A, RawValues = [1, 2, 4], FuzzyValues = [-1, 0.5, 1])\n',
        'B = EEMSRead(InFileName = "sc.csv", InFieldName = b)\nC = EEMSRead(InFileName = "sc.csv", InFieldName = c)\nFB = CvtToFuzzy(InFieldName = B, TrueThreshold = 1, FalseThreshold = -1)\n'
        'FC = CvtToFuzzy(InFieldName = C, TrueThreshold = 1, FalseThreshold = -1)\nO = FuzzyOr(InFieldNames = [FB, FC])\nX = FuzzyXOr(InFieldNames = [FB, FC])\nU = FuzzyUnion(InFieldNames = [FB, FC])\n'
        'SU = FuzzySelectedUnion(InFieldNames = [FB, FC], TruestOrFalsest = Truest, NumberToConsider = 1)\nWU = FuzzyWeightedUnion(InFieldNames = [FB, FC], Weights = [2, 1])\nR = CvtFromFuzzy(InFieldName = O, TrueThreshold = 10, FalseThreshold = 0)\n'
        'Out = EEMSWrite(OutFileName = "o4.csv", OutFieldNames = [O, X, U])\nP = PrintVars(InFieldNames = [WU])\n',
        'A = EEMSRead(InFileName = "sc.csv", InFieldName = a)\nK = CvtToFuzzyCat(InFieldName = A, RawValues = [1, 2], FuzzyValues = [1, -1], DefaultFuzzyValue = 0)\nT = CvtToBinary(InFieldName = A, Threshold = 2, Direction = LowToHigh)\n'
        'Q = NormalizeMeanToMid(InFieldName = A, IgnoreZeros = True, NormalValues = [0, 1, 2, 3, 4])\nY = NormalizeCurveZScore(InFieldName = A, ZScoreValues = [-1, 0, 1], NormalValues = [0, 1, 2])\n',
        # faulty ones: the error classes must be the same too
        'A = EEMSRead(InFileName = "missing.csv", InFieldName = a)\n', 'A = EEMSRead(InFileName = "sc.csv", InFieldName = zz)\nS = Sum(InFieldNames = [A])\n',
        'A = EEMSRead(InFileName = "sc.csv", InFieldName = a)\nD = ADividedByB(A = A, B = A, Extra = 1)\n', 'A = Sum(InFieldNames = [])\n', 'A = B(', 'A = Sum(InFieldNames = "x\\q")\n',
    ]
    for src in texts:
        outs = []
        for strict in (False, True):
            try:
                with warnings.catch_warnings(), contextlib.redirect_stdout(io.StringIO()):
                    warnings.simplefilter("error" if strict else "ignore")
                    p = Program.from_source(src, working_dir=tmp)
                    p.run()
                out = "ok"
            except BaseException as e:
                out = progrun.classify(e)
            outs.append(out)
        ctx.case("strict-caller " + src, sample={"source": src[:200], "default": outs[0], "warnings_as_errors": outs[1]})
        ctx.count("strict_caller_outcome:" + ":".join(outs[1].split(":")[:2]))
        if not boundary_ok(outs[1]):
            ctx.fail("with warnings turned into errors by the caller, %s escaped from from_source()/run()" % outs[1], {"source": src, "default_outcome": outs[0]})
        elif outs[0].split(":")[:2] != outs[1].split(":")[:2]:
            ctx.fail("with warnings turned into errors by the caller the model ends with %s instead of %s" % (outs[1], outs[0]), {"source": src})


def run(ctx):
    ctx.check_proofs(["MPilot.Props.C13", "MPilot.Props.C13Cli", "MPilot.Props.C13Err", "MPilot.Props.C13Run"])
    model = common.Model()
    rng = ctx.rng
    tmp = common.tmpdir("mpv_c13_")
    open(os.path.join(tmp, "in.csv"), "w").write("a,b\n1,2\n3,4\n")
    env = {"in": "in.csv"}
    exist = [os.path.join(tmp, "in.csv")]
    base, classes = progrun.library_classes(c12.LIBS)
    classes = sorted(classes, key=lambda c: c.name)
    scs = kind_matrix(ctx, classes, env, tmp)
    answers = model.ask([sc.protocol(classes) for sc, _ in scs])
    for (sc, tag), ans in zip(scs, answers):
        res = progrun.run_impl(sc)
        outs = [res["load"]] + res["ops"]
        ctx.case(sc.source + repr(sc.ops), sample={"kind": tag, "source": sc.source[-300:], "impl": progrun.impl_text(res)[:160], "model": ans[:160]})
        ctx.count("matrix_outcome:" + ":".join(outs[-1].split(":")[:2]))
        if "raw:OutsideModel" in ans:
            ctx.count("outside_model_domain")
        else:
            d = progrun.compare(res, ans)
            if d:
                ctx.disagree("boundary:" + tag, sc.describe(), d[0][:400], d[1][:400])
        for o in outs:
            if not boundary_ok(o):
                ctx.fail("%s: %s escaped from from_source()/run()" % (tag, o), sc.describe())
        for s in res["str_errors"]:
            ctx.fail("%s: %s" % (tag, s), sc.describe())
    # corrupted command files (parser boundary)
    from mpilot.program import Program
    n_corrupt = ctx.budget(150, 6000)
    for i in range(n_corrupt):
        sc = scs[rng.randrange(len(scs))][0]
        src = corrupt(rng, sc.source)
        try:
            with progrun.stubbed(classes, progrun.Recorder()):
                p = Program.from_source(src, libraries=c12.LIBS, working_dir=tmp)
                p.run()
            out = "ok"
        except BaseException as e:
            out = progrun.classify(e)
        ctx.case("corrupt " + src, sample=None)
        ctx.count("corrupt_outcome:" + out.split(":")[0])
        if not boundary_ok(out):
            ctx.fail("corrupted command file: %s escaped" % out, {"source": src})
    # texts at the edge of the grammar: repeated tuple keys (the later pair wins), empty tuples/lists, a tuple where a list is expected
    for src in ('A = N(Metadata = [k: 1, k: 2])\n', 'A = N(Metadata = [k: 1, k: 2])\nB = N(One = A)\n', 'B = N()\nA = N(Metadata = [k: a, j: b, k: c], One = B)\nC = N(One = A)\n',
                'A = N(Metadata = [])\n', 'A = N(Many = [k: 1])\n', 'A = N(Metadata = [k: [1, 2]])\n', 'A = N(Metadata = [k: 1,])\n'):
        try:
            with progrun.stubbed(classes, progrun.Recorder()):
                p = Program.from_source(src, libraries=c12.LIBS, working_dir=tmp)
                p.run()
                n_cmds = len(p.commands)
            out = "ok"
        except BaseException as e:
            out = progrun.classify(e)
            n_cmds = None
        ctx.case("edge " + src, sample=None)
        ctx.count("edge_text_outcome:" + out.split(":")[0])
        if not boundary_ok(out):
            ctx.fail("command file at the edge of the grammar: %s escaped" % out, {"source": src})
        elif out == "ok" and n_cmds != src.count(" = N("):
            ctx.fail("command file at the edge of the grammar: %d of its %d commands were loaded" % (n_cmds, src.count(" = N(")), {"source": src})
    deep_models(ctx)
    netcdf_faults(ctx, tmp)
    csv_faults(ctx, tmp)
    strict_caller(ctx, tmp)
    cli(ctx, tmp, 12 if ctx.thorough else 9)
    every_error_class(ctx, tmp)
    clicorr.formatting(ctx, model, ctx.budget(60, 3000))         # the tool's reporting against Model/Cli (Props/C13Cli.lean)
    return ctx.finish(
        rule="(a) every command x parameter x raw kinds (numbers, booleans, strings incl. non-ASCII/backslash/quote, names of results of every kind, "
             "unknown names, lists, nested lists, dicts) and failing bodies, through from_source()/run()/result; (b) single-token corruptions of those "
             "files; (c) 20 CSV fault files x 3 columns x 5 read options through the real EEMSRead/Sum/EEMSWrite bodies; (d) the CLI in a subprocess; "
             "distinct by source text",
        explanation="theorems in Props/C13.lean (everything leaving Command.run is an MPilotError; the model's load/pre-pass raise only MPilotErrors) hold for "
                    "the model; any exception class at the API boundary that the model does not predict is a disagreement, and any class other than "
                    "SyntaxError/MPilotError is reported by the boundary oracle with the file as replay")


def replay(path):
    import json
    print(json.dumps(json.load(open(path)), indent=1)[:6000])
    return 0
