"""C14 — cyclic models are rejected, never silently skipped.

proof:          lean/MPilot/Props/C14.lean
correspondence: every directed graph with a cycle on up to 3 commands (thorough: 4) in every textual order, sampled graphs on 4-5 commands,
                references through direct parameters and lists; real Program.run (interpreter recursion limit lowered) vs model
oracles:        run() raises RecursiveModelStructure; nothing executed; acyclic graphs (incl. diamonds, forward references, names that are
                substrings of one another) are not rejected; a cycle added through the API after a successful run is rejected too
"""
import itertools

from .. import common, prog, progrun, graphs
from ..progrun import Scenario, Name
from .c01 import decl_classes


def graph_commands(rng, n, edges, style):
    cmds = []
    for i in range(n):
        deps = ["c%d" % j for j in range(n) if (i, j) in edges]
        cmds.append(graphs.make_command(rng, "c%d" % i, "N", deps, style=style))
    return cmds


def has_cycle(n, edges):
    color = {}

    def dfs(u):
        color[u] = 1
        for (a, b) in edges:
            if a == u:
                if color.get(b) == 1 or (b not in color and dfs(b)):
                    return True
        color[u] = 2
        return False
    return any(u not in color and dfs(u) for u in range(n))


def all_graphs(n):
    pairs = [(i, j) for i in range(n) for j in range(n)]
    for k in range(1, len(pairs) + 1):
        for es in itertools.combinations(pairs, k):
            yield set(es)


def scenarios(ctx):
    rng = ctx.rng
    cyc, acy = [], []
    max_exh = 3 if not ctx.thorough else 4
    for n in range(1, max_exh + 1):
        gs = list(all_graphs(n))
        if n == 3 and not ctx.thorough:
            gs = rng.sample(gs, 60)
        if n == 4:
            gs = rng.sample(gs, 1500)
        for es in gs:
            style = rng.choice(["direct", "list", "mixed", "nested"])
            cmds = graph_commands(rng, n, es, style)
            perms = list(itertools.permutations(cmds))
            if len(perms) > 6:
                perms = rng.sample(perms, 6 if ctx.thorough else 2)
            elif not ctx.thorough and len(perms) > 2:
                perms = rng.sample(perms, 2)
            for p in perms:
                (cyc if has_cycle(n, es) else acy).append(Scenario(list(p)))
    for _ in range(ctx.budget(25, 1500)):
        n = rng.choice([4, 5, 5, 6])
        es = set()
        for _ in range(rng.randrange(n - 1, 2 * n)):
            es.add((rng.randrange(n), rng.randrange(n)))
        style = rng.choice(["direct", "list", "mixed", "nested"])
        cmds = graph_commands(rng, n, es, style)
        # separate acyclic component / tail
        if rng.random() < 0.5:
            cmds.append(graphs.make_command(rng, "t0", "N", []))
            cmds.append(graphs.make_command(rng, "t1", "N", ["t0"] + (["c0"] if rng.random() < 0.5 else [])))
        sc = Scenario(graphs.shuffled(rng, cmds))
        (cyc if has_cycle(n, es) else acy).append(sc)
    return cyc, acy


HASH_SCRIPT = '''
import json, itertools
from mpilot.program import Program
from mpilot.commands import Command
from mpilot import params
from mpilot.exceptions import MPilotError


class N(Command):
    inputs = {"One": params.ResultParameter(required=False), "Many": params.ListParameter(params.ResultParameter(), required=False)}

    def execute(self, **kw):
        for v in kw.values():
            for c in (v if isinstance(v, list) else [v]):
                c.result
        return 1

MODELS = [
    ["X = N(One = A)", "A = N(One = B)", "B = N(One = A)", "Y = N(One = X)"],
    ["T = N(Many = [A, Q])", "Q = N()", "A = N(One = B)", "B = N(One = C)", "C = N(Many = [Q, A])", "U = N(One = T)"],
    ["Lead = N(One = Self)", "Self = N(One = Self)", "Top = N(Many = [Lead, Other])", "Other = N()"],
    ["P = N(One = Q)", "Q = N(One = R)", "R = N(Many = [S, P])", "S = N()", "W = N(One = P)", "V = N(Many = [W, S])"],
]
out = []
for lines in MODELS:
    for perm in list(itertools.permutations(lines))[:24]:
        src = chr(10).join(perm) + chr(10)
        try:
            Program.from_source(src, libraries=("__main__",)).run()
            out.append([src, "ok"])
        except MPilotError as e:
            out.append([src, type(e).__name__])
        except BaseException as e:
            out.append([src, "raw " + type(e).__name__])
print(json.dumps(out))
'''


def hash_seeds(ctx):
    """small cyclic models - a loop with commands outside it that lead into it and are themselves referenced - in 24 file orders each, under eight hash seeds
    (fresh interpreters): rejected with the recursive-model error every time, whatever order a set of names is walked in"""
    for sd, val, err in common.hash_sweep(HASH_SCRIPT):
        ctx.count("hash_seed_runs")
        ctx.case("hash-seed %d" % sd, sample=None)
        if val is None:
            ctx.fail("running cyclic models under PYTHONHASHSEED=%d crashed: %s" % (sd, err[-200:]), {"hash_seed": sd})
            continue
        bad = [x for x in val if x[1] != "RecursiveModelStructure"]
        ctx.count("hash_seed_cyclic_models", len(val))
        if bad:
            ctx.fail("under PYTHONHASHSEED=%d a cyclic model ends with %s instead of the recursive-model error (%d of %d models / orders)" % (sd, bad[0][1], len(bad), len(val)),
                     {"hash_seed": sd, "source": bad[0][0]})


def run(ctx):
    ctx.check_proofs(["MPilot.Props.C14"])
    hash_seeds(ctx)
    model = common.Model()
    cyc, acy = scenarios(ctx)
    classes = decl_classes()
    scs = cyc + acy
    answers = model.ask([sc.protocol(classes) for sc in scs])
    for i, (sc, ans) in enumerate(zip(scs, answers)):
        cyclic = i < len(cyc)
        res = progrun.run_impl(sc, recursion_limit=600)
        ctx.case(sc.source, sample={"source": sc.source[:500], "cyclic": cyclic, "impl": progrun.impl_text(res)[:200], "model": ans[:200]})
        ctx.count("cyclic" if cyclic else "acyclic")
        ctx.count("n_commands:%d" % len(sc.commands))
        d = progrun.compare(res, ans)
        if d:
            ctx.disagree("run:cycles", sc.describe(), d[0][:500], d[1][:500])
        if cyclic:
            if res["load"] != "ok":
                continue
            o = res["ops"][0]
            if not o.startswith("mp:RecursiveModelStructure"):
                ctx.fail("cyclic model: run() %s (executed %r) instead of raising RecursiveModelStructure" % (
                    "returned normally" if o == "ok" else "raised " + o, [e[1:] for e in res["log"] if e[0] == "+"]), sc.describe())
            elif res["log"]:
                ctx.fail("cyclic model rejected only after executing %r" % res["log"], sc.describe())
        else:
            if res["load"] != "ok" or res["ops"][0] != "ok":
                ctx.fail("acyclic model rejected: %s %s" % (res["load"], res["ops"]), sc.describe())
    eems_cycles(ctx, model)
    api_extension(ctx)
    api_histories(ctx)
    return ctx.finish(
        rule="scenarios = (digraph on 1..3 commands enumerated completely [thorough: 4 sampled 1500], random digraphs on 4-6 commands with optional "
             "acyclic tails/components; edges realised as direct, list, nested-list or mixed references; 2-6 textual orders each); "
             "cyclic ones must be rejected before anything runs, acyclic ones must run; distinct by source text",
        explanation="theorems in Props/C14.lean (the cycle check is sound and complete for the model's reference graph and precedes execution) hold for "
                    "the model; real Program.run is compared with the model on every scenario under a lowered recursion limit; rejection/no-execution "
                    "oracles run on the implementation")


def eems_cycles(ctx, model):
    """cycles made of the built-in EEMS commands (well-typed rings of Copy, Normalize, FuzzyNot, CvtToFuzzy/CvtFromFuzzy), with and without
    consumers outside the ring, next to a valid reader: rejected with RecursiveModelStructure before anything runs"""
    import os
    rng = ctx.rng
    tmp = common.tmpdir("mpv_c14_")
    open(os.path.join(tmp, "in.csv"), "w").write("a,b\n1,2\n3,4\n")
    libs = progrun.EEMS_LIBS
    base, classes = progrun.library_classes(libs)
    classes = sorted(classes, key=lambda c: c.name)
    scs = []
    for _ in range(ctx.budget(30, 800)):
        k = rng.choice([1, 2, 2, 3, 4])
        ring_kind = rng.choice(["Copy", "Copy", "Normalize", "FuzzyNot", "Cvt"])
        if ring_kind == "Cvt" and k % 2:
            k += 1
        names = ["m%d" % i for i in range(k)]
        cmds = [("Rd", "EEMSRead", [("InFileName", "in.csv"), ("InFieldName", "a")])]
        fuzzy = []
        for i, nm in enumerate(names):
            src = Name(names[(i + 1) % k])
            if ring_kind == "Cvt":
                if i % 2 == 0:
                    cmds.append((nm, "CvtToFuzzy", [("InFieldName", src)])); fuzzy.append(True)
                else:
                    cmds.append((nm, "CvtFromFuzzy", [("InFieldName", src), ("TrueThreshold", 1), ("FalseThreshold", 0)])); fuzzy.append(False)
            else:
                cmds.append((nm, ring_kind, [("InFieldName", src)])); fuzzy.append(ring_kind == "FuzzyNot")
        for j in range(rng.randrange(0, 3)):
            i = rng.randrange(k)
            m = Name(names[i])
            if fuzzy[i]:
                cons = rng.choice([("FuzzyOr", [("InFieldNames", [m, m])]), ("FuzzyNot", [("InFieldName", m)]), ("Copy", [("InFieldName", m)])])
            elif ring_kind == "Copy":
                # a Copy's fuzziness is not declared: it may feed fuzzy-free inputs
                cons = rng.choice([("Sum", [("InFieldNames", [m, Name("Rd")])]), ("AMinusB", [("A", m), ("B", Name("Rd"))]), ("CvtToFuzzy", [("InFieldName", m)]),
                                   ("Copy", [("InFieldName", m)]), ("EEMSWrite", [("OutFileName", "o.csv"), ("OutFieldNames", [m])])])
            else:
                cons = rng.choice([("Sum", [("InFieldNames", [m, Name("Rd")])]), ("Copy", [("InFieldName", m)]), ("Normalize", [("InFieldName", m)])])
            cmds.append(("t%d" % j, cons[0], cons[1]))
        scs.append(Scenario(graphs.shuffled(rng, cmds), wd=tmp, libs=libs))
    # loops that close through the second-written field of a two-field command, through a list that another command lists too, next to an unrelated
    # component that has leaves - in every order of the commands
    import itertools
    rd = ("Rd", "EEMSRead", [("InFileName", "in.csv"), ("InFieldName", "a")])
    rd2 = ("Rd2", "EEMSRead", [("InFileName", "in.csv"), ("InFieldName", "b")])
    directed = [
        [rd, ("X", "AMinusB", [("A", Name("Rd")), ("B", Name("X"))])],
        [rd, ("X", "AMinusB", [("B", Name("X")), ("A", Name("Rd"))])],
        [rd, ("X", "ADividedByB", [("A", Name("Rd")), ("B", Name("Y"))]), ("Y", "Copy", [("InFieldName", Name("X"))])],
        [rd, ("X", "ADividedByB", [("A", Name("Y")), ("B", Name("Rd"))]), ("Y", "Copy", [("InFieldName", Name("X"))])],
        [rd, ("T", "Sum", [("InFieldNames", [Name("Rd"), Name("X")])]), ("X", "Sum", [("InFieldNames", [Name("Y"), Name("Rd")])]), ("Y", "Sum", [("InFieldNames", [Name("X")])])],
        [rd, ("T", "Maximum", [("InFieldNames", [Name("X"), Name("Rd")])]), ("X", "Sum", [("InFieldNames", [Name("Rd"), Name("X")])])],
        [rd, rd2, ("U", "Sum", [("InFieldNames", [Name("Rd"), Name("Rd2")])]), ("X", "Copy", [("InFieldName", Name("Y"))]), ("Y", "Copy", [("InFieldName", Name("X"))])],
        [rd, ("U", "Copy", [("InFieldName", Name("Rd"))]), ("X", "Normalize", [("InFieldName", Name("X"))])],
    ]
    for cmds in directed:
        for perm in itertools.permutations(cmds):
            scs.append(Scenario(list(perm), wd=tmp, libs=libs))
    for sc, ans in zip(scs, model.ask([sc.protocol(classes) for sc in scs])):
        res = progrun.run_impl(sc, recursion_limit=600)
        ctx.case(sc.source, sample={"source": sc.source[:400], "cyclic": True, "impl": progrun.impl_text(res)[:200], "model": ans[:200]})
        ctx.count("eems_cycles")
        d = progrun.compare(res, ans)
        if d:
            ctx.disagree("run:eems-cycles", sc.describe(), d[0][:500], d[1][:500])
        o = res["load"] if res["load"] != "ok" else res["ops"][0]
        if not o.startswith("mp:RecursiveModelStructure"):
            ctx.fail("cyclic model of built-in commands: run() %s (executed %r) instead of raising RecursiveModelStructure" % (
                "returned normally" if o == "ok" else "raised " + o, [e[1:] for e in res["log"] if e[0] == "+"]), sc.describe())
        elif res["log"] or os.path.exists(os.path.join(tmp, "o.csv")):
            ctx.fail("cyclic model of built-in commands rejected only after executing %r" % res["log"], sc.describe())


def api_extension(ctx):
    """a cycle added through add_command after a successful run must be rejected by the next run"""
    from mpilot.program import Program
    from mpilot.exceptions import RecursiveModelStructure
    import sys
    m = prog.testlib()
    rec = progrun.Recorder()
    for style in ("One", "Many"):
        with progrun.stubbed([m.N], rec):
            p = Program.from_source("a = N()\nb = N(One = a)\n", libraries=(prog.TESTLIB,))
            p.run()
            mk = (lambda n: n) if style == "One" else (lambda n: [n])
            p.add_command(m.N, "x", {style: mk("y")})
            p.add_command(m.N, "y", {style: mk("x")})
            old = sys.getrecursionlimit(); sys.setrecursionlimit(600)
            try:
                p.run()
                out = "returned normally (finished: %r)" % [n for n, c in p.commands.items() if c.is_finished]
            except RecursiveModelStructure:
                out = None
            except BaseException as e:
                out = "raised " + progrun.classify(e)
            finally:
                sys.setrecursionlimit(old)
        ctx.case("api-extension " + style, sample=None)
        ctx.count("api_extension_cases")
        if out:
            ctx.fail("cycle x<->y added via add_command (%s) after a successful run: run() %s" % (style, out), {"style": style})


def api_histories(ctx):
    """cycles that come into being through the programming interface: result names that are no identifiers (quoted EEMS 2.0 field names,
    add_command), and a finished model edited so that its source command now reads from the end of the chain"""
    from collections import OrderedDict
    from mpilot.program import Program
    from mpilot.exceptions import RecursiveModelStructure
    import sys
    m = prog.testlib()
    rng = ctx.rng

    def outcome(p):
        old = sys.getrecursionlimit(); sys.setrecursionlimit(600)
        try:
            p.run()
            return "returned normally (finished: %r)" % [n for n, c in p.commands.items() if c.is_finished]
        except RecursiveModelStructure:
            return None
        except BaseException as e:
            return "raised " + progrun.classify(e)
        finally:
            sys.setrecursionlimit(old)
    rec = progrun.Recorder()
    for names in (["x-1", "y z"], ["Slope-Fz", "b.c", "é"], ["a/b", "a/b/c"], ["1st", "2nd", "3rd", "4th"]):
        for style in ("One", "Many"):
            with progrun.stubbed([m.N], rec):
                p = Program(libraries=(prog.TESTLIB,))
                k = len(names)
                for i, nme in enumerate(names):
                    ref = names[(i + 1) % k]
                    p.add_command(m.N, nme, OrderedDict([(style, ref if style == "One" else [ref])]))
                p.add_command(m.N, "tail", OrderedDict([("One", names[0])]))
                out = outcome(p)
            ctx.case("api-names %r %s" % (names, style), sample=None)
            ctx.count("api_history_cases")
            if out:
                ctx.fail("cycle over the result names %r (%s references, built with add_command): run() %s" % (names, style, out), {"names": names, "style": style})
    for first in ("run", "result", "none"):
        for style in ("One", "Many"):
            with progrun.stubbed([m.N], rec):
                p = Program.from_source("a = N()\nb = N(One = a)\nc = N(Many = [b, a])\n", libraries=(prog.TESTLIB,))
                if first == "run":
                    p.run()
                elif first == "result":
                    p.commands["c"].result
                del p.commands["a"]
                p.add_command(m.N, "a", OrderedDict([(style, "c" if style == "One" else ["c"])]))
                out = outcome(p)
            ctx.case("api-edit %s %s" % (first, style), sample=None)
            ctx.count("api_history_cases")
            if out:
                ctx.fail("a model evaluated by %s and then edited so that its source reads from the end of the chain (%s reference): run() %s" % (
                    first, style, out), {"history": first, "style": style})


def replay(path):
    import json
    print(json.dumps(json.load(open(path)), indent=1)[:6000])
    return 0
