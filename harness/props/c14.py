"""C14 — cyclic models are rejected, never silently skipped.

proof:          lean/MPilot/Props/C14.lean
correspondence: every directed graph with a cycle on up to 3 commands (thorough: 4) in every textual order, sampled graphs on 4-5 commands,
                references through direct parameters and lists; real Program.run (interpreter recursion limit lowered) vs model
oracles:        run() raises RecursiveModelStructure; nothing executed; acyclic graphs (incl. diamonds, forward references, names that are
                substrings of one another) are not rejected; a cycle added through the API after a successful run is rejected too;
                rings and chains leading into a ring of thousands of commands (longer than the interpreter's stack is deep) are rejected, not
                answered with RecursionError; loops whose edges run through parameter types of a plug-in library (cleaned values that are lists /
                tuples holding the referenced commands) are rejected like loops through the built-in parameter types
"""
import itertools
import os
import sys

from .. import common, prog, progrun, graphs
from ..progrun import Scenario, Name
from .c01 import decl_classes


def graph_commands(rng, n, edges, style):
    cmds = []
    for i in range(n):
        deps = ["c%d" % j for j in range(n) if (i, j) in edges]
        cmds.append(graphs.make_command(rng, "c%d" % i, "N", deps, style=style))
    return cmds


def has_cycle(n, edges):
    color = {}

    def dfs(u):
        color[u] = 1
        for (a, b) in edges:
            if a == u:
                if color.get(b) == 1 or (b not in color and dfs(b)):
                    return True
        color[u] = 2
        return False
    return any(u not in color and dfs(u) for u in range(n))


def all_graphs(n):
    pairs = [(i, j) for i in range(n) for j in range(n)]
    for k in range(1, len(pairs) + 1):
        for es in itertools.combinations(pairs, k):
            yield set(es)


def scenarios(ctx):
    rng = ctx.rng
    cyc, acy = [], []
    max_exh = 3 if not ctx.thorough else 4
    for n in range(1, max_exh + 1):
        gs = list(all_graphs(n))
        if n == 3 and not ctx.thorough:
            gs = rng.sample(gs, 60)
        if n == 4:
            gs = rng.sample(gs, 1500)
        for es in gs:
            style = rng.choice(["direct", "list", "mixed", "nested"])
            cmds = graph_commands(rng, n, es, style)
            perms = list(itertools.permutations(cmds))
            if len(perms) > 6:
                perms = rng.sample(perms, 6 if ctx.thorough else 2)
            elif not ctx.thorough and len(perms) > 2:
                perms = rng.sample(perms, 2)
            for p in perms:
                (cyc if has_cycle(n, es) else acy).append(Scenario(list(p)))
    for _ in range(ctx.budget(25, 1500)):
        n = rng.choice([4, 5, 5, 6])
        es = set()
        for _ in range(rng.randrange(n - 1, 2 * n)):
            es.add((rng.randrange(n), rng.randrange(n)))
        style = rng.choice(["direct", "list", "mixed", "nested"])
        cmds = graph_commands(rng, n, es, style)
        # separate acyclic component / tail
        if rng.random() < 0.5:
            cmds.append(graphs.make_command(rng, "t0", "N", []))
            cmds.append(graphs.make_command(rng, "t1", "N", ["t0"] + (["c0"] if rng.random() < 0.5 else [])))
        sc = Scenario(graphs.shuffled(rng, cmds))
        (cyc if has_cycle(n, es) else acy).append(sc)
    return cyc, acy


HASH_SCRIPT = '''
import json, itertools
from mpilot.program import Program
from mpilot.commands import Command
from mpilot import params
from mpilot.exceptions import MPilotError


class N(Command):
    inputs = {"One": params.ResultParameter(required=False), "Many": params.ListParameter(params.ResultParameter(), required=False)}

    def execute(self, **kw):
        for v in kw.values():
            for c in (v if isinstance(v, list) else [v]):
                c.result
        return 1

MODELS = [
    ["X = N(One = A)", "A = N(One = B)", "B = N(One = A)", "Y = N(One = X)"],
    ["T = N(Many = [A, Q])", "Q = N()", "A = N(One = B)", "B = N(One = C)", "C = N(Many = [Q, A])", "U = N(One = T)"],
    ["Lead = N(One = Self)", "Self = N(One = Self)", "Top = N(Many = [Lead, Other])", "Other = N()"],
    ["P = N(One = Q)", "Q = N(One = R)", "R = N(Many = [S, P])", "S = N()", "W = N(One = P)", "V = N(Many = [W, S])"],
]
out = []
for lines in MODELS:
    for perm in list(itertools.permutations(lines))[:24]:
        src = chr(10).join(perm) + chr(10)
        try:
            Program.from_source(src, libraries=("__main__",)).run()
            out.append([src, "ok"])
        except MPilotError as e:
            out.append([src, type(e).__name__])
        except BaseException as e:
            out.append([src, "raw " + type(e).__name__])
print(json.dumps(out))
'''


def hash_seeds(ctx):
    """small cyclic models - a loop with commands outside it that lead into it and are themselves referenced - in 24 file orders each, under eight hash seeds
    (fresh interpreters): rejected with the recursive-model error every time, whatever order a set of names is walked in"""
    for sd, val, err in common.hash_sweep(HASH_SCRIPT):
        ctx.count("hash_seed_runs")
        ctx.case("hash-seed %d" % sd, sample=None)
        if val is None:
            ctx.fail("running cyclic models under PYTHONHASHSEED=%d crashed: %s" % (sd, err[-200:]), {"hash_seed": sd})
            continue
        bad = [x for x in val if x[1] != "RecursiveModelStructure"]
        ctx.count("hash_seed_cyclic_models", len(val))
        if bad:
            ctx.fail("under PYTHONHASHSEED=%d a cyclic model ends with %s instead of the recursive-model error (%d of %d models / orders)" % (sd, bad[0][1], len(bad), len(val)),
                     {"hash_seed": sd, "source": bad[0][0]})


def run(ctx):
    ctx.check_proofs(["MPilot.Props.C14", "MPilot.Props.C14Cycle"])
    hash_seeds(ctx)
    model = common.Model()
    cyc, acy = scenarios(ctx)
    classes = decl_classes()
    scs = cyc + acy
    answers = model.ask([sc.protocol(classes) for sc in scs])
    for i, (sc, ans) in enumerate(zip(scs, answers)):
        cyclic = i < len(cyc)
        res = progrun.run_impl(sc, recursion_limit=600)
        ctx.case(sc.source, sample={"source": sc.source[:500], "cyclic": cyclic, "impl": progrun.impl_text(res)[:200], "model": ans[:200]})
        ctx.count("cyclic" if cyclic else "acyclic")
        ctx.count("n_commands:%d" % len(sc.commands))
        d = progrun.compare(res, ans)
        if d:
            ctx.disagree("run:cycles", sc.describe(), d[0][:500], d[1][:500])
        if cyclic:
            if res["load"] != "ok":
                continue
            o = res["ops"][0]
            if not o.startswith("mp:RecursiveModelStructure"):
                ctx.fail("cyclic model: run() %s (executed %r) instead of raising RecursiveModelStructure" % (
                    "returned normally" if o == "ok" else "raised " + o, [e[1:] for e in res["log"] if e[0] == "+"]), sc.describe())
            elif res["log"]:
                ctx.fail("cyclic model rejected only after executing %r" % res["log"], sc.describe())
        else:
            if res["load"] != "ok" or res["ops"][0] != "ok":
                ctx.fail("acyclic model rejected: %s %s" % (res["load"], res["ops"]), sc.describe())
    eems_cycles(ctx, model)
    api_extension(ctx)
    api_histories(ctx)
    long_cycles(ctx)
    plugin_parameter_cycles(ctx)
    copied_programs(ctx)
    return ctx.finish(
        rule="scenarios = (digraph on 1..3 commands enumerated completely [thorough: 4 sampled 1500], random digraphs on 4-6 commands with optional "
             "acyclic tails/components; edges realised as direct, list, nested-list or mixed references; 2-6 textual orders each); "
             "cyclic ones must be rejected before anything runs, acyclic ones must run; distinct by source text",
        explanation="theorems in Props/C14.lean (the cycle check is sound and complete for the model's reference graph and precedes execution) hold for "
                    "the model; real Program.run is compared with the model on every scenario under a lowered recursion limit; rejection/no-execution "
                    "oracles run on the implementation")


def eems_cycles(ctx, model):
    """cycles made of the built-in EEMS commands (well-typed rings of Copy, Normalize, FuzzyNot, CvtToFuzzy/CvtFromFuzzy), with and without
    consumers outside the ring, next to a valid reader: rejected with RecursiveModelStructure before anything runs"""
    import os
    rng = ctx.rng
    tmp = common.tmpdir("mpv_c14_")
    open(os.path.join(tmp, "in.csv"), "w").write("a,b\n1,2\n3,4\n")
    libs = progrun.EEMS_LIBS
    base, classes = progrun.library_classes(libs)
    classes = sorted(classes, key=lambda c: c.name)
    scs = []
    for _ in range(ctx.budget(30, 800)):
        k = rng.choice([1, 2, 2, 3, 4])
        ring_kind = rng.choice(["Copy", "Copy", "Normalize", "FuzzyNot", "Cvt"])
        if ring_kind == "Cvt" and k % 2:
            k += 1
        names = ["m%d" % i for i in range(k)]
        cmds = [("Rd", "EEMSRead", [("InFileName", "in.csv"), ("InFieldName", "a")])]
        fuzzy = []
        for i, nm in enumerate(names):
            src = Name(names[(i + 1) % k])
            if ring_kind == "Cvt":
                if i % 2 == 0:
                    cmds.append((nm, "CvtToFuzzy", [("InFieldName", src)])); fuzzy.append(True)
                else:
                    cmds.append((nm, "CvtFromFuzzy", [("InFieldName", src), ("TrueThreshold", 1), ("FalseThreshold", 0)])); fuzzy.append(False)
            else:
                cmds.append((nm, ring_kind, [("InFieldName", src)])); fuzzy.append(ring_kind == "FuzzyNot")
        for j in range(rng.randrange(0, 3)):
            i = rng.randrange(k)
            m = Name(names[i])
            if fuzzy[i]:
                cons = rng.choice([("FuzzyOr", [("InFieldNames", [m, m])]), ("FuzzyNot", [("InFieldName", m)]), ("Copy", [("InFieldName", m)])])
            elif ring_kind == "Copy":
                # a Copy's fuzziness is not declared: it may feed fuzzy-free inputs
                cons = rng.choice([("Sum", [("InFieldNames", [m, Name("Rd")])]), ("AMinusB", [("A", m), ("B", Name("Rd"))]), ("CvtToFuzzy", [("InFieldName", m)]),
                                   ("Copy", [("InFieldName", m)]), ("EEMSWrite", [("OutFileName", "o.csv"), ("OutFieldNames", [m])])])
            else:
                cons = rng.choice([("Sum", [("InFieldNames", [m, Name("Rd")])]), ("Copy", [("InFieldName", m)]), ("Normalize", [("InFieldName", m)])])
            cmds.append(("t%d" % j, cons[0], cons[1]))
        scs.append(Scenario(graphs.shuffled(rng, cmds), wd=tmp, libs=libs))
    # loops that close through the second-written field of a two-field command, through a list that another command lists too, next to an unrelated
    # component that has leaves - in every order of the commands
    import itertools
    rd = ("Rd", "EEMSRead", [("InFileName", "in.csv"), ("InFieldName", "a")])
    rd2 = ("Rd2", "EEMSRead", [("InFileName", "in.csv"), ("InFieldName", "b")])
    directed = [
        [rd, ("X", "AMinusB", [("A", Name("Rd")), ("B", Name("X"))])],
        [rd, ("X", "AMinusB", [("B", Name("X")), ("A", Name("Rd"))])],
        [rd, ("X", "ADividedByB", [("A", Name("Rd")), ("B", Name("Y"))]), ("Y", "Copy", [("InFieldName", Name("X"))])],
        [rd, ("X", "ADividedByB", [("A", Name("Y")), ("B", Name("Rd"))]), ("Y", "Copy", [("InFieldName", Name("X"))])],
        [rd, ("T", "Sum", [("InFieldNames", [Name("Rd"), Name("X")])]), ("X", "Sum", [("InFieldNames", [Name("Y"), Name("Rd")])]), ("Y", "Sum", [("InFieldNames", [Name("X")])])],
        [rd, ("T", "Maximum", [("InFieldNames", [Name("X"), Name("Rd")])]), ("X", "Sum", [("InFieldNames", [Name("Rd"), Name("X")])])],
        [rd, rd2, ("U", "Sum", [("InFieldNames", [Name("Rd"), Name("Rd2")])]), ("X", "Copy", [("InFieldName", Name("Y"))]), ("Y", "Copy", [("InFieldName", Name("X"))])],
        [rd, ("U", "Copy", [("InFieldName", Name("Rd"))]), ("X", "Normalize", [("InFieldName", Name("X"))])],
    ]
    for cmds in directed:
        for perm in itertools.permutations(cmds):
            scs.append(Scenario(list(perm), wd=tmp, libs=libs))
    for sc, ans in zip(scs, model.ask([sc.protocol(classes) for sc in scs])):
        res = progrun.run_impl(sc, recursion_limit=600)
        ctx.case(sc.source, sample={"source": sc.source[:400], "cyclic": True, "impl": progrun.impl_text(res)[:200], "model": ans[:200]})
        ctx.count("eems_cycles")
        d = progrun.compare(res, ans)
        if d:
            ctx.disagree("run:eems-cycles", sc.describe(), d[0][:500], d[1][:500])
        o = res["load"] if res["load"] != "ok" else res["ops"][0]
        if not o.startswith("mp:RecursiveModelStructure"):
            ctx.fail("cyclic model of built-in commands: run() %s (executed %r) instead of raising RecursiveModelStructure" % (
                "returned normally" if o == "ok" else "raised " + o, [e[1:] for e in res["log"] if e[0] == "+"]), sc.describe())
        elif res["log"] or os.path.exists(os.path.join(tmp, "o.csv")):
            ctx.fail("cyclic model of built-in commands rejected only after executing %r" % res["log"], sc.describe())


def api_extension(ctx):
    """a cycle added through add_command after a successful run must be rejected by the next run"""
    from mpilot.program import Program
    from mpilot.exceptions import RecursiveModelStructure
    import sys
    m = prog.testlib()
    rec = progrun.Recorder()
    for style in ("One", "Many"):
        with progrun.stubbed([m.N], rec):
            p = Program.from_source("a = N()\nb = N(One = a)\n", libraries=(prog.TESTLIB,))
            p.run()
            mk = (lambda n: n) if style == "One" else (lambda n: [n])
            p.add_command(m.N, "x", {style: mk("y")})
            p.add_command(m.N, "y", {style: mk("x")})
            old = sys.getrecursionlimit(); sys.setrecursionlimit(600)
            try:
                p.run()
                out = "returned normally (finished: %r)" % [n for n, c in p.commands.items() if c.is_finished]
            except RecursiveModelStructure:
                out = None
            except BaseException as e:
                out = "raised " + progrun.classify(e)
            finally:
                sys.setrecursionlimit(old)
        ctx.case("api-extension " + style, sample=None)
        ctx.count("api_extension_cases")
        if out:
            ctx.fail("cycle x<->y added via add_command (%s) after a successful run: run() %s" % (style, out), {"style": style})


def api_histories(ctx):
    """cycles that come into being through the programming interface: result names that are no identifiers (quoted EEMS 2.0 field names,
    add_command), and a finished model edited so that its source command now reads from the end of the chain"""
    from collections import OrderedDict
    from mpilot.program import Program
    from mpilot.exceptions import RecursiveModelStructure
    import sys
    m = prog.testlib()
    rng = ctx.rng

    def outcome(p):
        old = sys.getrecursionlimit(); sys.setrecursionlimit(600)
        try:
            p.run()
            return "returned normally (finished: %r)" % [n for n, c in p.commands.items() if c.is_finished]
        except RecursiveModelStructure:
            return None
        except BaseException as e:
            return "raised " + progrun.classify(e)
        finally:
            sys.setrecursionlimit(old)
    rec = progrun.Recorder()
    for names in (["x-1", "y z"], ["Slope-Fz", "b.c", "é"], ["a/b", "a/b/c"], ["1st", "2nd", "3rd", "4th"]):
        for style in ("One", "Many"):
            with progrun.stubbed([m.N], rec):
                p = Program(libraries=(prog.TESTLIB,))
                k = len(names)
                for i, nme in enumerate(names):
                    ref = names[(i + 1) % k]
                    p.add_command(m.N, nme, OrderedDict([(style, ref if style == "One" else [ref])]))
                p.add_command(m.N, "tail", OrderedDict([("One", names[0])]))
                out = outcome(p)
            ctx.case("api-names %r %s" % (names, style), sample=None)
            ctx.count("api_history_cases")
            if out:
                ctx.fail("cycle over the result names %r (%s references, built with add_command): run() %s" % (names, style, out), {"names": names, "style": style})
    for first in ("run", "result", "none"):
        for style in ("One", "Many"):
            with progrun.stubbed([m.N], rec):
                p = Program.from_source("a = N()\nb = N(One = a)\nc = N(Many = [b, a])\n", libraries=(prog.TESTLIB,))
                if first == "run":
                    p.run()
                elif first == "result":
                    p.commands["c"].result
                del p.commands["a"]
                p.add_command(m.N, "a", OrderedDict([(style, "c" if style == "One" else ["c"])]))
                out = outcome(p)
            ctx.case("api-edit %s %s" % (first, style), sample=None)
            ctx.count("api_history_cases")
            if out:
                ctx.fail("a model evaluated by %s and then edited so that its source reads from the end of the chain (%s reference): run() %s" % (
                    first, style, out), {"history": first, "style": style})


# ---------------------------------------------------------------- loops longer than the interpreter's stack is deep

def long_model(rng, family, n, style, order):
    """a cyclic model on about n commands.  family: ring (one loop through all commands) | self (a chain of n commands leading into a command that reads
    itself) | ring3 / ring40 (a chain leading into a loop of 3 / 40) | two (two rings joined by one reference) | comb (a chain into a loop, every command
    also listing a shared leaf).  Edge i -> j = "command i reads result j".  Returns the commands in file order: (result, command, argument, value)"""
    edges = {}

    def ringe(lo, hi):
        for i in range(lo, hi):
            edges.setdefault(i, []).append(i + 1 if i + 1 < hi else lo)
    if family == "ring":
        ringe(0, n)
    elif family in ("self", "ring3", "ring40", "comb"):
        k = {"self": 1, "ring3": 3, "ring40": 40, "comb": 2}[family]
        ringe(0, k)                                   # the loop: commands 0..k-1
        for i in range(k, k + n):                     # the chain: k reads k-1, k+1 reads k, ...: the far end is the only command nobody reads
            edges.setdefault(i, []).append(i - 1)
    elif family == "two":
        ringe(0, n // 2); ringe(n // 2, n)
        edges[n // 2].append(0)
    leaf = "leaf" if family == "comb" else None
    cmds = []
    for i in range(max(edges) + 1):
        deps = ["c%d" % j for j in edges.get(i, [])] + ([leaf] if leaf else [])
        st = style if style != "alternating" else ("direct", "list", "nested")[i % 3]
        if style == "eems":
            cmds.append(("c%d" % i, "Copy", "InFieldName", deps[0]) if len(deps) == 1 else ("c%d" % i, "Sum", "InFieldNames", deps))
        elif st == "direct" and len(deps) == 1:
            cmds.append(("c%d" % i, "N", "One", deps[0]))
        elif st == "nested":
            cmds.append(("c%d" % i, "N", "Nested", [[d] for d in deps]))
        else:
            cmds.append(("c%d" % i, "N", "Many", deps))
    if leaf:
        cmds.append(("leaf", "EEMSRead", None, None) if style == "eems" else ("leaf", "N", None, None))
    if order == "users-first":          # the walk over the commands in file order starts at the far end of the chain
        cmds.reverse()
    elif order == "shuffled":
        rng.shuffle(cmds)
    elif order == "interleaved":        # even-numbered commands first, then the odd ones backwards
        cmds = cmds[0::2] + cmds[1::2][::-1]
    return cmds


def long_line(c):
    res, cmd, arg, v = c
    if arg is None:
        return '%s = EEMSRead(InFileName = "in.csv", InFieldName = a)' % res if cmd == "EEMSRead" else "%s = %s()" % (res, cmd)
    txt = v if isinstance(v, str) else "[%s]" % ", ".join(x if isinstance(x, str) else "[%s]" % ", ".join(x) for x in v)
    return "%s = %s(%s = %s)" % (res, cmd, arg, txt)


def long_cycles(ctx):
    """C14 says a cyclic model never runs the interpreter out of stack: rings, and chains leading into a ring, of several times as many commands as the
    recursion limit in force allows frames - in several file orders, with direct, list and nested references and over built-in commands: run() raises
    RecursiveModelStructure and nothing has executed.  (A walk that keeps one frame per command on the path ends in RecursionError instead.)  Parsing costs 50
    microseconds a command, so the models of thousands of commands are mostly put together with add_command in file order, those of hundreds read from text"""
    import os, sys
    from collections import OrderedDict
    from mpilot.program import Program
    rng = ctx.rng
    prog.testlib()
    tmp = common.tmpdir("mpv_c14long_")
    open(os.path.join(tmp, "in.csv"), "w").write("a,b\n1,2\n3,4\n")
    plan = []
    # under the interpreter's usual limit (1000): 1300 .. 8000 commands; under a lowered limit (250, what an embedding application or a deep call site
    # leaves): 400 .. 950 - every family in every order, sizes and styles rotating
    fams = ["ring", "self", "ring3", "ring40", "two", "comb"]
    orders = ["inputs-first", "users-first", "shuffled", "interleaved"]
    styles = ["direct", "list", "nested", "alternating", "eems"]
    k = rng.randrange(60)
    for fam in fams:
        for order in orders:
            k += 1
            plan.append((fam, [1300, 2100, 3400, 5000][k % 4] + rng.randrange(0, 200), styles[k % 5], order, 1000, "text" if k % 12 == 0 else "api"))
            plan.append((fam, [400, 650, 900][k % 3] + rng.randrange(0, 50), styles[(k + 2) % 5], order, 250, "text"))
    plan.append(("self", 8000, "direct", "users-first", 1000, "api"))
    plan.append(("ring", 3000, "eems", "shuffled", 1000, "text"))
    plan.append(("ring40", 3000, "list", "users-first", 1000, "text"))
    for fam, n, style, order, limit, how in plan:
        cmds = long_model(rng, fam, n, style, order)
        total = len(cmds)
        libs = progrun.EEMS_LIBS if style == "eems" else (prog.TESTLIB,)
        rec = progrun.Recorder()
        base, classes = progrun.library_classes(libs)
        old = sys.getrecursionlimit()
        p = None
        with progrun.stubbed(classes, rec):
            try:
                if how == "text":
                    p = Program.from_source("\n".join(long_line(c) for c in cmds) + "\n", libraries=libs, working_dir=tmp)
                else:
                    p = Program(libraries=libs, working_dir=tmp)
                    for res, cmd, arg, v in cmds:
                        p.add_command(p.find_command_class(cmd), res, OrderedDict([(arg, v)] if arg else [("InFileName", "in.csv"), ("InFieldName", "a")] if cmd == "EEMSRead" else []))
            except BaseException as e:
                p, out = None, "could not be built: " + progrun.classify(e)
            if p is not None:
                sys.setrecursionlimit(limit)
                try:
                    p.run()
                    out = "returned normally (%d of %d commands finished)" % (sum(1 for c in p.commands.values() if c.is_finished), total)
                except BaseException as e:
                    out = progrun.classify(e)
                    out = None if out.startswith("mp:RecursiveModelStructure") else "raised " + out
                finally:
                    sys.setrecursionlimit(old)
        ctx.case("long %s %d %s %s %d %s" % (fam, total, style, order, limit, how), sample=None)
        ctx.count("long_cycles")
        ctx.count("long_cycle_commands", total)
        desc = {"family": fam, "commands": total, "references": style, "file_order": order, "recursion_limit": limit, "libraries": list(libs),
                "built": "Program.from_source(text)" if how == "text" else "Program.add_command(class, result, {argument: value}) in file order",
                "source_first_lines": [long_line(c) for c in cmds[:4]], "source_last_lines": [long_line(c) for c in cmds[-3:]],
                "rebuild": "harness.props.c14.long_model(rng, %r, %r, %r, %r), one line per command: long_line  (shuffled: any shuffle of the lines)" % (fam, n, style, order)}
        if out:
            ctx.fail("cyclic model of %d commands (%s, %s references, written %s) under recursion limit %d: run() %s instead of raising RecursiveModelStructure" % (
                total, fam, style, order, limit, out), desc)
        elif rec.log:
            ctx.fail("cyclic model of %d commands (%s) rejected only after executing %r" % (total, fam, rec.log[:6]), desc)
        del p


# ---------------------------------------------------------------- loops through the parameter types of a plug-in library

PLUGLIB = "mpverif_c14plug"

PLUGIN_SRC = '''
from mpilot import params
from mpilot.arguments import Argument
from mpilot.commands import Command
from mpilot.exceptions import ParameterNotValid, ResultDoesNotExist


def _raw(v):
    return v.value if isinstance(v, Argument) else v


def _lookup(name, program, lineno):
    if isinstance(name, Command):
        return name
    try:
        return program.commands[name]
    except (KeyError, TypeError):
        raise ResultDoesNotExist(name, lineno=lineno)


class WeightedRefs(params.Parameter):
    """[Result: weight, ...] -> [(command, weight), ...]"""

    def clean(self, value, program=None, lineno=None):
        if not isinstance(value, dict):
            raise ParameterNotValid(value, "Weighted Results", lineno)
        return [(_lookup(k, program, lineno), float(_raw(w))) for k, w in value.items()]


class RefTuple(params.Parameter):
    """[A, B, ...] -> (commandA, commandB, ...): a tuple"""

    def clean(self, value, program=None, lineno=None):
        if not isinstance(value, (list, tuple)):
            raise ParameterNotValid(value, "Results", lineno)
        return tuple(_lookup(_raw(x), program, lineno) for x in value)


class RefGroups(params.Parameter):
    """[[A, B], [C]] -> [(commandA, commandB), (commandC,)]: references one level down"""

    def clean(self, value, program=None, lineno=None):
        if not isinstance(value, (list, tuple)) or not all(isinstance(_raw(g), (list, tuple)) for g in value):
            raise ParameterNotValid(value, "Result Groups", lineno)
        return [tuple(_lookup(_raw(x), program, lineno) for x in _raw(g)) for g in value]


class TaggedRefs(params.Parameter):
    """[A, B] -> ("all", [commandA, commandB]): a tuple holding a label and the list"""

    def clean(self, value, program=None, lineno=None):
        if not isinstance(value, (list, tuple)):
            raise ParameterNotValid(value, "Results", lineno)
        return ("all", [_lookup(_raw(x), program, lineno) for x in value])


class OwnResult(params.ResultParameter):
    """the library's own kind of single reference"""

    def clean(self, value, program=None, lineno=None):
        return super(OwnResult, self).clean(_raw(value), program, lineno)


class OwnList(params.ListParameter):
    """the library's own kind of list: handed on as a tuple"""

    def clean(self, value, program=None, lineno=None):
        return tuple(super(OwnList, self).clean(value, program, lineno))


class P(Command):
    inputs = {"One": params.ResultParameter(required=False), "Many": params.ListParameter(params.ResultParameter(), required=False),
              "Weighted": WeightedRefs(required=False), "Tuple": RefTuple(required=False), "Groups": RefGroups(required=False),
              "Tagged": TaggedRefs(required=False), "Own": OwnResult(required=False), "OwnList": OwnList(params.ResultParameter(), required=False)}
    output = params.BooleanParameter()

    def execute(self, **kw):
        raise NotImplementedError     # the harness puts its recording body here (progrun.stubbed)
'''

PLUGIN_KINDS = ("Weighted", "Tuple", "Groups", "Tagged", "Own", "OwnList")


def pluglib():
    import sys, types
    if PLUGLIB not in sys.modules:
        m = types.ModuleType(PLUGLIB)
        sys.modules[PLUGLIB] = m
        exec(compile(PLUGIN_SRC, PLUGLIB, "exec"), m.__dict__)
    return sys.modules[PLUGLIB]


def plugin_command(rng, name, deps, kind):
    """command `name` reading `deps`, all of them through the plug-in parameter `kind` (Own holds one: the others go through another kind),
    kind None = a random mixture with the built-in kinds"""
    deps = list(deps)
    args = []
    if kind is None:
        rng.shuffle(deps)
        pool = list(PLUGIN_KINDS) + ["One", "Many"]
        rng.shuffle(pool)
        while deps:
            kd = pool.pop()
            take = 1 if kd in ("One", "Own") else rng.randrange(1, len(deps) + 1)
            args += plugin_command(rng, name, deps[:take], kd)[2] if kd in PLUGIN_KINDS else [(kd, Name(deps[0]) if kd == "One" else [Name(d) for d in deps[:take]])]
            deps = deps[take:]
        return (name, "P", args)
    if kind == "Own" and deps:
        args.append(("Own", Name(deps.pop(0))))
        kind = "Tuple"
    if deps and kind == "Weighted":
        uniq = [d for i, d in enumerate(deps) if d not in deps[:i]]
        args.append(("Weighted", dict((d, "0.5") for d in uniq)))
    elif deps and kind == "Groups":
        cut = rng.randrange(0, len(deps) + 1)
        args.append(("Groups", [[Name(d) for d in g] for g in (deps[:cut], deps[cut:]) if g or rng.random() < 0.5] or [[Name(d) for d in deps]]))
    elif deps:
        args.append((kind, [Name(d) for d in deps]))
    return (name, "P", args)


def plugin_parameter_cycles(ctx):
    """C14 quantifies over programs, and a program may use a plug-in library with parameter types of its own.  Whatever cleaned value holds the referenced
    commands in a list or tuple - pairs (command, weight), a tuple of commands, groups one level down, a labelled tuple, the library's own subclasses of
    ResultParameter / ListParameter - is a reference like `[A, B]` of a ListParameter: a loop with an edge through it is rejected before anything runs,
    and acyclic models over the same commands run, every command once"""
    pluglib()
    rng = ctx.rng
    libs = (PLUGLIB,)
    scs = []     # (scenario, cyclic, what)
    # directed, every run: for every parameter kind a self-loop, a 2-loop whose other edge is a plain reference, a 3-loop with a consumer outside and
    # a leaf, a loop whose every edge is of that kind - each in every file order (<= 24)
    for kind in PLUGIN_KINDS:
        models = [
            [plugin_command(rng, "a", ["a"], kind)],
            [plugin_command(rng, "a", ["b"], kind), ("b", "P", [("One", Name("a"))])],
            [("k", "P", []), plugin_command(rng, "a", ["k", "c"], kind), ("b", "P", [("Many", [Name("a")])]), ("c", "P", [("One", Name("b"))]), ("t", "P", [("One", Name("a"))])],
            [plugin_command(rng, "a", ["b"], kind), plugin_command(rng, "b", ["c", "c"], kind), plugin_command(rng, "c", ["a"], kind)],
        ]
        for cmds in models:
            perms = list(itertools.permutations(cmds))
            for perm in (perms if len(perms) <= 24 else rng.sample(perms, 12)):
                scs.append((Scenario(list(perm), libs=libs), True, kind))
        # the same commands without the closing reference run
        acyc = [("k", "P", []), plugin_command(rng, "a", ["k", "k"], kind), plugin_command(rng, "b", ["a", "k"], kind), ("t", "P", [("One", Name("b"))])]
        for perm in rng.sample(list(itertools.permutations(acyc)), 4):
            scs.append((Scenario(list(perm), libs=libs), False, kind))
    # every digraph on <= 2 commands, sampled ones on 3-5, edges through one plug-in kind or a mixture of all kinds
    graphs_ = [(n, es) for n in (1, 2) for es in all_graphs(n)] + [(3, es) for es in rng.sample(list(all_graphs(3)), ctx.budget(10, 400))]
    for _ in range(ctx.budget(10, 600)):
        n = rng.choice([4, 5])
        graphs_.append((n, set((rng.randrange(n), rng.randrange(n)) for _e in range(rng.randrange(n - 1, 2 * n)))))
    for n, es in graphs_:
        kind = rng.choice(PLUGIN_KINDS + (None, None))
        cmds = [plugin_command(rng, "c%d" % i, ["c%d" % j for j in range(n) if (i, j) in es], kind) for i in range(n)]
        for _o in range(2 if n > 1 else 1):
            scs.append((Scenario(graphs.shuffled(rng, cmds), libs=libs), has_cycle(n, es), kind or "mixed"))
    for sc, cyclic, kind in scs:
        res = progrun.run_impl(sc, recursion_limit=600)
        ctx.case("plugin " + sc.source, sample=None)
        ctx.count("plugin_cyclic" if cyclic else "plugin_acyclic")
        ctx.count("plugin_kind:" + kind)
        desc = dict(sc.describe(), plugin_library="harness/props/c14.py PLUGIN_SRC (module %s)" % PLUGLIB, references_through=kind)
        started = [e[1:] for e in res["log"] if e[0] == "+"]
        if res["load"] != "ok":
            ctx.fail("a model over the plug-in library could not be loaded: %s" % res["load"], desc)
        elif cyclic:
            o = res["ops"][0]
            if not o.startswith("mp:RecursiveModelStructure"):
                ctx.fail("cyclic model with references through a plug-in parameter (%s): run() %s (executed %r) instead of raising RecursiveModelStructure" % (
                    kind, "returned normally" if o == "ok" else "raised " + o, started[:8]), desc)
            elif res["log"]:
                ctx.fail("cyclic model with references through a plug-in parameter (%s) rejected only after executing %r" % (kind, res["log"][:8]), desc)
        else:
            names = [c[0] for c in sc.commands]
            if res["ops"][0] != "ok":
                ctx.fail("acyclic model with references through a plug-in parameter (%s) rejected: %s" % (kind, res["ops"]), desc)
            elif sorted(started) != sorted(names):
                ctx.fail("acyclic model with references through a plug-in parameter (%s): executed %r, expected every command once" % (kind, started), desc)


def copied_programs(ctx):
    """a cyclic model is rejected by whichever Program object runs it: the program it was loaded into, a shallow copy of it (copy.copy: the copy shares the
    command objects), a deep copy, a program rebuilt from another program's command objects' arguments; acyclic twins run in each of them.  Cycles through
    direct parameters (Copy, AMinusB, CvtToFuzzy), through lists (Sum) and through both; the cyclic part first, last or in the middle of the file"""
    import copy
    from mpilot.program import Program
    from mpilot.exceptions import RecursiveModelStructure, MPilotError
    tmp = common.tmpdir("mpv_c14c_")
    with open(os.path.join(tmp, "t.csv"), "w") as f:
        f.write("a,b\n1,2\n3,4\n")
    R = 'Ra = EEMSRead(InFileName = "t.csv", InFieldName = a)'
    rings = {
        "direct": ["X = Copy(InFieldName = Y)", "Y = Copy(InFieldName = X)"],
        "direct3": ["X = AMinusB(A = Ra, B = Z)", "Y = Copy(InFieldName = X)", "Z = Copy(InFieldName = Y)"],
        "self": ["X = AMinusB(A = X, B = Ra)"],
        "list": ["X = Sum(InFieldNames = [Ra, Y])", "Y = Sum(InFieldNames = [X])"],
        "mixed": ["X = Copy(InFieldName = Y)", "Y = Sum(InFieldNames = [Ra, X])"],
        "tail": ["X = Copy(InFieldName = Y)", "Y = Copy(InFieldName = X)", "T = Sum(InFieldNames = [X, Ra])", "U = Copy(InFieldName = T)"],
    }
    acyclic = ["X = Copy(InFieldName = Ra)", "Y = Sum(InFieldNames = [X, Ra])", "Z = AMinusB(A = Y, B = X)"]
    old_limit = sys.getrecursionlimit()
    try:
        sys.setrecursionlimit(400)
        for name, lines in sorted(rings.items()) + [("acyclic", acyclic)]:
            for place in ("first", "last"):
                src = "\n".join(([R] + lines) if place == "last" else (lines + [R])) + "\n"
                for how in ("original", "copy.copy", "copy.deepcopy", "copy of a copy"):
                    p = Program.from_source(src, working_dir=tmp)
                    q = {"original": lambda: p, "copy.copy": lambda: copy.copy(p), "copy.deepcopy": lambda: copy.deepcopy(p), "copy of a copy": lambda: copy.copy(copy.copy(p))}[how]()
                    ctx.case("copied %s %s %s" % (name, place, how), sample=None)
                    ctx.count("copied_program_runs")
                    desc = {"source": src, "run_by": how}
                    try:
                        q.run()
                        out = "ok"
                    except RecursiveModelStructure:
                        out = "recursive"
                    except MPilotError as e:
                        out = "mp:%s" % type(e).__name__
                    except BaseException as e:      # noqa
                        out = "raw:%s" % type(e).__name__
                    if name == "acyclic":
                        if out != "ok":
                            ctx.fail("an acyclic model run by %s of its program ends with %s" % (how, out), desc)
                    elif out != "recursive":
                        ctx.fail("a model whose references form a loop (%s), run by %s of the program it was loaded into, %s - not the recursive-model error" % (
                            name, how, "returned normally" if out == "ok" else "ended with " + out), desc)
    finally:
        sys.setrecursionlimit(old_limit)


def replay(path):
    import json
    print(json.dumps(json.load(open(path)), indent=1)[:6000])
    return 0
