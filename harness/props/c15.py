"""C15 — serialising a program and loading it back gives the same program.

proof:          lean/MPilot/Props/C15.lean
correspondence: `Program.to_string()` of random programs (built from source and through add_command) vs the model's serializer: identical text
oracles:        loading the text gives the same commands in the same order with the same argument names and the same cleaned values (strings with
                quotes, backslashes, delimiters, non-ASCII; numbers of every magnitude; booleans; nested lists; references by name and by object;
                metadata), and identical results/execution when run; serialising the reloaded program gives the same text again (up to tuple order)
"""
import os
from decimal import Decimal
from fractions import Fraction

from .. import common, prog, progrun, render
from ..common import enc_str
from . import c12

LIBS = progrun.EEMS_LIBS + (prog.TESTLIB,)

NUMBERS = [0, 1, -1, 7, 10 ** 15, -123456789, 0.5, -0.25, 3.0, 1e-05, 1.5e-07, 1e16, 1.5e16, 1e22, -2.5e+20, 1e300, 5e-324, 2.2250738585072014e-308,
           1.7976931348623157e+308, 0.1, 1 / 3.0, 123456.789, 1e15, 999999999999999.9, 0.0001, 0.00001, 100.0]     # -0.0: the sign of zero is outside the exact-rational model
STRINGS = render.STRING_POOL + ["Name", "LowToHigh", "D:\\surveys\\2019\\07\\plots.csv", "\\1", "\\0", "\\x41", "tab\tand\nnewline", 'both "double" and \'single\'', "ends with backslash\\",
                                "\\\\server\\share", "100%", "#", "[a, b]", "k: v", "(x)", "a = b", " ", "é\\n☃"]


NONFINITE = [float("inf"), float("-inf")]          # legal numbers of the programming interface (e.g. an open-ended category bound)


def rand_value(rng, kind, names, cmds_by_name, api):
    if kind == "num":
        return rng.choice(NUMBERS) if rng.random() < 0.95 else rng.choice(NONFINITE)
    if kind == "str":
        return rng.choice(STRINGS)
    if kind == "bool":
        return rng.choice([True, False])
    if kind == "nums":
        return [rng.choice(NUMBERS) if rng.random() < 0.95 else rng.choice(NONFINITE) for _ in range(rng.randrange(0, 4))]
    if kind == "strs":
        # lists of texts with blanks, often longer than a line of an editor
        return [rng.choice(["neutral / no information", "two  spaces", "a b", "very long " * 5, "x", "low to high (ascending)", " lead", "trail "] + STRINGS[:6])
                for _ in range(rng.randrange(1, 9))]
    if kind == "nested":
        return [[rng.choice(NUMBERS) for _ in range(rng.randrange(0, 3))] for _ in range(rng.randrange(0, 3))]
    if kind == "tuple":
        return dict((rng.choice(["Description", "Color", "k y", 'q"k', "é", "back\\k"]) + str(i), rng.choice(STRINGS)) for i in range(rng.randrange(0, 3)))
    if kind == "ref":
        n = rng.choice(names)
        return cmds_by_name[n] if api and rng.random() < 0.5 else n
    if kind == "refs":
        return [(cmds_by_name[n] if api and rng.random() < 0.5 else n) for n in [rng.choice(names) for _ in range(rng.randrange(1, 4))]]
    if kind == "nestedrefs":
        return [[(cmds_by_name[n] if api and rng.random() < 0.5 else n) for n in [rng.choice(names) for _ in range(rng.randrange(0, 3))]] for _ in range(rng.randrange(1, 3))]
    raise ValueError(kind)


def build_program(rng, tmp, api):
    """a random program over the test library (typed parameters, extras, references, metadata), built through add_command"""
    from mpilot.program import Program
    m = prog.testlib()
    p = Program(libraries=LIBS, working_dir=tmp)
    names, objs = [], {}
    for i in range(rng.randrange(1, 7)):
        name = "r%d" % i
        cls = rng.choice([m.S, m.S, m.N, m.X, m.D])
        args = {}
        if cls is m.S:
            args["Req"] = rand_value(rng, "num", names, objs, api)
            for key, kind in (("Num", "num"), ("Str", "str"), ("Bool", "bool"), ("Nums", "nums"), ("Tup", "tuple"), ("PathOut", "str")):
                if rng.random() < 0.5:
                    v = rand_value(rng, kind, names, objs, api)
                    if key == "PathOut":
                        v = rng.choice(["out.csv", "sub dir/o.csv", "C:\\temp\\new.csv", "é.nc", "a\\b"])
                    args[key] = v
        if cls is m.X:
            for key, kind in (("Extra1", "str"), ("Extra2", "num"), ("Extra3", "nums"), ("Extra4", "strs"), ("Extra5", "nested")):
                if rng.random() < 0.6:
                    args[key] = rand_value(rng, kind, names, objs, api)
        if names:
            if rng.random() < 0.6:
                args["One"] = rand_value(rng, "ref", names, objs, api)
            if rng.random() < 0.5:
                args["Many"] = rand_value(rng, "refs", names, objs, api)
            if rng.random() < 0.3:
                args["Nested"] = rand_value(rng, "nestedrefs", names, objs, api)
        if rng.random() < 0.4:
            args["Metadata"] = rand_value(rng, "tuple", names, objs, api)
        items = list(args.items())
        rng.shuffle(items)
        p.add_command(cls, name, dict(items))
        names.append(name)
        objs[name] = p.commands[name]
    return p


def enc_value_for_model(v):
    """API raw value -> protocol tokens; floats travel as the exact decimal of their repr"""
    from mpilot.commands import Command
    from mpilot.arguments import Argument
    if isinstance(v, Argument):
        v = v.value
    if isinstance(v, bool):
        return "b %d" % (1 if v else 0)
    if isinstance(v, int):
        return "i %d" % v
    if isinstance(v, float):
        if v in NONFINITE:
            raise ValueError(v)          # outside the exact-rational model: round trip decided on the implementation only
        return "f " + common.enc_rat(Fraction(Decimal(repr(v))))
    if isinstance(v, str):
        return "s " + enc_str(v)
    if isinstance(v, (list, tuple)):
        return ("l %d " % len(v) + " ".join(enc_value_for_model(x) for x in v)).strip()
    if isinstance(v, dict):
        return ("d %d " % len(v) + " ".join("%s %s" % (enc_str(str(k)), enc_value_for_model(x)) for k, x in v.items())).strip()
    if isinstance(v, Command):
        return "c " + enc_str(v.result_name)
    if v is None:
        return "n"
    raise ValueError(v)


def model_line(p, classes):
    nodes = []
    for name, c in p.commands.items():
        parts = [enc_str(name), enc_str(c.name), "-", str(len(c.arguments))]
        for a in c.arguments:
            parts += [enc_str(a.name), "-", enc_value_for_model(a.value)]
        nodes.append(" ".join(parts))
    decls = " ".join(prog.enc_decl(k) for k in classes)
    return "ser %s %d %s %d %s" % (prog.enc_env(p.working_dir, []), len(classes), decls, len(nodes), " ".join(nodes))


def cleaned_view(p):
    """commands -> [(result, class name, [(arg name, canonical cleaned value)])]"""
    out = []
    for name, c in p.commands.items():
        args = []
        for a in c.arguments:
            if a.name in c.inputs:
                try:
                    v = c.inputs[a.name].clean(a.value, p, None)
                    args.append((a.name, prog.canon_clean(v)))
                except Exception as e:
                    args.append((a.name, "error:" + type(e).__name__))
            else:
                args.append((a.name, "raw:" + text_view(a.value)))
        out.append((name, type(c).__name__, args))
    return out


def text_view(v):
    """extra (undeclared) arguments are not cleaned: they are compared by the text they stand for"""
    from mpilot.arguments import Argument
    from mpilot.commands import Command
    if isinstance(v, Argument):
        v = v.value
    if isinstance(v, (list, tuple)):
        return "[" + ",".join(text_view(x) for x in v) + "]"
    if isinstance(v, Command):
        return v.result_name
    if isinstance(v, float):
        return repr(float(v))
    if isinstance(v, bool):
        return str(v)
    if isinstance(v, int):
        return repr(float(v)) if False else str(v)
    return str(v)


def cli_reads_text(ctx, texts, tmp):
    """the command-line tool hands the text of a saved program to the loader unchanged (apart from the line terminators): what it parses is
    what `to_string()` wrote, also when string values hold form feeds, vertical tabs, separators, NEL or U+2028/9"""
    from click.testing import CliRunner
    import mpilot.cli.mpilot as cli
    from mpilot.exceptions import MPilotError
    from .. import parsing
    captured = {}
    orig = cli.Program.__dict__["from_source"]

    def fake(cls, source, libraries=(), working_dir=None):
        captured["source"] = source
        raise MPilotError("stop here")
    cli.Program.from_source = classmethod(fake)
    try:
        runner = CliRunner()
        for k, t in enumerate(texts):
            path = os.path.join(tmp, "saved%d.mpt" % (k % 6))
            with open(path, "w", encoding="utf-8", newline="") as f:
                f.write(t + "\n")
            captured.clear()
            runner.invoke(cli.main, ["eems-csv", path])
            ctx.case("cli-read " + t, sample=None)
            ctx.count("cli_read_cases")
            if "source" not in captured:
                ctx.fail("the command-line tool did not hand the saved program to the loader", {"text": t})
                continue
            a, b = parsing.real_parse(t), parsing.real_parse(captured["source"])
            if a != b:
                ctx.fail("the command-line tool loads a saved program as a different text: parse trees differ", {"text": t, "handed_to_loader": captured["source"][:800]})
    finally:
        cli.Program.from_source = orig


def poison(rng, tmp):
    """another text handled just before: an EEMS 2.0 file that loads, or one that is rejected after its first command"""
    from mpilot.program import Program
    t = 'READ(InFileName = "in.csv", InFieldName = a)\nCVTTOFUZZY(InFieldName = a, NewFieldName = Fz, OutFileName = "o.csv")\n'
    t += rng.choice(["", "NOT(InFieldName = Fz, NewFieldName = N1\n", "X = = 1\n", "Y = NoSuchCommand(A = 1)\n"])
    try:
        Program.from_source(t, libraries=LIBS, working_dir=tmp)
    except Exception:
        pass


HASH_SCRIPT = '''
import json
from collections import OrderedDict
from mpilot.program import Program
from mpilot.commands import Command
from mpilot import params

BS, Q, LF, CR, TAB = chr(92), chr(34), chr(10), chr(13), chr(9)


class Keep(Command):
    inputs = {"Text": params.StringParameter(), "Many": params.ListParameter(params.StringParameter(), required=False), "Metadata": params.TupleParameter(required=False)}
    allow_extra_inputs = True

    def execute(self, **kw):
        return True

texts = ["C:" + BS + "temp" + BS + Q + "new" + Q + ".csv", "a" + BS + "b" + LF + "c" + TAB + "d", "q" + Q + BS, BS + CR + LF + Q, "it's " + BS + " " + Q + "both" + Q,
         "tab" + TAB + "here" + BS + "n", "plain", BS, Q, BS + Q + LF + TAB + CR, Q + BS + Q + BS]
out = []
for t in texts:
    p = Program(libraries=("__main__",))
    a = OrderedDict()
    a["Text"] = t
    a["Many"] = [t, t + "x"]
    a["Metadata"] = {"k": t}
    a["Extra"] = t
    a["Table"] = OrderedDict([("depth", "m"), ("k", t)])       # a key-value table given to a command that takes extra arguments
    p.add_command(Keep, "R", a)
    s = p.to_string()
    try:
        q = Program.from_source(s, libraries=("__main__",))
        back = dict((x.name, x.value) for x in q.commands["R"].arguments)
        ok = back.get("Text") == t and list(back.get("Many")) == [t, t + "x"] and back.get("Metadata") == {"k": t} and back.get("Extra") == t and back.get("Table") == {"depth": "m", "k": t}
        out.append([s, "same" if ok else "differs: %r" % (back,)])
    except Exception as e:
        out.append([s, "reload raised %s" % type(e).__name__])
print(json.dumps(out))
'''


def hash_seeds(ctx):
    """the saved text of a program, and what loading it gives, under eight hash seeds (fresh interpreters): strings holding backslashes together with quotes,
    line breaks and tabs - whatever order a set of characters is walked in, the text is the same text and loads back to the same values"""
    runs = common.hash_sweep(HASH_SCRIPT)
    ref = None
    for sd, val, err in runs:
        ctx.count("hash_seed_runs")
        ctx.case("hash-seed %d" % sd, sample=None)
        if val is None:
            ctx.fail("serialising under PYTHONHASHSEED=%d crashed: %s" % (sd, err[-200:]), {"hash_seed": sd})
            continue
        bad = [x for x in val if x[1] != "same"]
        if bad:
            ctx.fail("under PYTHONHASHSEED=%d a program whose strings hold backslashes together with quotes / line breaks / tabs does not load back to itself: %s" % (sd, bad[0][1][:200]),
                     {"hash_seed": sd, "saved_text": bad[0][0]})
        elif ref is not None and [x[0] for x in val] != ref:
            ctx.fail("the saved text of a program depends on the hash seed (PYTHONHASHSEED=%d differs from seed 0)" % sd, {"hash_seed": sd})
        if ref is None:
            ref = [x[0] for x in val]

KEYWORD_PLUGIN_SRC = """
import numpy
from mpilot import params
from mpilot.commands import Command


class Scaled(Command):
    \"\"\" a plug-in reader-like command: several keywords of its DataType stand for one Python type, and the body looks at the keyword that was written \"\"\"
    inputs = {"Values": params.ListParameter(params.NumberParameter()),
              "DataType": params.DataTypeParameter(required=False, valid_types={"Fraction": float, "Percent": float, "Permille": float, "Count": int, "Rank": int})}
    output = params.DataParameter()

    def execute(self, **kw):
        word = self.get_argument_value("DataType", "Fraction")
        arr = numpy.ma.array(kw["Values"], dtype=kw.get("DataType", float))
        if word in ("Percent", "Permille"):
            arr = arr / (100.0 if word == "Percent" else 1000.0)
        if word == "Rank" and arr.min() < 1:
            raise ValueError("ranks start at 1")
        return arr
"""


def datatype_keywords(ctx):
    """every keyword a command declares for a DataType-like argument (the csv reader's DataType / ReturnType, the NetCDF reader's DataType - where several keywords stand
    for one Python type and the reader looks at the keyword itself -, a plug-in of the same make), on data that makes the keyword matter (values just / far beyond
    [-1, 1], negative values, fractions): programs from source and built through add_command, saved and loaded back - the same arguments, and every command
    gives the same result (type, values, mask) or the same error as in the original"""
    import sys, types
    import numpy
    from netCDF4 import Dataset
    from mpilot.program import Program, EEMS_CSV_LIBRARIES, EEMS_NETCDF_LIBRARIES
    from mpilot.params import DataTypeParameter
    rng = ctx.rng
    name = "mpverif_c15_keywords"
    if name not in sys.modules:
        m = types.ModuleType(name)
        sys.modules[name] = m
        exec(compile(KEYWORD_PLUGIN_SRC, name, "exec"), m.__dict__)
    tmp = common.tmpdir("mpv_c15k_")
    fields = {"near_fuzzy": [-1.004, -0.5, 0.25, 1.003], "far": [-3.5, 0.5, 2.25, 7.0], "signed": [3.0, -2.0, 1.0, 0.5], "counts": [1.4, 2.6, 3.0, 7.5], "unit": [0.0, 0.25, 1.0, 0.5]}
    with Dataset(os.path.join(tmp, "in.nc"), "w") as ds:
        ds.createDimension("x", 4)
        for f, vals in fields.items():
            ds.createVariable(f, "f8", ("x",))[:] = vals
    with open(os.path.join(tmp, "in.csv"), "w") as f:
        f.write(",".join(fields) + "\n" + "\n".join(",".join(repr(fields[k][i]) for k in fields) for i in range(4)) + "\n")

    def outcomes(program):
        found = {}
        for rn, command in program.commands.items():
            try:
                r = command.result
                found[rn] = (str(r.dtype), [None if x is None else round(float(x), 12) for x in numpy.ma.array(r, dtype=float).tolist()]) if isinstance(r, numpy.ndarray) else repr(r)
            except Exception as e:
                found[rn] = "raises " + (type(e.exc).__name__ if hasattr(e, "exc") else type(e).__name__)
        return found

    for libs, infile in ((EEMS_NETCDF_LIBRARIES + (name,), "in.nc"), (tuple(EEMS_CSV_LIBRARIES) + (name,), "in.csv")):
        base = Program(libraries=libs, working_dir=tmp)
        for cls in sorted(base.command_library.values(), key=lambda c: c.name):
            typed = sorted(n for n, p_ in cls.inputs.items() if isinstance(p_, DataTypeParameter))
            if not typed:
                continue
            # one command per (argument, keyword, field); in one program of all of them and in programs of one keyword each
            calls = []
            for an in typed:
                for kw in cls.inputs[an].valid_types:
                    for fi, field in enumerate(fields):
                        args = [("Values", list(fields[field]))] if "Values" in cls.inputs else [("InFileName", infile), ("InFieldName", field)]
                        calls.append(("%s_%s_%d" % (an, "".join(ch for ch in kw if ch.isalnum()), fi), kw, args + [(an, kw)]))
            groups = [calls] + [[c for c in calls if c[1] == kw] for kw in sorted(set(c[1] for c in calls))]
            for group in groups:
                for api in (False, True):
                    order = list(group)
                    rng.shuffle(order)
                    try:
                        if api:
                            p = Program(libraries=libs, working_dir=tmp)
                            for rn, kw, args in order:
                                p.add_command(cls, rn, dict(args))
                        else:
                            src = "".join("%s = %s(%s)\n" % (rn, cls.name, ", ".join("%s = %s" % (n, progrun.render_value(v)) for n, v in args)) for rn, kw, args in order)
                            p = Program.from_source(src, libraries=libs, working_dir=tmp)
                        t = p.to_string()
                    except Exception as e:
                        ctx.fail("a program of %s commands with a DataType keyword cannot be built / saved: %s" % (cls.name, progrun.classify(e)), {"commands": [list(map(str, c)) for c in order][:6]})
                        continue
                    desc = {"built": "add_command" if api else "from_source", "libraries": list(libs), "commands": ["%s = %s(%s)" % (rn, cls.name, ", ".join("%s = %r" % nv for nv in args)) for rn, kw, args in order][:30], "saved_text": t[:3000],
                            "data": "in.nc / in.csv hold the fields " + ", ".join("%s = %r" % kv for kv in fields.items())}
                    ctx.case("keywords %s %s" % (api, t), sample={"built": desc["built"], "text": t[:400]})
                    ctx.count("datatype_keyword_programs")
                    ctx.count("datatype_keyword_commands", len(order))
                    try:
                        q = Program.from_source(t, libraries=libs, working_dir=tmp)
                    except Exception as e:
                        ctx.fail("a saved program with DataType keywords does not load back: %s" % progrun.classify(e), desc)
                        continue
                    a = [(c.result_name, c.name, [(x.name, x.value) for x in c.arguments]) for c in p.commands.values()]
                    b = [(c.result_name, c.name, [(x.name, x.value) for x in c.arguments]) for c in q.commands.values()]
                    ra, rb = outcomes(p), outcomes(q)
                    for rn in ra:
                        if ra[rn] != rb.get(rn):
                            ctx.fail("after save + load the command %s (%s) gives %r; in the original program it gives %r" % (
                                rn, ", ".join("%s = %s" % (x.name, x.value) for x in p.commands[rn].arguments if x.name not in ("Values",)), rb.get(rn), ra[rn]), desc)
                            break
                    if a != b:
                        diff = next((x, y) for x, y in zip(a + [None], b + [None]) if x != y)
                        ctx.fail("save + load changed a command whose DataType is given by keyword: %r became %r" % diff, desc)


def run(ctx):
    ctx.check_proofs(["MPilot.Props.C15", "MPilot.Props.C15Program"])
    hash_seeds(ctx)
    model = common.Model()
    rng = ctx.rng
    tmp = common.tmpdir("mpv_c15_")
    open(os.path.join(tmp, "in.csv"), "w").write("a,b\n1,2\n3,4\n")
    from mpilot.program import Program
    base, classes = progrun.library_classes(LIBS)
    classes = sorted(classes, key=lambda c: c.name)
    lines, texts, descs = [], [], []
    for i in range(ctx.budget(60, 3000)):
        api = i % 2 == 0
        try:
            p = build_program(rng, tmp, api)
        except Exception as e:
            ctx.fail("building a program through add_command failed: %s" % progrun.classify(e), {})
            continue
        if not api:
            # route through source first: the program under test is one loaded from text
            try:
                p = Program.from_source(p.to_string(), libraries=LIBS, working_dir=tmp)
            except Exception as e:
                ctx.fail("a serialised program does not load: %s" % progrun.classify(e), {"text": p.to_string()})
                continue
        try:
            t = p.to_string()
        except Exception as e:
            ctx.fail("to_string() raised %s" % type(e).__name__, {"commands": repr(cleaned_view(p))[:600]})
            continue
        desc = {"built": "add_command" if api else "from_source", "text": t}
        ctx.case(t, sample={"built": desc["built"], "text": t[:500]})
        ctx.count("built:" + desc["built"])
        ctx.count("commands:%d" % len(p.commands))
        try:
            lines.append(model_line(p, classes)); texts.append(t); descs.append(desc)
        except ValueError:
            ctx.count("not_encodable")
        # --- round trip on the implementation (now and then right after another text was rejected or loaded: no load depends on the one before)
        if rng.random() < 0.3:
            poison(rng, tmp)
        try:
            q = Program.from_source(t, libraries=LIBS, working_dir=tmp)
        except Exception as e:
            ctx.fail("the serialised text does not load back: %s" % progrun.classify(e), desc)
            continue
        a, b = cleaned_view(p), cleaned_view(q)
        if a != b:
            diff = next((x, y) for x, y in zip(a + [None], b + [None]) if x != y)
            ctx.fail("serialise + load changed the program: %r became %r" % diff, desc)
            continue
        try:
            t2 = q.to_string()
            q2 = Program.from_source(t2, libraries=LIBS, working_dir=tmp)
            if cleaned_view(q2) != a:
                ctx.fail("a second serialise + load changed the program", desc)
        except Exception as e:
            ctx.fail("re-serialising the reloaded program failed: %s" % progrun.classify(e), desc)
        # identical behaviour when run (stub bodies: execution order, reads, outcome)
        outs = []
        for pr in (p, q):
            rec = progrun.Recorder()
            with progrun.stubbed(classes, rec):
                try:
                    pr.run()
                    o = "ok"
                except Exception as e:
                    o = progrun.classify(e).split(":")[1] if ":" in progrun.classify(e) else progrun.classify(e)
            outs.append((o, list(rec.log)))
            # running a program does not change what it serialises to
            try:
                after = pr.to_string()
            except Exception as e:
                after = "<to_string raised %s>" % type(e).__name__
            if after != t and pr is p:
                ctx.fail("to_string() differs after the program was run: the run changed the program's arguments", dict(desc, after_run=after[:800]))
        if outs[0] != outs[1]:
            ctx.fail("original and reloaded program behave differently when run: %r vs %r" % (outs[0][0], outs[1][0]), desc)
    cli_reads_text(ctx, [t for t in texts if any(ord(ch) in (0x0b, 0x0c, 0x1c, 0x1d, 0x1e, 0x85, 0x2028, 0x2029) for ch in t)][:40] + texts[:10], tmp)
    answers = model.ask(lines)
    for t, desc, ans in zip(texts, descs, answers):
        if ans == "outside":
            ctx.count("outside_model_domain")
            continue
        want = "ok " + enc_str(t)
        if ans != want:
            got = common.dec_str(ans[3:]) if ans.startswith("ok ") else ans
            ctx.disagree("to_string", desc, t[:800], got[:800])
    # EEMS programs from source, with real parameter kinds
    env = {"in": "in.csv"}
    # the process has loaded an EEMS 2.0-style file before: later loads must not be affected
    try:
        Program.from_source("READ(InFileName = in.csv, InFieldName = a)\n", libraries=LIBS, working_dir=tmp)
    except Exception as e:
        ctx.fail("EEMS 2.0-style file does not load: %s" % progrun.classify(e), {})
    by_name = dict((c.name, c) for c in classes)
    for j in range(ctx.budget(10, 300)):
        picks = [rng.choice([c for c in classes if c.name not in ("NoOut",)]) for _ in range(rng.randrange(1, 4))]
        if j % 2 == 0:
            picks += [by_name["EEMSWrite"]]
        cmds = c12.producers(env) + [c12.valid_call(rng, c, env, res="T%d" % i) for i, c in enumerate(picks)]
        if j % 3 == 0:
            cmds.append(("Rn", "EEMSRead", [("InFileName", "in.csv"), ("InFieldName", "b"), ("NewFieldName", "renamed")]))
        sc = progrun.Scenario(cmds, wd=tmp, libs=LIBS)
        try:
            if rng.random() < 0.5:
                poison(rng, tmp)
            p = Program.from_source(sc.source, libraries=LIBS, working_dir=tmp)
            t = p.to_string()
            if rng.random() < 0.5:
                poison(rng, tmp)
            q = Program.from_source(t, libraries=LIBS, working_dir=tmp)
        except Exception as e:
            ctx.fail("EEMS model: serialise/load failed: %s" % progrun.classify(e), {"source": sc.source})
            continue
        ctx.case("eems " + sc.source, sample=None)
        ctx.count("eems_models")
        if cleaned_view(p) != cleaned_view(q):
            ctx.fail("EEMS model changed by serialise + load", {"source": sc.source, "text": t})
    datatype_keywords(ctx)
    return ctx.finish(
        rule="programs of 1-6 commands over the test library (typed Number/String/Boolean/Path/List/nested-list/Tuple parameters, undeclared extras, references "
             "through direct, list and nested-list parameters given by name or as Command objects, metadata) with strings containing quotes, backslashes (incl. "
             "before digits), delimiters, control and non-ASCII characters and numbers from 5e-324 to 1.8e308; half built through add_command, half loaded from text; "
             "plus EEMS models from source; distinct by serialised text",
        explanation="theorems in Props/C15.lean hold for the model's serializer; to_string() of the real Program is compared character by character with the model; "
                    "the round-trip oracle compares commands, order, argument names and cleaned values of original and reloaded program, and their behaviour when run")


def replay(path):
    import json
    print(json.dumps(json.load(open(path)), indent=1)[:6000])
    return 0
