"""C09 — computed results are immutable: commands never modify their inputs.

proof:          lean/MPilot/Props/C09.lean
correspondence: for sequences of consumers over shared producer arrays, every live result is snapshotted before and after
                every execute and compared with the model (results only; identity/alias facts are compared with the heap model)
oracles:        shape, element type, missing cells and non-missing values of every live array unchanged after every consumer;
                the same for every command over float64 fields of 10^5 .. some 10^6 cells (masked with / without a mask array, plain ndarrays)
"""
import numpy

from .. import common, eems
from ..eems import Case
from . import numeric


def snapshot(a):
    return (type(a).__name__, str(a.dtype), a.shape, numpy.ma.getmaskarray(a).copy(), numpy.ma.getdata(a).copy())


def changed(s, a):
    t, dt, sh, m, d = s
    if type(a).__name__ != t:
        return "kind %s -> %s" % (t, type(a).__name__)
    if str(a.dtype) != dt:
        return "element type %s -> %s" % (dt, a.dtype)
    if a.shape != sh:
        return "shape %r -> %r" % (sh, a.shape)
    m2 = numpy.ma.getmaskarray(a)
    if not numpy.array_equal(m2, m):
        return "missing cells changed"
    d2 = numpy.ma.getdata(a)
    vis = ~m
    if not numpy.array_equal(d2[vis], d[vis]):
        i = int(numpy.flatnonzero((d2 != d) & vis)[0])
        return "value at cell %d: %r -> %r" % (i, d.ravel()[i], d2.ravel()[i])
    return None


def sequences(ctx, model, count, length):
    rng = ctx.rng
    for _ in range(count):
        shape = eems.rand_shape(rng)
        raw = [eems.rand_array(rng, shape, rng.choice([int, float])) for _ in range(3)]
        fuzzy = [eems.rand_array(rng, shape, float, eems.FUZZY_LATTICE) for _ in range(3)]
        live = [("raw%d" % i, a, False) for i, a in enumerate(raw)] + [("fz%d" % i, a, True) for i, a in enumerate(fuzzy)]
        snaps = {name: snapshot(a) for name, a, _ in live}
        steps = []
        lines = []
        for step in range(length):
            cmd = rng.choice(list(eems.COMMANDS))
            fuzzy_in = cmd in eems.FUZZY_CONSUMERS
            pool = [x for x in live if x[2] == fuzzy_in]
            how = eems.COMMANDS[cmd][1]
            n = 1 if how == "one" else 2 if how == "ab" else rng.choice([1, 1, 2, 3])
            if cmd == "FuzzyXOr":
                n = max(n, 2)
            chosen = [rng.choice(pool) for _ in range(n)]
            inputs = [c[1] for c in chosen]
            case = Case(cmd, eems.gen_params(rng, cmd, inputs), inputs)
            if eems.near_discontinuity(case):
                continue
            lines.append(case.line())
            out = eems.run_impl(case, copy_inputs=False)
            steps.append({"cmd": cmd, "inputs": [c[0] for c in chosen], "params": {k: repr(v) for k, v in case.params.items()}, "outcome": eems.impl_summary(out)[:80]})
            ctx.count("c09_consumer:" + cmd)
            for name, a, _ in live:
                d = changed(snaps[name], a)
                if d:
                    ctx.fail("after %s(%s) the earlier result %s changed: %s" % (cmd, ",".join(c[0] for c in chosen), name, d), {"steps": steps, "shape": shape})
                    snaps[name] = snapshot(a)
            if out["status"] == "ok" and isinstance(out["result"], numpy.ndarray):
                r = out["result"]
                alias = [c[0] for c in chosen if c[1] is r]
                if alias:
                    ctx.count("c09_result_is_input")
                name = "r%d" % step
                is_fz = cmd in eems.FUZZY_PRODUCERS
                if r.shape == shape and not alias:
                    live.append((name, r, is_fz))
                    snaps[name] = snapshot(r)
        ctx.case("seq " + "|".join(s["cmd"] + ":" + ",".join(s["inputs"]) for s in steps) + str(shape) + lines[0][:80] if lines else "seq", sample={"steps": steps[:4]})


def mixed_shapes(ctx, count):
    """consumers given inputs whose shapes differ (also only by length-1 axes): whatever the outcome, inputs stay as they were"""
    rng = ctx.rng
    nary = [c for c in eems.COMMANDS if eems.COMMANDS[c][1] in ("list", "ab")]
    for _ in range(count):
        shape = eems.rand_shape(rng)
        other = rng.choice(eems.unit_axis_variants(shape))
        cmd = rng.choice(nary)
        fz = cmd in eems.FUZZY_CONSUMERS
        mk = lambda sh: eems.rand_array(rng, sh, float if fz else rng.choice([int, float]), eems.FUZZY_LATTICE if fz else None)
        n = 2 if eems.COMMANDS[cmd][1] == "ab" else rng.choice([2, 3])
        inputs = [mk(shape) for _ in range(n)]
        inputs[rng.randrange(1, n) if rng.random() < 0.7 else 0] = mk(other)
        case = Case(cmd, eems.gen_params(rng, cmd, inputs), inputs)
        snaps = [snapshot(a) for a in inputs]
        out = eems.run_impl(case, copy_inputs=False)
        ctx.case("mixed " + case.line(), sample=None)
        ctx.count("c09_mixed_shape_cases")
        for s0, a in zip(snaps, inputs):
            d = changed(s0, a)
            if d:
                ctx.fail("%s over inputs of shapes %r changed an input: %s (outcome %s)" % (cmd, [x[2] for x in snaps], d, eems.impl_summary(out)[:60]), case.describe())
                break


def writers(ctx, count):
    """output commands are consumers too: writing 1-4 results (CSV, NetCDF) or printing them leaves every written result as it was"""
    import os, io, contextlib
    from . import c18
    from mpilot.libraries.eems.netcdf.io import EEMSWrite as NcWrite
    from mpilot.libraries.eems.csv.io import EEMSWrite as CsvWrite
    from mpilot.libraries.eems.basic import PrintVars
    rng = ctx.rng
    tmp = common.tmpdir("mpv_c09_")
    for i in range(count):
        kind = rng.choice(["netcdf", "netcdf", "csv", "print"])
        shape = rng.choice(c18.SHAPES) if kind == "netcdf" else (rng.choice([1, 3, 6]),)
        forced = i < 6          # always there: NetCDF writes of several results on a grid that fail while the first result is being assigned
        if forced:
            kind, shape = "netcdf", rng.choice([(2, 3), (3, 2), (2, 2, 2)])
        n = int(numpy.prod(shape))
        k = rng.randrange(1, 5) if not forced else rng.randrange(2, 5)
        arrs = []
        for j in range(k):
            a = eems.rand_array(rng, shape, rng.choice([int, float]), None, rng.choice(["none", "one", "some"]) if not forced else "one")
            if rng.random() < 0.3 and not numpy.ma.getmaskarray(a).any():
                a = numpy.ma.array(numpy.ma.getdata(a))          # no mask array at all (mask is the scalar nomask)
            arrs.append(a)
        if kind == "csv":
            arrs = [numpy.ma.array(numpy.ma.getdata(a), mask=False) for a in arrs]     # the CSV writer's known finding concerns missing cells
        snaps = [snapshot(a) for a in arrs]
        prods = [eems.Producer(a, "res%d" % j, False) for j, a in enumerate(arrs)]
        try:
            with contextlib.redirect_stdout(io.StringIO()):
                if kind == "netcdf":
                    tpl = os.path.join(tmp, "tpl%d.nc" % (i % 4))
                    c18.make_template(tpl, shape, rng)
                    outp = os.path.join(tmp, "out%d.nc" % (i % 4))
                    if os.path.exists(outp):
                        os.remove(outp)
                    # a third of the NetCDF writes fail part-way (a dimension variable that does not exist, a folder that does not exist): still nothing changes
                    flt = rng.random() if not forced else 0.01
                    NcWrite("W", []).execute(OutFileName=outp if not 0.15 < flt < 0.3 else os.path.join(tmp, "no_such_folder", "o.nc"), OutFieldNames=prods, DimensionFileName=tpl,
                                             DimensionFieldName="elev" if flt > 0.15 else "no_such_variable" if flt > 0.08 or len(shape) < 2 else "d0")   # d0: a variable on one axis only - the assignment of the first result fails
                elif kind == "csv":
                    CsvWrite("W", []).execute(OutFileName=os.path.join(tmp, "out%d.csv" % (i % 4)), OutFieldNames=prods)
                else:
                    PrintVars("P", []).execute(InFieldNames=prods)
            outcome = "ok"
        except Exception as e:
            outcome = type(e).__name__
        ctx.case("writer %s %r %r" % (kind, shape, [a.tolist() for a in arrs]), sample=None)
        ctx.count("c09_writer:" + kind)
        for j, (s0, a) in enumerate(zip(snaps, arrs)):
            d = changed(s0, a)
            if d:
                ctx.fail("%s EEMSWrite/PrintVars of %d results changed result no. %d: %s (outcome %s)" % (kind, k, j, d, outcome),
                         {"writer": kind, "shape": shape, "results": [repr(x[4].tolist()) + " mask=" + repr(x[3].astype(int).tolist()) for x in snaps]})
                break


def overshoot_chains(ctx):
    """fuzzy results whose raw value lies a hair beyond +1 / -1 before limiting (weights and thresholds that are no binary fractions over fully true / fully
    false cells), and fuzzy fields read from NetCDF variables inside the reader's tolerance: consumed by every single-input fuzzy command - which may hand its
    input on or limit in place - the producer's stored result stays what it was"""
    import os
    from . import c18
    rng = ctx.rng
    t = numpy.ma.array([1.0, -1.0, 1.0, -1.0, 0.5, 1.0], mask=[False, False, False, False, False, True])
    u = numpy.ma.array([1.0, -1.0, 1.0, -1.0, 0.25, 1.0], mask=[False] * 6)
    raw = numpy.ma.array([0.1, 0.7, 0.3, 0.9, 0.2, 0.5])
    producers = [Case("FuzzyWeightedUnion", {"Weights": w}, [t.copy(), u.copy(), t.copy()][:len(w)]) for w in ([0.1, 0.2, 0.3], [0.7, 0.1, 0.2], [0.3, 0.6], [1.1, 2.3, 0.7], [0.1] * 3)]
    producers += [Case("FuzzyUnion", {}, [t.copy(), u.copy(), t.copy()]), Case("FuzzySelectedUnion", {"TruestOrFalsest": "Truest", "NumberToConsider": 3}, [t.copy(), u.copy(), t.copy()]),
                  Case("CvtToFuzzy", {"TrueThreshold": 0.7, "FalseThreshold": 0.1}, [raw.copy()]), Case("CvtToFuzzy", {"TrueThreshold": 0.3, "FalseThreshold": 0.9}, [raw.copy()]),
                  Case("CvtToFuzzy", {}, [raw.copy()]), Case("CvtToFuzzyCurve", {"RawValues": [0.1, 0.3, 0.9], "FuzzyValues": [-1, 1, -1]}, [raw.copy()]),
                  Case("CvtToFuzzyZScore", {"TrueThresholdZScore": 0.3, "FalseThresholdZScore": -0.7}, [raw.copy()])]
    results = []
    for c in producers:
        o = eems.run_impl(c, copy_inputs=False)
        if o["status"] == "ok":
            results.append(("%s %r" % (c.cmd, c.params), o["result"]))
    tmp = common.tmpdir("mpv_c09r_")
    for vt in ("f4", "f8"):
        arr = numpy.ma.array(numpy.array([1.005, -1.004, 0.5, 1.0, -1.0, 1.0199], dtype="f4" if vt == "f4" else "f8"), mask=[False] * 5 + [True])
        path = os.path.join(tmp, "pad_%s.nc" % vt)
        c18.make_var_file(path, (6,), arr, vtype=vt)
        out = c18.read_impl(path, "v", "Fuzzy", None)
        if out[0] == "ok":
            results.append(("NetCDF EEMSRead(DataType = Fuzzy) of a %s variable holding %r" % (vt, arr.tolist()), out[1]))
        else:
            ctx.fail("a %s variable inside the fuzzy tolerance read as Fuzzy: %s" % (vt, out[1]), {"values": arr.tolist()})
    consumers = [("FuzzyOr", {}), ("FuzzyAnd", {}), ("FuzzyNot", {}), ("FuzzyUnion", {}), ("FuzzySelectedUnion", {"TruestOrFalsest": "Falsest", "NumberToConsider": 1}),
                 ("FuzzyWeightedUnion", {"Weights": [1]}), ("CvtFromFuzzy", {"TrueThreshold": 1, "FalseThreshold": -1}), ("Copy", {})]
    for what, r in results:
        for cmd, params in consumers:
            s0 = snapshot(r)
            o = eems.run_impl(Case(cmd, params, [r]), copy_inputs=False)
            ctx.count("overshoot_chain_steps")
            ctx.case("overshoot %s -> %s" % (what, cmd), sample=None)
            d = changed(s0, r)
            if d:
                ctx.fail("the result of %s changed when %s consumed it: %s" % (what, cmd, d), {"producer": what, "consumer": cmd, "result_before": repr(s0[4].tolist())})
                break


def nonfinite_programs(ctx, count):
    """results holding NaN / infinity at non-missing cells (what division, logarithms or a file may deliver), consumed inside a Program by
    several commands one after the other: cleaning the reference, validating the type and running the consumer leave the stored result as it
    was - same missing cells, same numbers, NaN and infinity included"""
    from collections import OrderedDict
    from mpilot.program import Program
    from mpilot.arguments import Argument, ListArgument
    rng = ctx.rng
    lib = eems.arrays_lib()
    for i in range(count):
        shape = eems.rand_shape(rng)
        n = int(numpy.prod(shape))
        lib.HOLD.clear()
        p = Program(libraries=("mpilot.libraries.eems.basic", "mpilot.libraries.eems.fuzzy", eems.ARRLIB))
        held = {}
        fuzzy = i % 2 == 1          # every other program: producers declared fuzzy (a plug-in command), consumed by the fuzzy operators
        for k in range(2):
            vals = [rng.choice([0.5, -1.0, 1.0, float("nan"), 0.25, 0.0, float("nan")] if fuzzy else [0.5, -1.0, 2.0, float("nan"), float("inf"), float("-inf"), 0.0]) for _ in range(n)]
            mask = eems.rand_mask(rng, n, rng.choice(["none", "one", "some"]))
            if rng.random() < 0.4:
                a = numpy.ma.array(numpy.array(vals).reshape(shape))                      # no mask array at all
            else:
                a = numpy.ma.array(numpy.array(vals).reshape(shape), mask=numpy.array(mask).reshape(shape))
            held["H%d" % k] = a
            lib.HOLD["H%d" % k] = a
            p.add_command(lib.HeldFuzzy if fuzzy else lib.HeldData, "H%d" % k, OrderedDict())
            p.commands["H%d" % k].result
        snaps = {k: (numpy.ma.getmaskarray(a).copy(), numpy.ma.getdata(a).copy(), type(numpy.ma.getmask(a))) for k, a in held.items()}
        steps = []
        for j in range(rng.randrange(2, 5)):
            cmd = rng.choice(["FuzzyNot", "FuzzyOr", "FuzzyAnd", "FuzzyUnion", "FuzzyXOr", "CvtFromFuzzy", "FuzzyNot", "FuzzyOr"] if fuzzy else
                             ["Copy", "Sum", "Maximum", "AMinusB", "Normalize", "CvtToFuzzy", "Mean", "Multiply"])
            how = eems.COMMANDS[cmd][1]
            args = OrderedDict()
            if how == "one":
                args["InFieldName"] = Argument("InFieldName", rng.choice(["H0", "H1"]))
                if cmd == "CvtFromFuzzy":
                    args["TrueThreshold"] = Argument("TrueThreshold", 10)
                    args["FalseThreshold"] = Argument("FalseThreshold", 0)
            elif how == "ab":
                args["A"] = Argument("A", "H0"); args["B"] = Argument("B", "H1")
            else:
                names = [rng.choice(["H0", "H1"]) for _ in range(rng.randrange(2 if cmd == "FuzzyXOr" else 1, 3))]
                args["InFieldNames"] = ListArgument("InFieldNames", names, 3, [3] * len(names))
            name = "T%d" % j
            try:
                import warnings
                with numpy.errstate(all="ignore"), warnings.catch_warnings():
                    warnings.simplefilter("ignore")
                    p.add_command(eems.command_class(cmd), name, args)
                    p.commands[name].result
                outcome = "ok"
            except Exception as e:
                outcome = type(e).__name__
            steps.append((cmd, [a.value for a in args.values()], outcome))
            for k, a in held.items():
                m0, d0, _ = snaps[k]
                m1, d1 = numpy.ma.getmaskarray(a), numpy.ma.getdata(a)
                if not numpy.array_equal(m0, m1) or not numpy.array_equal(d0[~m0], d1[~m1], equal_nan=True) or p.commands[k]._result is not a:
                    ctx.fail("after %s(%s) inside a Program the stored result %s changed (missing cells %r -> %r)" % (
                        cmd, steps[-1][1], k, m0.astype(int).tolist(), m1.astype(int).tolist()),
                        {"steps": [list(map(repr, s)) for s in steps], "held": {k2: repr(v.tolist()) for k2, v in held.items()}})
                    snaps[k] = (m1.copy(), d1.copy(), None)
        ctx.case("nonfinite %d %r %r" % (i, shape, steps), sample=None)
        ctx.count("c09_nonfinite_programs")


def identity_cases():
    """parameters for which a command maps every value to itself (thresholds equal to the target range, unit weights, one input, curve / category
    tables that repeat their argument) on data reaching outside that range: the place where a short-cut that hands back or edits the input pays off"""
    from ..eems import Case
    d = numpy.ma.array([-2.5, -1.0, 0.0, 0.5, 1.0, 3.0, 7.0], mask=[False, False, True, False, False, False, False])
    f = numpy.ma.array([-1.0, -0.5, 0.0, 0.5, 1.0, 0.25, -0.25], mask=[False, True, False, False, False, False, False])
    out = [Case("CvtToFuzzy", {"TrueThreshold": 1, "FalseThreshold": -1}, [d.copy()]), Case("CvtToFuzzy", {"TrueThreshold": 1.0, "FalseThreshold": -1.0}, [d.copy()]),
           Case("CvtToFuzzy", {"TrueThreshold": -1, "FalseThreshold": 1}, [d.copy()]), Case("CvtToFuzzy", {"TrueThreshold": 7, "FalseThreshold": -2.5}, [d.copy()]),
           Case("CvtFromFuzzy", {"TrueThreshold": 1, "FalseThreshold": -1}, [f.copy()]), Case("CvtFromFuzzy", {"TrueThreshold": 1.0, "FalseThreshold": -1.0}, [f.copy()]),
           Case("Normalize", {"StartVal": -2.5, "EndVal": 7}, [d.copy()]), Case("Normalize", {"StartVal": 0, "EndVal": 1}, [numpy.ma.array([0.0, 0.5, 1.0, 0.25])]),
           Case("NormalizeCurve", {"RawValues": [-2.5, 7], "NormalValues": [-2.5, 7]}, [d.copy()]),
           Case("CvtToFuzzyCurve", {"RawValues": [-1, 1], "FuzzyValues": [-1, 1]}, [d.copy()]),
           Case("NormalizeCat", {"RawValues": [-1, 0.5, 1, 3], "NormalValues": [-1, 0.5, 1, 3], "DefaultNormalValue": 0}, [d.copy()]),
           Case("WeightedSum", {"Weights": [1]}, [d.copy()]), Case("WeightedSum", {"Weights": [1.0]}, [d.copy()]), Case("WeightedMean", {"Weights": [1]}, [d.copy()]),
           Case("FuzzyWeightedUnion", {"Weights": [1]}, [f.copy()]), Case("FuzzyWeightedUnion", {"Weights": [1]}, [d.copy()]),
           Case("FuzzySelectedUnion", {"TruestOrFalsest": "Truest", "NumberToConsider": 1}, [d.copy()])]
    for cmd in ("Sum", "Multiply", "Minimum", "Maximum", "Mean", "Copy"):
        out.append(Case(cmd, {}, [d.copy()]))
    for cmd in ("FuzzyOr", "FuzzyAnd", "FuzzyUnion"):
        out.append(Case(cmd, {}, [f.copy()]))
    return out


SORTING = ("FuzzySelectedUnion", "FuzzyXOr")       # these stack and sort their inputs: seconds on millions of cells
# ... and these loop over categories / curve segments with an index array per step: their top rung is lower than that of the others
HEAVY = SORTING + ("NormalizeCat", "CvtToFuzzyCat", "NormalizeCurve", "CvtToFuzzyCurve", "NormalizeMeanToMid", "CvtToFuzzyMeanToMid", "NormalizeCurveZScore", "CvtToFuzzyCurveZScore")


def big_fields(ctx):
    """every command as a consumer of BIG results - a ladder of grids from 10^5 to some 10^6 cells, float64 (what a reader delivers by default) as a masked
    array with missing cells, as a masked array without a mask array and as a plain ndarray (a plug-in command's result), integers at the lowest rung;
    n-ary commands over two fields and over one: after the command has run, every field it was given holds what it held (a body may switch to in-place
    accumulation, views or blocks above some size, and conversions like `asarray(x, dtype=float)` copy only when the element type differs)"""
    rng = eems._rng2(ctx)
    seed = rng.randrange(2 ** 31)
    nr = numpy.random.RandomState(seed)
    ladder = [((100000,), ("mask", "nomask", "plain", "int"), None), ((500, 600), ("mask", "nomask", "plain"), None),
              ((1000, 1200), ("mask", "plain"), True), ((1250, 2000), ("mask", "plain"), False)]        # (the top rungs: 1.2 million cells for the heavy commands, 2.5 million for the others)
    if ctx.thorough:
        ladder.append(((3, 1100, 1000), ("mask", "plain"), None))
    for shape, forms, heavy in ladder:
        cells = int(numpy.prod(shape))
        for form in forms:
            def mk(lat):
                return eems.big_field(nr, shape, "mask" if form == "int" else form, 1 if form == "int" and lat == 4 else lat, int if form == "int" else float)
            pools = {False: [mk(8), mk(8)], True: [mk(4), mk(4)]}
            snaps = {id(a): eems.field_snapshot(a) for pool in pools.values() for a in pool}
            for cmd in eems.COMMANDS:
                how = eems.COMMANDS[cmd][1]
                if (heavy is not None and heavy != (cmd in HEAVY)) or (cells > 1000000 and cmd in SORTING and form != "plain"):
                    continue            # (beyond a million cells the two sorting commands run on the plain fields only)
                pool = pools[cmd in eems.FUZZY_CONSUMERS]
                arities = [1] if how == "one" else [2] if how == "ab" else [2] + ([1] if cells <= 300000 and form in ("mask", "plain") and cmd != "FuzzyXOr" else [])
                for n in arities:
                    ins = pool[:n]
                    for attempt in range(8):
                        params = eems.gen_params(rng, cmd, ins, "valid")
                        st, r = eems.execute_on(cmd, params, ins)
                        diffs = [(k, eems.field_changed(snaps[id(a)], a)) for k, a in enumerate(ins)]
                        if st == "ok" or any(d for _, d in diffs):
                            break
                    ctx.case("big-field %s %s %r %d %r" % (cmd, form, shape, n, sorted(params.items())), sample=None)
                    ctx.count("c09_big_field_steps")
                    ctx.count("c09_big_field_steps:%d cells" % cells)
                    if st != "ok":
                        ctx.count("c09_big_field_errors")
                    for k, d in diffs:
                        if d:
                            what = {"mask": "float64 masked array with missing cells", "nomask": "float64 masked array without a mask array", "plain": "plain float64 ndarray",
                                    "int": "int64 masked array with missing cells"}[form]
                            ctx.fail("%s over %d field(s) of %d cells (%s): its input no. %d, the stored result of another command, changed - %s (outcome of the command: %s)" % (
                                cmd, n, cells, what, k, d, st if st == "ok" else type(r).__name__),
                                {"cmd": cmd, "params": {k_: repr(v) for k_, v in params.items()}, "shape": list(shape), "fields": what,
                                 "values": "quarters between -2 and 2 (fuzzy inputs: between -1 and 1; integers: whole numbers), 3 %% of the cells missing; numpy.random.RandomState(%d)" % seed,
                                 "input_before": repr(snaps[id(ins[k])][4].ravel()[:8].tolist()), "input_after": repr(numpy.ma.getdata(ins[k]).ravel()[:8].tolist())})
                            # the field as it was, for the commands that follow
                            t, dt, sh, m0, d0 = snaps[id(ins[k])]
                            fresh = numpy.ma.array(d0.copy(), mask=m0.copy()) if form in ("mask", "int") else numpy.ma.array(d0.copy()) if form == "nomask" else d0.copy()
                            pool[k] = fresh
                            snaps[id(fresh)] = eems.field_snapshot(fresh)
                            break
            del pools, snaps


def rerun_histories(ctx):
    """histories run / the world changes / the program is used again.  A result that has been produced stays what it is however the world has moved on since:
    the table (CSV) or dataset (NetCDF) behind a reader replaced from outside - other numbers, more or fewer rows, other missing cells, other column order,
    removed, no table any more - or overwritten by the model's own EEMSWrite, or the source behind a plug-in reader holding something else; then run() again,
    a further consumer added (and run), every result read again.  After every such step every result of the first run - read through the program - has the
    shape, element type, missing cells and values it had, and so does the array that was handed out then"""
    import contextlib, io, os
    from collections import OrderedDict
    from . import c18
    from mpilot.program import Program, EEMS_CSV_LIBRARIES, EEMS_NETCDF_LIBRARIES
    from mpilot.exceptions import MPilotError
    rng = ctx.rng
    tmp = common.tmpdir("mpv_c09h_")
    lib = eems.arrays_lib()
    quarters = [x / 4.0 for x in range(-8, 17)]

    def table(path, rows, order=("x", "y"), missing=1):
        cols = {"x": [rng.choice(quarters) for _ in range(rows)], "y": [rng.choice(quarters[8:]) for _ in range(rows)]}
        for k in rng.sample(range(rows), min(missing, rows)):
            cols["x"][k] = -9
        with open(path, "w") as f:
            f.write(",".join(order) + "\n" + "".join(",".join(repr(cols[c][i]) for c in order) + "\n" for i in range(rows)))
        return open(path).read()

    def dataset(path, shape, missing=1):
        n = int(numpy.prod(shape))
        mask = numpy.zeros(n, dtype=bool)
        mask[rng.sample(range(n), min(missing, n))] = True
        arr = numpy.ma.array(numpy.array([rng.choice(quarters) for _ in range(n)]).reshape(shape), mask=mask.reshape(shape))
        c18.make_var_file(path, shape, arr, fill=-9999.0)
        return "variable v%r = %r" % (shape, arr.tolist())

    middles = {"csv": ['S = Sum(InFieldNames = [A, B])', 'D = AMinusB(A = A, B = B)', 'M = Maximum(InFieldNames = [A])', 'F = CvtToFuzzy(InFieldName = A, TrueThreshold = 4, FalseThreshold = -2)',
                       'O = FuzzyOr(InFieldNames = [F])', 'G = FuzzyNot(InFieldName = F)', 'N = Normalize(InFieldName = B)', 'P = Multiply(InFieldNames = [A, B, A])', 'K = Copy(InFieldName = A)'],
               "netcdf": ['S = Sum(InFieldNames = [A, A])', 'M = Minimum(InFieldNames = [A])', 'F = CvtToFuzzy(InFieldName = A, TrueThreshold = 4, FalseThreshold = -2)', 'O = FuzzyAnd(InFieldNames = [F])',
                          'K = Copy(InFieldName = A)', 'Q = Mean(InFieldNames = [A, K])'],
               "plugin": ['S = Sum(InFieldNames = [A, B])', 'M = Maximum(InFieldNames = [A])', 'F = CvtToFuzzy(InFieldName = A, TrueThreshold = 4, FalseThreshold = -2)', 'O = FuzzyOr(InFieldNames = [F])',
                          'K = Copy(InFieldName = B)', 'X = Multiply(InFieldNames = [B])']}
    changes = {"csv": ["other numbers", "more rows", "fewer rows", "other missing cells", "columns in another order", "removed", "no table any more", "overwritten by the model's own EEMSWrite", "nothing"],
               "netcdf": ["other numbers", "another shape", "other missing cells", "removed", "no dataset any more", "overwritten by the model's own EEMSWrite", "nothing"],
               "plugin": ["other numbers", "another shape", "other missing cells", "nothing"]}
    histories = ["run()", "a consumer added, run()", "every result read", "run(), run()", "a consumer added and its result read"]
    plan = [(kind, ch, histories[(i + j) % len(histories)]) for kind in ("csv", "netcdf", "plugin") for i, ch in enumerate(changes[kind]) for j in range(2 if kind == "csv" else 1)]
    plan += [(kind, rng.choice(changes[kind]), rng.choice(histories)) for kind in ("csv", "csv", "netcdf", "plugin") for _ in range(ctx.budget(3, 150))]
    for i, (kind, change, history) in enumerate(plan):
        wd = os.path.join(tmp, "h%d" % i)
        os.mkdir(wd)
        own = change.startswith("overwritten")
        shape = (rng.randrange(3, 9),) if kind == "csv" else rng.choice([(4,), (2, 3), (3, 2), (2, 2, 2)])
        mids = rng.sample(middles[kind], rng.randrange(1, 4))
        for user, needed in (("O =", "F ="), ("G =", "F ="), ("Q =", "K =")):          # (what a chosen line consumes is part of the model)
            if any(m.startswith(user) for m in mids) and not any(m.startswith(needed) for m in mids):
                mids = [m for m in middles[kind] if m.startswith(needed)] + mids
        mids.sort(key=lambda m: m.startswith(("O =", "G =", "Q =")))
        world = {}
        if kind == "csv":
            world["t.csv"] = table(os.path.join(wd, "t.csv"), shape[0])
            lines = ['A = EEMSRead(InFileName = "t.csv", InFieldName = x%s)' % rng.choice(["", ", MissingVal = -9", ", MissingVal = -9, DataType = Float"]), 'B = EEMSRead(InFileName = "t.csv", InFieldName = y)'] + mids
            if own:
                lines += ['x = Sum(InFieldNames = [A, A])', 'y = Copy(InFieldName = B)', 'W = EEMSWrite(OutFileName = "t.csv", OutFieldNames = [x, y])']
            libs = EEMS_CSV_LIBRARIES
        elif kind == "netcdf":
            world["v.nc"] = dataset(os.path.join(wd, "v.nc"), shape)
            lines = ['A = EEMSRead(InFileName = "v.nc", InFieldName = v%s)' % rng.choice(["", ", MissingValue = 0.5", ", DataType = Float"])] + mids
            if own:
                c18.make_template(os.path.join(wd, "tpl.nc"), shape, rng)
                lines += ['v = Sum(InFieldNames = [A, A])', 'W = EEMSWrite(OutFileName = "v.nc", OutFieldNames = [v], DimensionFileName = "tpl.nc", DimensionFieldName = elev)']
            libs = EEMS_NETCDF_LIBRARIES
        else:
            held = dict((nm, eems.rand_array(rng, shape, float, None, rng.choice(["none", "one", "some"]))) for nm in ("A", "B"))
            lib.HOLD.clear()
            lib.HOLD.update(held)
            world["source behind HeldData"] = dict((nm, repr(a.tolist())) for nm, a in held.items())
            lines = ['A = HeldData()', 'B = HeldData()'] + mids
            libs = ("mpilot.libraries.eems.basic", "mpilot.libraries.eems.fuzzy", eems.ARRLIB)
        if rng.random() < 0.5:
            rng.shuffle(lines)
        src = "\n".join(lines) + "\n"
        desc = {"source": src, "libraries": list(libs), "world_at_first_run": world, "then": []}
        ctx.case("rerun %s %s %s %s" % (kind, change, history, src) + repr(world), sample=None)
        ctx.count("c09_rerun_histories")
        ctx.count("c09_rerun_change:" + change)
        try:
            with numpy.errstate(all="ignore"), contextlib.redirect_stdout(io.StringIO()):
                p = Program.from_source(src, libraries=libs, working_dir=wd)
                p.run()
        except Exception as e:          # a generated model the code refuses is no history of this kind
            ctx.count("c09_rerun_first_run_failed:" + type(e).__name__)
            continue
        handed = dict((nm, c._result) for nm, c in p.commands.items() if c.is_finished and isinstance(c._result, numpy.ndarray))
        snaps = dict((nm, snapshot(a)) for nm, a in handed.items())
        # -- the world moves on
        if kind == "csv" and not own and change != "nothing":
            path = os.path.join(wd, "t.csv")
            if change == "removed":
                os.remove(path)
            elif change == "no table any more":
                open(path, "w").write("\x00\x01 this is no table\n\n,,\n")
            else:
                rows = shape[0] + (rng.randrange(1, 4) if change == "more rows" else -rng.randrange(1, 3) if change == "fewer rows" else 0)
                desc["world_afterwards"] = table(path, rows, ("y", "x") if change.startswith("columns") else ("x", "y"), 2 if change == "other missing cells" else 1)
        elif kind == "netcdf" and not own and change != "nothing":
            path = os.path.join(wd, "v.nc")
            os.remove(path)
            if change == "no dataset any more":
                open(path, "w").write("this is no dataset\n")
            elif change != "removed":
                sh2 = shape if change != "another shape" else rng.choice([s_ for s_ in [(4,), (2, 3), (3, 2), (5,), (2, 2, 2), (2, 2)] if s_ != shape])
                desc["world_afterwards"] = dataset(path, sh2, 2 if change == "other missing cells" else 1)
        elif kind == "plugin" and change != "nothing":
            sh2 = shape if change != "another shape" else tuple(n + 1 for n in shape)
            for nm in ("A", "B"):
                lib.HOLD[nm] = eems.rand_array(rng, sh2, float, None, "some" if change == "other missing cells" else "one")
            desc["world_afterwards"] = dict((nm, repr(lib.HOLD[nm].tolist())) for nm in ("A", "B"))
        desc["then"].append("the %s: %s" % ({"csv": "table t.csv", "netcdf": "dataset v.nc", "plugin": "source behind HeldData"}[kind], change))
        # -- the program is used again
        steps = []
        target = rng.choice(sorted(snaps))

        def add(name):
            p.add_command(p.find_command_class("Copy"), name, OrderedDict([("InFieldName", target)]))
        for part in history.split(", "):
            if part == "run()":
                steps.append(("program.run()", p.run))
            elif part == "a consumer added":
                steps.append(("program.add_command(Copy, 'Late', {'InFieldName': %r})" % target, lambda: add("Late")))
            elif part == "every result read":
                steps.append(("every result read", lambda: [c.result for c in p.commands.values()]))
            else:
                steps.append(("program.add_command(Copy, 'Late', {'InFieldName': %r}); program.commands['Late'].result" % target, lambda: (add("Late"), p.commands["Late"].result)))
        bad = None
        for text, step in steps:
            try:
                with numpy.errstate(all="ignore"), contextlib.redirect_stdout(io.StringIO()):
                    step()
                desc["then"].append(text)
            except MPilotError as e:        # (a run() that finds its file gone may refuse; what has been produced is what is judged)
                desc["then"].append("%s   -> %s" % (text, type(e).__name__))
            for nm in sorted(snaps):
                try:
                    with numpy.errstate(all="ignore"), contextlib.redirect_stdout(io.StringIO()):
                        now = p.commands[nm].result
                except Exception as e:
                    bad = "the result %s, produced by the first run, can no longer be read (%s)" % (nm, type(e).__name__)
                    break
                d = changed(snaps[nm], now) or changed(snaps[nm], handed[nm])
                if d:
                    bad = "the result %s, produced by the first run, changed: %s (%r -> %r)" % (nm, d, snaps[nm][4].tolist(), numpy.ma.getdata(now).tolist() if isinstance(now, numpy.ndarray) else now)
                    break
            if bad:
                ctx.fail("a %s model was run; then %s; then %s: %s" % (kind, desc["then"][0], text, bad), desc)
                break
    lib.HOLD.clear()


def run(ctx):
    ctx.check_proofs(["MPilot.Props.C09", "MPilot.Props.C09Hist"])
    model = common.Model()

    alias_cases = []

    def inputs_unchanged(case, out, ans):
        if out["status"] == "ok" and case.inputs:
            alias_cases.append((case, any(out["result"] is p._arr for p in out["producers"])))
        # run_stream executes on copies; compare the copies it used with the originals
        for before, after in zip(case.inputs, out["inputs_after"]):
            d = changed(snapshot(before), after)
            if d:
                ctx.fail("%s modified one of its inputs: %s" % (case.cmd, d), case.describe())
    cases = [eems.gen_case(ctx.rng, cmd, style="valid", n=(1 if i % 2 == 0 and eems.COMMANDS[cmd][1] == "list" and cmd != "FuzzyXOr" else None))
             for cmd in eems.COMMANDS for i in range(ctx.budget(8, 300))]
    cases += identity_cases()
    eems.run_stream(ctx, model, cases, "exec:all-commands:inputs-after", on_result=inputs_unchanged)
    # identity facts: which commands hand back one of their input objects (heap model `aliases`)
    answers = model.ask(["alias %s %d" % (c.spec(), len(c.inputs)) for c, _ in alias_cases])
    for (c, is_alias), a in zip(alias_cases, answers):
        ctx.count("c09_alias_checked")
        if (a == "1") != is_alias:
            ctx.disagree("heap:aliasing", c.describe(), "result is an input object: %s" % is_alias, "aliases = " + a)
    sequences(ctx, model, ctx.budget(60, 2500), 8)
    mixed_shapes(ctx, ctx.budget(150, 4000))
    writers(ctx, ctx.budget(40, 1500))
    overshoot_chains(ctx)
    nonfinite_programs(ctx, ctx.budget(40, 1500))
    rerun_histories(ctx)
    big_fields(ctx)
    return ctx.finish(
        rule="(a) every data command incl. single-input forms of n-ary operators: inputs compared before/after one execute; "
             "(b) random sequences of up to 8 consumers (all 31 data commands) over 6 shared producer arrays and the results produced on "
             "the way, every live array snapshotted after every step; distinct by first protocol line + step list",
        explanation="theorems in Props/C09.lean (the model's exec is a pure function of its inputs; in-place steps of the bodies act on fresh "
                    "arrays or leave visible content unchanged) hold for the model; the implementation's inputs are compared before/after "
                    "every execute, in sequences")


def replay(path):
    from .c04 import replay as r
    return r(path)
