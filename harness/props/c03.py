"""C03 — missing data stays missing and never leaks into valid results.

proof:          lean/MPilot/Props/C03.lean
correspondence: every data command, inputs with random masks (none/one/some/most) and adversarial hidden payloads
oracles:        mask ⊇ union of input masks; extra missing cells only where the operation is undefined;
                re-run with different hidden payloads under the same masks → identical visible result
"""
from .. import common, eems
from . import numeric


def gen(ctx, cmds, n):
    cases = []
    for cmd in cmds:
        for i in range(n):
            ms = ctx.rng.choice(["one", "some", "some", "most", "none"])
            cases.append(eems.gen_case(ctx.rng, cmd, style="valid" if i % 4 else "wild", mask_style=ms))
    return cases


def run(ctx):
    ctx.check_proofs(["MPilot.Props.C03"])
    model = common.Model()
    orc = numeric.oracle_c03(ctx)
    n = ctx.budget(14, 600)
    eems.run_stream(ctx, model, gen(ctx, list(eems.COMMANDS), n), "exec:all-commands:masks", on_result=orc)
    numeric.focus_search(ctx, model, lambda cmds, f: gen(ctx, cmds, n * f), orc)
    return ctx.finish(
        rule="cases = (data command, parameters, inputs with masks none/one/some/most and adversarial hidden payloads ±1e20, "
             "category keys, control points); each masked case is re-run with different payloads; distinct by protocol line; "
             "non-trivial = result array or an MPilotError",
        explanation="theorems in Props/C03.lean hold for the model for all inputs; model tied to the 31 execute bodies by differential "
                    "execution; mask-superset, undefined-only and payload-twin oracles run on every implementation result")


def replay(path):
    from .c04 import replay as r
    return r(path)
