"""C03 — missing data stays missing and never leaks into valid results.

proof:          lean/MPilot/Props/C03.lean
correspondence: every data command, inputs with random masks (none/one/some/most) and adversarial hidden payloads
oracles:        mask ⊇ union of input masks; extra missing cells only where the operation is undefined;
                re-run with different hidden payloads under the same masks → identical visible result;
                histories: a writer (NetCDF / CSV EEMSWrite, PrintVars) between two evaluations of one command over the same fields - missing alike before and after
"""
from .. import common, eems
from . import numeric


def gen(ctx, cmds, n):
    cases = []
    for cmd in cmds:
        for i in range(n):
            ms = ctx.rng.choice(["one", "some", "some", "most", "none"])
            cases.append(eems.gen_case(ctx.rng, cmd, style="valid" if i % 4 else "wild", mask_style=ms))
    return cases


def zero_weights(ctx):
    """weighted commands with a weight of 0 at every position: an input that contributes nothing still contributes its missing cells"""
    import numpy
    cases = []
    for cmd, lat in (("WeightedSum", [2.0, -1.0, 0.5]), ("WeightedMean", [2.0, -1.0, 0.5]), ("FuzzyWeightedUnion", [1.0, -1.0, 0.5])):
        for weights in ([1, 0, 2], [0, 1, 1], [1, 1, 0], [0.0, 2, 1], [1, 0.0, 0], [2, 0]):
            n = len(weights)
            ins = []
            for k in range(n):
                mask = [j == k for j in range(4)]          # input k is missing at cell k only; cell 3 is present everywhere
                ins.append(numpy.ma.array(numpy.array([lat[(j + k) % 3] for j in range(4)]), mask=mask))
            cases.append(eems.Case(cmd, {"Weights": list(weights)}, ins))
    return cases


def readers(ctx):
    """the two readers: cells the file marks as missing stay missing whatever MissingValue says; exactly the cells equal to the declared
    missing value are added; downstream commands never see the hidden numbers"""
    import os
    import numpy
    from . import c17, c18
    rng = ctx.rng
    tmp = common.tmpdir("mpv_c03_")
    for i in range(ctx.budget(12, 400)):
        shape = rng.choice(c18.SHAPES)
        n = int(numpy.prod(shape))
        tname = rng.choice([None, "Float", "Integer", "Positive Float", "Positive Integer", "Fuzzy"])
        # incl. valid values close to a marker (7, 2, 0, -12345 below): they are data, not missing cells
        pool = [-9999.0, -1.0, 0.0, 0.5, 1.0, 2.0, 7.0, 7.00001, 6.99995, 2.00001, 4e-9, -4e-9, -12345.05, -12344.95, 2.0000000001]
        if tname in ("Positive Float", "Positive Integer"):
            pool = [0.0, 0.5, 1.0, 2.0, 7.0, 7.00001, 6.99995, 2.00001, 4e-9]          # admissible for the declared type: only the payload under missing cells is not
        if tname == "Fuzzy":
            pool = [-1.0, -0.5, 0.0, 0.5, 1.0, 4e-9, -4e-9]
        vals = [rng.choice(pool) for _ in range(n)]
        mask = eems.rand_mask(rng, n, rng.choice(["one", "some"]))
        arr = numpy.ma.array(numpy.array(vals).reshape(shape), mask=numpy.array(mask).reshape(shape))
        path = os.path.join(tmp, "v%d.nc" % (i % 5))
        c18.make_var_file(path, shape, arr, fill=rng.choice([-9999.0, None, 1e30]))
        missing = rng.choice([None, 7, 0, 2.0, -12345])
        out = c18.read_impl(path, "v", tname, missing)
        ctx.case("ncreader %r %r %r" % (vals, mask, missing), sample=None)
        ctx.count("reader_cases:netcdf")
        desc = {"values": vals, "file_missing": mask, "MissingValue": missing, "shape": shape, "DataType": tname}
        if out[0] != "ok":
            ctx.fail("NetCDF EEMSRead failed: %s" % (out[1],), desc)
            continue
        gm = numpy.ma.getmaskarray(out[1]).ravel().tolist()
        from netCDF4 import Dataset
        with Dataset(path) as ds:           # what the file itself marks as missing (cells stored as the fill value), per the library
            mask = numpy.ma.getmaskarray(ds["v"][:]).ravel().tolist()
        desc["file_missing"] = mask
        conv = (lambda x: float(numpy.rint(x))) if tname in ("Integer", "Positive Integer") else float
        mv = None if missing is None else (float(int(missing)) if tname in ("Integer", "Positive Integer") else float(missing))
        want = [m or (mv is not None and conv(v) == mv) for v, m in zip(vals, mask)]
        if gm != want:
            ctx.fail("NetCDF EEMSRead: missing cells %r; the file marks %r missing and MissingValue=%r adds exactly the equal cells: %r" % (gm, mask, missing, want), desc)
    for i in range(ctx.budget(12, 400)):
        n = rng.randrange(1, 9)
        vals = [rng.choice([-9999, -1, 0, 1, 2, 7, 2.5, -9998.95, -9999.05, 4e-9, 2.00001, 2.5000001]) for _ in range(n)]      # incl. valid values close to a marker
        path = os.path.join(tmp, "c%d.csv" % (i % 5))
        open(path, "w").write("a,b\n" + "".join("%r,%r\n" % (v, 1) for v in vals))
        missing = rng.choice([None, -9999, 2, 2.5, 0])
        integer = rng.choice([None, False, True])
        out = c17.read_impl(path, "a", missing, integer)
        ctx.case("csvreader %r %r %r" % (vals, missing, integer), sample=None)
        ctx.count("reader_cases:csv")
        if out[0] != "ok":
            ctx.fail("CSV EEMSRead failed: %s" % (out[1],), {"values": vals})
            continue
        conv = (lambda x: float(int(x))) if integer else float
        want = [missing is not None and conv(v) == conv(missing) for v in vals]
        if numpy.ma.getmaskarray(out[1]).tolist() != want:
            ctx.fail("CSV EEMSRead: missing cells %r, expected %r for MissingVal=%r" % (numpy.ma.getmaskarray(out[1]).tolist(), want, missing), {"values": vals, "DataType": integer})


def netcdf_round_trip(ctx):
    """a variable read from a NetCDF dataset, converted by one command, written to a dataset and read back through the library: the cells missing in
    what comes back are exactly the cells missing in what the command computed (no valid cell is lost to a fill value on the way), values unchanged"""
    import os
    import numpy
    from netCDF4 import Dataset
    from mpilot.program import Program, EEMS_NETCDF_LIBRARIES
    from . import c18
    rng = ctx.rng
    tmp = common.tmpdir("mpv_c03n_")
    ops = [("CvtToBinary", {"Threshold": 0.25, "Direction": "LowToHigh"}), ("CvtToBinary", {"Threshold": 1, "Direction": "HighToLow"}),
           ("CvtToFuzzy", {"TrueThreshold": 3, "FalseThreshold": -1}), ("CvtToFuzzy", {}), ("Normalize", {}), ("Normalize", {"StartVal": 1, "EndVal": 0}), ("Copy", {}),
           ("CvtToFuzzyCat", {"RawValues": [1, 3], "FuzzyValues": [1, -1], "DefaultFuzzyValue": 0}), ("NormalizeCat", {"RawValues": [1, 0], "NormalValues": [1, 0], "DefaultNormalValue": 1}),
           ("CvtToFuzzyCurve", {"RawValues": [-1, 1, 3], "FuzzyValues": [-1, 1, 0]}), ("NormalizeZScore", {}), ("CvtToFuzzyZScore", {"TrueThresholdZScore": 1, "FalseThresholdZScore": -1})]
    for i, (cmd, params) in enumerate(ops * (1 if not ctx.thorough else 4)):
        shape = rng.choice(c18.SHAPES)
        n = int(numpy.prod(shape))
        d = os.path.join(tmp, "rt%d" % (i % 3))
        os.makedirs(d, exist_ok=True)
        inp, outp = os.path.join(d, "in.nc"), os.path.join(d, "out.nc")
        for f in (inp, outp):
            if os.path.exists(f):
                os.remove(f)
        vals = [rng.choice([-2.5, -1.0, 0.0, 0.25, 1.0, 3.0, 7.5]) for _ in range(n)]
        if len(set(vals)) < 2:
            vals[0] = 5.0
        a = numpy.ma.array(numpy.array(vals).reshape(shape), mask=numpy.array(eems.rand_mask(rng, n, rng.choice(["none", "one", "some"]))).reshape(shape))
        dims = ["d%d" % k for k in range(len(shape))]
        with Dataset(inp, "w") as ds:
            for dn, m in zip(dims, shape):
                ds.createDimension(dn, m)
                ds.createVariable(dn, "f8", (dn,))[:] = [1.5 * (k + 1) for k in range(m)]
            ds.createVariable("a", "f8", tuple(dims), fill_value=rng.choice([None, -9999.0, 1e30]))[:] = a
        ref = eems.run_impl(eems.Case(cmd, params, [a.copy()]))
        args = "".join(", %s = %s" % (k, v if not isinstance(v, list) else "[" + ", ".join(str(x) for x in v) + "]") for k, v in params.items())
        src = ('A = EEMSRead(InFileName = "in.nc", InFieldName = a)\nR = %s(InFieldName = A%s)\n'
               'Out = EEMSWrite(OutFileName = "out.nc", OutFieldNames = [R], DimensionFileName = "in.nc", DimensionFieldName = a)\n' % (cmd, args))
        desc = {"source": src, "a": a.tolist(), "shape": shape}
        ctx.case("nc-round-trip %r" % (desc,), sample={"source": src})
        ctx.count("netcdf_round_trips")
        if ref["status"] != "ok":
            continue
        try:
            with numpy.errstate(all="ignore"):
                p = Program.from_source(src, libraries=EEMS_NETCDF_LIBRARIES, working_dir=d)
                p.run()
            with Dataset(outp) as ds:
                got = ds["R"][:]
        except Exception as e:
            ctx.fail("read, convert, write, read back fails: %s %s" % (type(e).__name__, str(e)[:160]), desc)
            continue
        want = ref["result"]
        wm, gm = numpy.ma.getmaskarray(want), numpy.ma.getmaskarray(got)
        if got.shape != want.shape or not numpy.array_equal(wm, gm):
            ctx.fail("%s of a NetCDF variable, written and read back: missing at %r, the command's result is missing at %r (values %r)" % (
                cmd, gm.astype(int).ravel().tolist(), wm.astype(int).ravel().tolist(), numpy.ma.getdata(want).ravel().tolist()), desc)
        elif not numpy.allclose(numpy.ma.getdata(got)[~wm], numpy.ma.getdata(want)[~wm], rtol=1e-12, atol=0):
            ctx.fail("%s of a NetCDF variable: values changed between computing, writing and reading back" % cmd, desc)

def printed_fields(ctx):
    """PrintVars (to the screen and to a file) over fields of 6 ... 5000 cells with missing cells, whole numbers and decimals: what is printed does not depend on
    the numbers stored beneath the missing cells (the same field with other hidden numbers - large, negative, infinite, NaN - prints the same text), and a field
    with a missing cell can be printed at all"""
    import contextlib
    import io
    import os
    import numpy
    from mpilot.libraries.eems.basic import PrintVars
    tmp = common.tmpdir("mpv_c03p_")
    rs = numpy.random.RandomState(ctx.seed + 17)
    for n in (6, 40, 1001, 1500, 5000):
        for dt in (float, int):
            for shape in ((n,), (2, n // 2)) if n % 2 == 0 else ((n,),):
                vals = rs.randint(-3, 4, size=n).astype(dt) / (4 if dt is float else 1)
                vals = vals.astype(dt).reshape(shape)
                mask = numpy.zeros(n, dtype=bool)
                mask[[0, n // 2, n - 1]] = True
                mask = mask.reshape(shape)
                texts = []
                for payload in ((7, -9999), (123456789, 0)) + (((numpy.inf, numpy.nan),) if dt is float else ()):
                    d = vals.copy()
                    d[mask] = payload[0]
                    d.ravel()[0] = payload[1]
                    a = numpy.ma.array(d, mask=mask.copy())
                    prod = [eems.Producer(a, "field", False)]
                    for where in ("file", "screen"):
                        out = io.StringIO()
                        try:
                            with contextlib.redirect_stdout(out):
                                if where == "file":
                                    path = os.path.join(tmp, "vars.txt")
                                    PrintVars("P", []).execute(InFieldNames=prod, OutFileName=path)
                                    text = open(path).read()
                                else:
                                    PrintVars("P", []).execute(InFieldNames=prod)
                                    text = out.getvalue()
                        except Exception as e:      # noqa
                            text = "raised %s" % type(e).__name__
                        texts.append((where, payload, text))
                ctx.case("print %d %s %r" % (n, dt.__name__, shape), sample=None)
                ctx.count("c03_printed_fields")
                for where in ("file", "screen"):
                    got = [(p_, t) for w, p_, t in texts if w == where]
                    if any(t.startswith("raised ") for _, t in got):
                        ctx.fail("PrintVars (%s) of a %s field of %d cells with missing cells %s" % (where, dt.__name__, n, [t for _, t in got if t.startswith("raised ")][0]),
                                 {"cells": n, "shape": list(shape), "element_type": dt.__name__, "missing_cells": [0, n // 2, n - 1]})
                    elif len({t for _, t in got}) != 1:
                        a_ = got[0]
                        b_ = [g for g in got if g[1] != a_[1]][0]
                        ctx.fail("PrintVars (%s) of a %s field of %d cells prints another text when other numbers lie beneath its missing cells (hidden %r: %r ...; hidden %r: %r ...)" % (
                            where, dt.__name__, n, a_[0], a_[1][:80], b_[0], b_[1][:80]), {"cells": n, "shape": list(shape), "element_type": dt.__name__, "missing_cells": [0, n // 2, n - 1]})


def writers_between(ctx):
    """histories: an output command (NetCDF / CSV EEMSWrite, PrintVars to the screen or to a file) runs BETWEEN two evaluations of the same data command over the
    same fields.  Writing is no data command: which cells of a result are missing is decided by the inputs alone, so the command evaluated after the write is
    missing exactly where it was before - where one of its inputs is missing (as the fields stood when the model started) and nowhere else.  The written fields
    are readers' fields and stored results of real commands, 2-4 of them with a real mask array / no mask array, each missing in a cell where the others are
    not, listed in every rotation (each field is the first of the list once); directly on the bodies, and as whole Programs (read - compute - write - compute)"""
    import contextlib
    import io
    import os
    import numpy
    from netCDF4 import Dataset
    from mpilot.libraries.eems.netcdf.io import EEMSWrite as NcWrite
    from mpilot.libraries.eems.csv.io import EEMSWrite as CsvWrite
    from mpilot.libraries.eems.basic import PrintVars
    from mpilot.program import Program, EEMS_NETCDF_LIBRARIES, EEMS_CSV_LIBRARIES
    from . import c18
    rng = eems._rng2(ctx)
    tmp = common.tmpdir("mpv_c03w_")
    orc = numeric.oracle_c03(ctx, payload_twin=False)
    kinds = ["netcdf", "csv", "print", "netcdf", "printfile", "netcdf"]
    one_in = [c for c in eems.COMMANDS if eems.COMMANDS[c][1] == "one" and c not in eems.ZSCORE and "MeanToMid" not in c]
    many_in = [c for c in eems.COMMANDS if eems.COMMANDS[c][1] != "one"]
    count = ctx.budget(30, 900)
    i = 0
    while i < count:
        kind = kinds[i % len(kinds)]
        shape = rng.choice([(6,), (2, 3), (3, 4), (2, 2, 2), (5, 2), (1, 4, 2)]) if kind == "netcdf" else (rng.choice([4, 6, 9]),)
        n = int(numpy.prod(shape))
        k = rng.randrange(2, 5)
        fields, origin = [], []
        for j in range(k):
            dt = float if rng.random() < 0.75 else int
            mask = eems.rand_mask(rng, n, rng.choice(["one", "some", "none"]))
            for j2 in range(k):
                mask[j2] = j2 == j                     # cell j is missing in field j and in no other
            if j == k - 1 and rng.random() < 0.3:
                mask = [False] * n                      # ... but for a last field in which nothing is missing (sometimes without a mask array)
            vals = [dt(rng.choice(eems.FUZZY_LATTICE if dt is float else [-1, 0, 1])) for _ in range(n)]
            a = eems.make_array(vals, mask, shape, dt, rng)
            how = "a reader's field"
            if rng.random() < 0.5:
                # the stored result of a real command
                pc = eems.gen_case(rng, rng.choice(["Copy", "FuzzyNot", "CvtToFuzzy", "FuzzyOr", "Sum", "CvtToFuzzyCat", "Normalize"]), style="valid", shape=shape, n=1, mask_style="none")
                pc = eems.Case(pc.cmd, pc.params, [a] * len(pc.inputs))
                po = eems.run_impl(pc)
                if po["status"] == "ok" and isinstance(po["result"], numpy.ma.MaskedArray) and po["result"].shape == tuple(shape) and numpy.array_equal(numpy.ma.getmaskarray(po["result"]), numpy.ma.getmaskarray(a)):
                    a, how = po["result"], "the result of " + pc.spec()
            fields.append(a)
            origin.append(how)
        snaps = [a.copy() for a in fields]
        cases = [eems.Case("Copy", {}, [a]) for a in fields]
        cases.append(eems.Case(rng.choice(["Multiply", "Sum", "FuzzyAnd"]), {}, [fields[0], fields[0]]))
        for _ in range(3):
            cmd = rng.choice(one_in if rng.random() < 0.4 else many_in)
            m = {"one": 1, "ab": 2}.get(eems.COMMANDS[cmd][1]) or rng.choice([1, 2, 2, 3])
            if cmd == "FuzzyXOr":
                m = max(m, 2)
            ins = [rng.choice(fields) for _ in range(m)]
            cases.append(eems.Case(cmd, eems.gen_params(rng, cmd, ins, "valid"), ins))
        # (single-input FuzzyOr / FuzzyAnd hand their input back and limit it in place: for a field holding values outside [-1, 1] - a Normalize or Sum result -
        # that limiting is not held against them, see DESIGN.md 9.4 "Rerun twin": those cases are evaluated on copies of the fields)
        def on_the_fields(c):
            return not (c.cmd in ("FuzzyOr", "FuzzyAnd") and len(c.inputs) == 1)
        before = []
        for c in cases:
            o = eems.run_impl(c, copy_inputs=not on_the_fields(c))
            orc(c, o, None)
            before.append(o)
        rot = i // len(kinds) % k
        order = list(range(k))[rot:] + list(range(k))[:rot]
        prods = [eems.Producer(fields[j], "f%d" % j, False) for j in order]
        try:
            with contextlib.redirect_stdout(io.StringIO()):
                if kind == "netcdf":
                    tpl, outp = os.path.join(tmp, "tpl%d.nc" % (i % 4)), os.path.join(tmp, "out%d.nc" % (i % 4))
                    c18.make_template(tpl, shape, rng)
                    if os.path.exists(outp):
                        os.remove(outp)
                    NcWrite("W", []).execute(OutFileName=outp, OutFieldNames=prods, DimensionFileName=tpl, DimensionFieldName="elev")
                elif kind == "csv":
                    CsvWrite("W", []).execute(OutFileName=os.path.join(tmp, "out%d.csv" % (i % 4)), OutFieldNames=prods)
                elif kind == "print":
                    PrintVars("P", []).execute(InFieldNames=prods)
                else:
                    PrintVars("P", []).execute(InFieldNames=prods, OutFileName=os.path.join(tmp, "vars%d.txt" % (i % 4)))
            outcome = "done"
        except Exception as e:           # noqa  (a writer that fails is not this check's business; what the fields are afterwards is)
            outcome = "failed with " + type(e).__name__
        ctx.case("write-between %s %r %r %r" % (kind, shape, order, [c.line() for c in cases]), sample=None)
        ctx.count("c03_write_between:" + kind)
        ctx.count("c03_write_between_outcome:" + outcome.split(" ")[0])
        i += 1
        for c, o1 in zip(cases, before):
            o2 = eems.run_impl(c, copy_inputs=not on_the_fields(c))
            desc = dict(eems.Case(c.cmd, c.params, [snaps[[id(f) for f in fields].index(id(a))] for a in c.inputs]).describe(),
                        sequence="%d fields written with %s (%s) in the order %r, the command evaluated over the same fields before and after" % (k, kind, outcome, order),
                        fields=["f%d: %s; missing cells %r" % (j, origin[j], numpy.ma.getmaskarray(snaps[j]).astype(int).ravel().tolist()) for j in range(k)],
                        uses=[[id(f) for f in fields].index(id(a)) for a in c.inputs])
            d = numeric.same_outcome(o1, o2)
            if d and o1["status"] == "ok" and o2["status"] == "ok" and o1["vis"][3] is not None and o2["vis"][3] is not None and len(o1["vis"][3]) == len(o2["vis"][3]):
                gone = [q for q, (x, y) in enumerate(zip(o1["vis"][3], o2["vis"][3])) if (x is None) != (y is None)]
                if gone:
                    q = gone[0]
                    union = [any(numpy.ma.getmaskarray(snaps[u]).ravel()[q] for u in desc["uses"])]
                    ctx.fail("%s over fields %r, evaluated after a %s write of the fields %r: cell %d is %s - before the write the same command over the same fields had it %s; "
                             "the cell is missing in %s of its inputs" % (c.cmd, desc["uses"], kind, order, q, "missing" if o2["vis"][3][q] is None else "present (%r)" % o2["vis"][3][q],
                                                                         "missing" if o1["vis"][3][q] is None else "present (%r)" % o1["vis"][3][q], "one" if union[0] else "none"), desc)
                    break
            if d:
                ctx.fail("%s over fields %r gives another outcome after a %s write of the fields %r than before it (%s)" % (c.cmd, desc["uses"], kind, order, d), desc)
                break
    # whole Programs: variables read from a dataset / columns read from a table, commands over them, the write, the same commands again (leaves are run in
    # the order in which they are written down, every field is read once): After_x is missing exactly where Before_x is
    calls = ["Copy(InFieldName = A)", "Multiply(InFieldNames = [A, A])", "Sum(InFieldNames = [A, B])", "Maximum(InFieldNames = [C, A, B])", "Copy(InFieldName = B)",
             "CvtToFuzzy(InFieldName = A, TrueThreshold = 10, FalseThreshold = 0)", "Normalize(InFieldName = C)", "ADividedByB(A = C, B = A)", "AMinusB(A = B, B = C)", "Mean(InFieldNames = [C, C])"]
    for lib in ("netcdf", "csv"):
        for rot in range(3):
            shape = rng.choice([(3, 4), (2, 6), (12,)]) if lib == "netcdf" else (12,)
            d = os.path.join(tmp, "prog_%s%d" % (lib, rot))
            os.makedirs(d, exist_ok=True)
            cols = {}
            for j, nm in enumerate("abc"):
                m = numpy.array(eems.rand_mask(rng, 12, rng.choice(["one", "some"])))
                m[:3] = [q == j for q in range(3)]
                cols[nm] = numpy.ma.array(numpy.array([float(rng.randrange(1, 20)) for _ in range(12)]).reshape(shape), mask=m.reshape(shape))
            listed = ["A", "B", "C"][rot:] + ["A", "B", "C"][:rot]
            if lib == "netcdf":
                dims = ["d%d" % q for q in range(len(shape))]
                with Dataset(os.path.join(d, "in.nc"), "w") as ds:
                    for dn, sz in zip(dims, shape):
                        ds.createDimension(dn, sz)
                        ds.createVariable(dn, "f8", (dn,))[:] = [1.5 * (q + 1) for q in range(sz)]
                    for nm in "abc":
                        ds.createVariable(nm, "f8", tuple(dims), fill_value=-9999.0)[:] = cols[nm]
                src = "".join('%s = EEMSRead(InFileName = "in.nc", InFieldName = %s)\n' % (nm.upper(), nm) for nm in "abc")
                wr = 'W = EEMSWrite(OutFileName = "out.nc", OutFieldNames = [%s], DimensionFileName = "in.nc", DimensionFieldName = a)\n' % ", ".join(listed)
            else:
                with open(os.path.join(d, "in.csv"), "w") as f:
                    f.write("a,b,c\n" + "".join(",".join("-9999" if numpy.ma.getmaskarray(cols[nm])[q] else repr(float(cols[nm].data[q])) for nm in "abc") + "\n" for q in range(12)))
                src = "".join('%s = EEMSRead(InFileName = "in.csv", InFieldName = %s, MissingVal = -9999)\n' % (nm.upper(), nm) for nm in "abc")
                wr = 'W = EEMSWrite(OutFileName = "out.csv", OutFieldNames = [%s])\n' % ", ".join(listed)
            wr += 'P = PrintVars(InFieldNames = [%s], OutFileName = "vars.txt")\n' % ", ".join(reversed(listed))
            src += "".join("Before%d = %s\n" % (q, c) for q, c in enumerate(calls)) + wr + "".join("After%d = %s\n" % (q, c) for q, c in enumerate(calls))
            desc = {"source": src, "fields": {nm: repr(cols[nm].tolist()) for nm in "abc"}, "shape": list(shape)}
            ctx.case("write-between-program %s %d %r" % (lib, rot, desc["fields"]), sample={"source": src})
            ctx.count("c03_write_between_programs")
            try:
                with numpy.errstate(all="ignore"), contextlib.redirect_stdout(io.StringIO()):
                    p = Program.from_source(src, libraries=EEMS_NETCDF_LIBRARIES if lib == "netcdf" else EEMS_CSV_LIBRARIES, working_dir=d)
                    p.run()
                    res = {nm: p.commands[nm].result for nm in p.commands if nm.startswith(("Before", "After"))}
            except Exception as e:
                ctx.fail("a Program that reads three fields, computes, writes them (%s) and computes again fails: %s %s" % (lib, type(e).__name__, str(e)[:160]), desc)
                continue
            for q, c in enumerate(calls):
                b, a = res["Before%d" % q], res["After%d" % q]
                bm, am = numpy.ma.getmaskarray(b), numpy.ma.getmaskarray(a)
                if b.shape != a.shape or not numpy.array_equal(bm, am):
                    ctx.fail("in a Program (%s library) %s evaluated after EEMSWrite / PrintVars of [%s] is missing at cells %r, evaluated before them at cells %r (same command, same fields)" % (
                        lib, c, ", ".join(listed), numpy.flatnonzero(am.ravel()).tolist(), numpy.flatnonzero(bm.ravel()).tolist()), desc)
                    break
                if not numpy.allclose(numpy.ma.getdata(a)[~am], numpy.ma.getdata(b)[~bm], rtol=1e-9, atol=1e-9):
                    ctx.fail("in a Program (%s library) %s evaluated after EEMSWrite / PrintVars of [%s] gives other values than evaluated before them" % (lib, c, ", ".join(listed)), desc)
                    break


def run(ctx):
    ctx.check_proofs(["MPilot.Props.C03"])
    model = common.Model()
    orc = numeric.oracle_c03(ctx)
    n = ctx.budget(14, 600)
    eems.run_stream(ctx, model, gen(ctx, list(eems.COMMANDS), n), "exec:all-commands:masks", on_result=orc)
    eems.run_stream(ctx, model, zero_weights(ctx), "exec:zero-weights", on_result=orc)
    numeric.focus_search(ctx, model, lambda cmds, f: gen(ctx, cmds, n * f), orc)
    readers(ctx)
    netcdf_round_trip(ctx)
    writers_between(ctx)
    printed_fields(ctx)
    return ctx.finish(
        rule="cases = (data command, parameters, inputs with masks none/one/some/most and adversarial hidden payloads ±1e20, "
             "category keys, control points); each masked case is re-run with different payloads; distinct by protocol line; "
             "non-trivial = result array or an MPilotError",
        explanation="theorems in Props/C03.lean hold for the model for all inputs; model tied to the 31 execute bodies by differential "
                    "execution; mask-superset, undefined-only and payload-twin oracles run on every implementation result")


def replay(path):
    from .c04 import replay as r
    return r(path)
