"""C03 — missing data stays missing and never leaks into valid results.

proof:          lean/MPilot/Props/C03.lean
correspondence: every data command, inputs with random masks (none/one/some/most) and adversarial hidden payloads
oracles:        mask ⊇ union of input masks; extra missing cells only where the operation is undefined;
                re-run with different hidden payloads under the same masks → identical visible result
"""
from .. import common, eems
from . import numeric


def gen(ctx, cmds, n):
    cases = []
    for cmd in cmds:
        for i in range(n):
            ms = ctx.rng.choice(["one", "some", "some", "most", "none"])
            cases.append(eems.gen_case(ctx.rng, cmd, style="valid" if i % 4 else "wild", mask_style=ms))
    return cases


def zero_weights(ctx):
    """weighted commands with a weight of 0 at every position: an input that contributes nothing still contributes its missing cells"""
    import numpy
    cases = []
    for cmd, lat in (("WeightedSum", [2.0, -1.0, 0.5]), ("WeightedMean", [2.0, -1.0, 0.5]), ("FuzzyWeightedUnion", [1.0, -1.0, 0.5])):
        for weights in ([1, 0, 2], [0, 1, 1], [1, 1, 0], [0.0, 2, 1], [1, 0.0, 0], [2, 0]):
            n = len(weights)
            ins = []
            for k in range(n):
                mask = [j == k for j in range(4)]          # input k is missing at cell k only; cell 3 is present everywhere
                ins.append(numpy.ma.array(numpy.array([lat[(j + k) % 3] for j in range(4)]), mask=mask))
            cases.append(eems.Case(cmd, {"Weights": list(weights)}, ins))
    return cases


def readers(ctx):
    """the two readers: cells the file marks as missing stay missing whatever MissingValue says; exactly the cells equal to the declared
    missing value are added; downstream commands never see the hidden numbers"""
    import os
    import numpy
    from . import c17, c18
    rng = ctx.rng
    tmp = common.tmpdir("mpv_c03_")
    for i in range(ctx.budget(12, 400)):
        shape = rng.choice(c18.SHAPES)
        n = int(numpy.prod(shape))
        tname = rng.choice([None, "Float", "Integer", "Positive Float", "Positive Integer", "Fuzzy"])
        # incl. valid values close to a marker (7, 2, 0, -12345 below): they are data, not missing cells
        pool = [-9999.0, -1.0, 0.0, 0.5, 1.0, 2.0, 7.0, 7.00001, 6.99995, 2.00001, 4e-9, -4e-9, -12345.05, -12344.95, 2.0000000001]
        if tname in ("Positive Float", "Positive Integer"):
            pool = [0.0, 0.5, 1.0, 2.0, 7.0, 7.00001, 6.99995, 2.00001, 4e-9]          # admissible for the declared type: only the payload under missing cells is not
        if tname == "Fuzzy":
            pool = [-1.0, -0.5, 0.0, 0.5, 1.0, 4e-9, -4e-9]
        vals = [rng.choice(pool) for _ in range(n)]
        mask = eems.rand_mask(rng, n, rng.choice(["one", "some"]))
        arr = numpy.ma.array(numpy.array(vals).reshape(shape), mask=numpy.array(mask).reshape(shape))
        path = os.path.join(tmp, "v%d.nc" % (i % 5))
        c18.make_var_file(path, shape, arr, fill=rng.choice([-9999.0, None, 1e30]))
        missing = rng.choice([None, 7, 0, 2.0, -12345])
        out = c18.read_impl(path, "v", tname, missing)
        ctx.case("ncreader %r %r %r" % (vals, mask, missing), sample=None)
        ctx.count("reader_cases:netcdf")
        desc = {"values": vals, "file_missing": mask, "MissingValue": missing, "shape": shape, "DataType": tname}
        if out[0] != "ok":
            ctx.fail("NetCDF EEMSRead failed: %s" % (out[1],), desc)
            continue
        gm = numpy.ma.getmaskarray(out[1]).ravel().tolist()
        from netCDF4 import Dataset
        with Dataset(path) as ds:           # what the file itself marks as missing (cells stored as the fill value), per the library
            mask = numpy.ma.getmaskarray(ds["v"][:]).ravel().tolist()
        desc["file_missing"] = mask
        conv = (lambda x: float(numpy.rint(x))) if tname in ("Integer", "Positive Integer") else float
        mv = None if missing is None else (float(int(missing)) if tname in ("Integer", "Positive Integer") else float(missing))
        want = [m or (mv is not None and conv(v) == mv) for v, m in zip(vals, mask)]
        if gm != want:
            ctx.fail("NetCDF EEMSRead: missing cells %r; the file marks %r missing and MissingValue=%r adds exactly the equal cells: %r" % (gm, mask, missing, want), desc)
    for i in range(ctx.budget(12, 400)):
        n = rng.randrange(1, 9)
        vals = [rng.choice([-9999, -1, 0, 1, 2, 7, 2.5, -9998.95, -9999.05, 4e-9, 2.00001, 2.5000001]) for _ in range(n)]      # incl. valid values close to a marker
        path = os.path.join(tmp, "c%d.csv" % (i % 5))
        open(path, "w").write("a,b\n" + "".join("%r,%r\n" % (v, 1) for v in vals))
        missing = rng.choice([None, -9999, 2, 2.5, 0])
        integer = rng.choice([None, False, True])
        out = c17.read_impl(path, "a", missing, integer)
        ctx.case("csvreader %r %r %r" % (vals, missing, integer), sample=None)
        ctx.count("reader_cases:csv")
        if out[0] != "ok":
            ctx.fail("CSV EEMSRead failed: %s" % (out[1],), {"values": vals})
            continue
        conv = (lambda x: float(int(x))) if integer else float
        want = [missing is not None and conv(v) == conv(missing) for v in vals]
        if numpy.ma.getmaskarray(out[1]).tolist() != want:
            ctx.fail("CSV EEMSRead: missing cells %r, expected %r for MissingVal=%r" % (numpy.ma.getmaskarray(out[1]).tolist(), want, missing), {"values": vals, "DataType": integer})


def netcdf_round_trip(ctx):
    """a variable read from a NetCDF dataset, converted by one command, written to a dataset and read back through the library: the cells missing in
    what comes back are exactly the cells missing in what the command computed (no valid cell is lost to a fill value on the way), values unchanged"""
    import os
    import numpy
    from netCDF4 import Dataset
    from mpilot.program import Program, EEMS_NETCDF_LIBRARIES
    from . import c18
    rng = ctx.rng
    tmp = common.tmpdir("mpv_c03n_")
    ops = [("CvtToBinary", {"Threshold": 0.25, "Direction": "LowToHigh"}), ("CvtToBinary", {"Threshold": 1, "Direction": "HighToLow"}),
           ("CvtToFuzzy", {"TrueThreshold": 3, "FalseThreshold": -1}), ("CvtToFuzzy", {}), ("Normalize", {}), ("Normalize", {"StartVal": 1, "EndVal": 0}), ("Copy", {}),
           ("CvtToFuzzyCat", {"RawValues": [1, 3], "FuzzyValues": [1, -1], "DefaultFuzzyValue": 0}), ("NormalizeCat", {"RawValues": [1, 0], "NormalValues": [1, 0], "DefaultNormalValue": 1}),
           ("CvtToFuzzyCurve", {"RawValues": [-1, 1, 3], "FuzzyValues": [-1, 1, 0]}), ("NormalizeZScore", {}), ("CvtToFuzzyZScore", {"TrueThresholdZScore": 1, "FalseThresholdZScore": -1})]
    for i, (cmd, params) in enumerate(ops * (1 if not ctx.thorough else 4)):
        shape = rng.choice(c18.SHAPES)
        n = int(numpy.prod(shape))
        d = os.path.join(tmp, "rt%d" % (i % 3))
        os.makedirs(d, exist_ok=True)
        inp, outp = os.path.join(d, "in.nc"), os.path.join(d, "out.nc")
        for f in (inp, outp):
            if os.path.exists(f):
                os.remove(f)
        vals = [rng.choice([-2.5, -1.0, 0.0, 0.25, 1.0, 3.0, 7.5]) for _ in range(n)]
        if len(set(vals)) < 2:
            vals[0] = 5.0
        a = numpy.ma.array(numpy.array(vals).reshape(shape), mask=numpy.array(eems.rand_mask(rng, n, rng.choice(["none", "one", "some"]))).reshape(shape))
        dims = ["d%d" % k for k in range(len(shape))]
        with Dataset(inp, "w") as ds:
            for dn, m in zip(dims, shape):
                ds.createDimension(dn, m)
                ds.createVariable(dn, "f8", (dn,))[:] = [1.5 * (k + 1) for k in range(m)]
            ds.createVariable("a", "f8", tuple(dims), fill_value=rng.choice([None, -9999.0, 1e30]))[:] = a
        ref = eems.run_impl(eems.Case(cmd, params, [a.copy()]))
        args = "".join(", %s = %s" % (k, v if not isinstance(v, list) else "[" + ", ".join(str(x) for x in v) + "]") for k, v in params.items())
        src = ('A = EEMSRead(InFileName = "in.nc", InFieldName = a)\nR = %s(InFieldName = A%s)\n'
               'Out = EEMSWrite(OutFileName = "out.nc", OutFieldNames = [R], DimensionFileName = "in.nc", DimensionFieldName = a)\n' % (cmd, args))
        desc = {"source": src, "a": a.tolist(), "shape": shape}
        ctx.case("nc-round-trip %r" % (desc,), sample={"source": src})
        ctx.count("netcdf_round_trips")
        if ref["status"] != "ok":
            continue
        try:
            with numpy.errstate(all="ignore"):
                p = Program.from_source(src, libraries=EEMS_NETCDF_LIBRARIES, working_dir=d)
                p.run()
            with Dataset(outp) as ds:
                got = ds["R"][:]
        except Exception as e:
            ctx.fail("read, convert, write, read back fails: %s %s" % (type(e).__name__, str(e)[:160]), desc)
            continue
        want = ref["result"]
        wm, gm = numpy.ma.getmaskarray(want), numpy.ma.getmaskarray(got)
        if got.shape != want.shape or not numpy.array_equal(wm, gm):
            ctx.fail("%s of a NetCDF variable, written and read back: missing at %r, the command's result is missing at %r (values %r)" % (
                cmd, gm.astype(int).ravel().tolist(), wm.astype(int).ravel().tolist(), numpy.ma.getdata(want).ravel().tolist()), desc)
        elif not numpy.allclose(numpy.ma.getdata(got)[~wm], numpy.ma.getdata(want)[~wm], rtol=1e-12, atol=0):
            ctx.fail("%s of a NetCDF variable: values changed between computing, writing and reading back" % cmd, desc)


def run(ctx):
    ctx.check_proofs(["MPilot.Props.C03"])
    model = common.Model()
    orc = numeric.oracle_c03(ctx)
    n = ctx.budget(14, 600)
    eems.run_stream(ctx, model, gen(ctx, list(eems.COMMANDS), n), "exec:all-commands:masks", on_result=orc)
    eems.run_stream(ctx, model, zero_weights(ctx), "exec:zero-weights", on_result=orc)
    numeric.focus_search(ctx, model, lambda cmds, f: gen(ctx, cmds, n * f), orc)
    readers(ctx)
    netcdf_round_trip(ctx)
    return ctx.finish(
        rule="cases = (data command, parameters, inputs with masks none/one/some/most and adversarial hidden payloads ±1e20, "
             "category keys, control points); each masked case is re-run with different payloads; distinct by protocol line; "
             "non-trivial = result array or an MPilotError",
        explanation="theorems in Props/C03.lean hold for the model for all inputs; model tied to the 31 execute bodies by differential "
                    "execution; mask-superset, undefined-only and payload-twin oracles run on every implementation result")


def replay(path):
    from .c04 import replay as r
    return r(path)
