"""C05 — results keep the input shape; cells are computed independently.

proof:          lean/MPilot/Props/C05.lean
correspondence: every data command on shapes of rank 1-3 including length-1 axes
oracles:        result.shape == input shape; a common permutation / reshape of the input cells permutes / reshapes the result;
                the same for the statistic-driven commands on fields of small spread about a large mean (float32 / float64, 600 .. 10^6 cells)
"""
import numpy

from .. import common, eems
from . import numeric


def grids(ctx, cmds):
    """every pair (and triple, on a coarser lattice) of lattice values incl. missing laid out on 2-D and 3-D grids: ties, cells where
    every input is fully false / fully true, and missing cells all occur next to ordinary cells of the same row and column"""
    from .c06 import lattice_arrays
    from fractions import Fraction
    cases = []
    for cmd in cmds:
        lib, how, _ = eems.COMMANDS[cmd]
        for n, step, shapes in ((1, Fraction(1, 4), [(2, 5), (5, 2)]), (2, Fraction(1, 2), [(6, 6), (4, 9), (2, 3, 6)]), (3, Fraction(1), [(8, 8), (4, 4, 4)])):
            if (how == "one") != (n == 1) or (how == "ab" and n != 2) or (cmd == "FuzzyXOr" and n < 2):
                continue
            arrs = lattice_arrays(n, step)
            shape = ctx.rng.choice(shapes)
            inputs = [numpy.ma.array(numpy.ma.getdata(a).reshape(shape).copy(), mask=numpy.ma.getmaskarray(a).reshape(shape).copy()) for a in arrs]
            cases.append(eems.Case(cmd, eems.gen_params(ctx.rng, cmd, inputs, "valid"), inputs))
    # long input lists on grids of rank 2 and 3 (every list command)
    for cmd in cmds:
        if eems.COMMANDS[cmd][1] != "list":
            continue
        for shape in ((2, 3), (3, 1), (2, 2, 2)):
            k = ctx.rng.choice([9, 10, 16])
            cases.append(eems.gen_case(ctx.rng, cmd, style="valid", shape=shape, n=k))
    return cases


def gen(ctx, cmds, n):
    cases = grids(ctx, cmds)
    for cmd in cmds:
        for i in range(n):
            cases.append(eems.gen_case(ctx.rng, cmd, style="valid", shape=eems.rand_shape(ctx.rng)))
    return cases


STAT_DRIVEN = [("NormalizeZScore", {"TrueThresholdZScore": 2, "FalseThresholdZScore": -2, "StartVal": 0, "EndVal": 1}), ("NormalizeZScore", {"TrueThresholdZScore": -1, "FalseThresholdZScore": 1.5, "StartVal": -3, "EndVal": 7}),
               ("NormalizeCurveZScore", {"ZScoreValues": [-2, 0, 2], "NormalValues": [0, 0.6, 1]}), ("CvtToFuzzyZScore", {"TrueThresholdZScore": 1.5, "FalseThresholdZScore": -1}),
               ("CvtToFuzzyCurveZScore", {"ZScoreValues": [-2, 0.5, 2], "FuzzyValues": [-1, 0.2, 1]}), ("NormalizeMeanToMid", {"IgnoreZeros": False, "NormalValues": [0, 0.25, 0.5, 0.75, 1]}),
               ("CvtToFuzzyMeanToMid", {"IgnoreZeros": True, "FuzzyValues": [-1, -0.5, 0, 0.5, 1]}), ("Normalize", {"StartVal": 0, "EndVal": 1}), ("CvtToFuzzy", {})]


def offset_fields(ctx):
    """the commands whose mapping is driven by a statistic of the whole field (mean, standard deviation, minimum, maximum) on fields whose spread is small next
    to their magnitude - single-precision grids such as elevations 2000 +- 5, double-precision ones with |mean| / std of 10^6 and more, 600 to 10^6 cells, rank 1-3,
    with and without missing cells: the statistics are symmetric functions of the cells, so a permuted (random, reversed, sorted) or reshaped field gives the permuted /
    reshaped result.  A mean can be no better than the data: the cells are given to eps * |x|, which is eps * |mean| / std in units of the standard deviation - the
    tolerance is 32 times that (the pinned code stays below 3 times, measured over this ladder; a mean / deviation accumulated in one pass, E[x^2] - mean^2, is off
    by that figure times |mean| / std once more: thousands of times), missing cells and shapes exactly"""
    rng = eems._rng2(ctx)
    seed = rng.randrange(2 ** 31)
    nr = numpy.random.RandomState(seed)
    kinds = [(numpy.float32, 2000, 5), (numpy.float32, 300, 0.5), (numpy.float32, -5000, 3), (numpy.float32, 1e4, 20), (numpy.float64, 1e7, 5), (numpy.float64, -3e8, 20), (numpy.float64, 1e9, 100)]
    shapes = [(600,), (20, 30), (4, 10, 15), (1, 2500), (150, 200), (3, 100, 120)]
    fields = [(k, shapes[(i + j) % len(shapes)], (i + j) % 2 == 1) for i, k in enumerate(kinds) for j in range(3)]
    fields += [(kinds[0], (1000, 1000), False), (kinds[4], (700, 600), True)] + ([(kinds[3], (2000, 1500), True)] if ctx.thorough else [])
    for k_, ((dt, base, spread), shape, missing) in enumerate(fields):
        seed, nr = seed + 1, numpy.random.RandomState(seed + 1)       # (one generator per field: what the replay names rebuilds the field)
        f = numpy.ma.array((base + spread * nr.randn(*shape)).astype(dt), mask=(nr.rand(*shape) < 0.1) if missing else numpy.ma.nomask)
        n = f.size
        vis = f.compressed().astype(float)
        tol = 32 * float(numpy.finfo(dt).eps) * (1 + abs(vis.mean()) / vis.std())
        fd, fm = numpy.ma.getdata(f).ravel(), numpy.ma.getmaskarray(f).ravel()
        twins = [("a random permutation of the cells", nr.permutation(n), shape), ("the cells in reverse order", numpy.arange(n)[::-1], shape), ("the cells sorted by value", numpy.argsort(fd, kind="stable"), shape),
                 ("the grid reshaped", numpy.arange(n), rng.choice([s for s in ((n,), (1, n), (n // 2, 2), (5, n // 5), (2, 1, n // 2)) if s != shape]))]
        for cmd, params in (STAT_DRIVEN if n <= 100000 else STAT_DRIVEN[:1] + STAT_DRIVEN[2:5]):
            st, ref = eems.execute_on(cmd, params, [f.copy()])
            desc = {"cmd": cmd, "params": {k: repr(v) for k, v in params.items()}, "field": "(%g + %g * nr.randn(*%r)).astype(%s)%s, nr = numpy.random.RandomState(%d)" % (base, spread, shape, numpy.dtype(dt).name, ", missing where nr.rand(*shape) < 0.1" if missing else "", seed),
                    "first_cells": repr(fd[:6].tolist()), "tolerance": tol}
            ctx.case("offset-field %s %r %s %r %r %s" % (cmd, sorted(params.items()), numpy.dtype(dt).name, (base, spread), shape, missing), sample=None)
            if st != "ok" or not isinstance(ref, numpy.ndarray) or ref.shape != tuple(shape):
                ctx.fail("%s on a %s field of shape %r (values %g +- %g): %s" % (cmd, numpy.dtype(dt).name, shape, base, spread, "%s: %s" % (type(ref).__name__, str(ref)[:80]) if st != "ok" else "result of shape %r" % (getattr(ref, "shape", None),)), desc)
                continue
            rd, rm = numpy.ma.getdata(ref).ravel().astype(float), numpy.ma.getmaskarray(ref).ravel()
            for what, perm, new in twins:
                st, r = eems.execute_on(cmd, params, [numpy.ma.array(fd[perm].reshape(new), mask=fm[perm].reshape(new))])
                ctx.count("c05_offset_field_twins")
                if st != "ok" or not isinstance(r, numpy.ndarray) or r.shape != tuple(new):
                    ctx.fail("%s on a %s field of shape %r (values %g +- %g), %s %r: %s" % (cmd, numpy.dtype(dt).name, shape, base, spread, what, new, "%s: %s" % (type(r).__name__, str(r)[:80]) if st != "ok" else "result of shape %r" % (getattr(r, "shape", None),)), dict(desc, twin=what))
                    break
                gd, gm = numpy.ma.getdata(r).ravel().astype(float), numpy.ma.getmaskarray(r).ravel()
                if not numpy.array_equal(gm, rm[perm]):
                    ctx.fail("%s on a %s field of shape %r (values %g +- %g), %s: other cells are missing in the result" % (cmd, numpy.dtype(dt).name, shape, base, spread, what), dict(desc, twin=what))
                    break
                with numpy.errstate(all="ignore"):
                    bad = ~(numpy.abs(gd - rd[perm]) <= tol * numpy.maximum(1.0, numpy.abs(rd[perm]))) & ~gm
                if bad.any():
                    i = int(numpy.flatnonzero(bad)[numpy.argmax(numpy.abs(gd - rd[perm])[bad])])
                    ctx.fail("%s on a %s field of shape %r (values %g +- %g, |mean| / std = %.3g), %s: the cell holding %r is mapped to %r, in the original arrangement to %r (%d of %d cells differ by more than %.3g; "
                             "largest difference %.3g) - the result depends on where the cells are" % (cmd, numpy.dtype(dt).name, shape, base, spread, abs(vis.mean()) / vis.std(), what, fd[perm][i].item(), gd[i], rd[perm][i],
                                                                                                     int(bad.sum()), n, tol, float(numpy.abs(gd - rd[perm])[bad].max())), dict(desc, twin=what))
                    break


def run(ctx):
    ctx.check_proofs(["MPilot.Props.C05", "MPilot.Props.C05Tile"])
    model = common.Model()
    orc = numeric.oracle_c05(ctx)
    n = ctx.budget(12, 500)
    eems.run_stream(ctx, model, gen(ctx, list(eems.COMMANDS), n), "exec:all-commands:shapes", on_result=orc)
    # every command once on a large grid (beyond 2^12 and 2^16 cells, where a size-dependent code path would start)
    for cmd in eems.COMMANDS:
        for shape, k in (((5,), 1000), ((3, 4), 6000)):
            c = eems.gen_case(ctx.rng, cmd, style="valid", shape=shape)
            o = eems.run_impl(c)
            ctx.case("large " + c.line() + " x%d" % k, sample=None)
            if o["status"] == "ok" and o["vis"][3] is not None:
                eems.tile_twin(ctx, c, o, k)
    offset_fields(ctx)
    # long category tables and curves (40 .. 1000 entries, unsorted) on vectors and on grids of rank 2 and 3: the shape is kept whatever the length of a list
    eems.run_stream(ctx, model, eems.long_table_cases(eems._rng2(ctx)), "exec:long-tables:shapes", on_result=orc)
    numeric.focus_search(ctx, model, lambda cmds, f: gen(ctx, cmds, n * f), orc)
    return ctx.finish(
        rule="cases = (data command, parameters, 1-5 inputs of one shape drawn from rank 1-3 shapes incl. length-1 axes); every case "
             "is re-run on a random common permutation of the cells and on a reshaped copy; distinct by protocol line",
        explanation="theorems in Props/C05.lean (shape preservation, permutation equivariance) hold for the model; differential "
                    "execution ties the model to the code; shape/permutation/reshape oracles run on the implementation")


def replay(path):
    from .c04 import replay as r
    return r(path)
