"""C05 — results keep the input shape; cells are computed independently.

proof:          lean/MPilot/Props/C05.lean
correspondence: every data command on shapes of rank 1-3 including length-1 axes
oracles:        result.shape == input shape; a common permutation / reshape of the input cells permutes / reshapes the result
"""
import numpy

from .. import common, eems
from . import numeric


def grids(ctx, cmds):
    """every pair (and triple, on a coarser lattice) of lattice values incl. missing laid out on 2-D and 3-D grids: ties, cells where
    every input is fully false / fully true, and missing cells all occur next to ordinary cells of the same row and column"""
    from .c06 import lattice_arrays
    from fractions import Fraction
    cases = []
    for cmd in cmds:
        lib, how, _ = eems.COMMANDS[cmd]
        for n, step, shapes in ((1, Fraction(1, 4), [(2, 5), (5, 2)]), (2, Fraction(1, 2), [(6, 6), (4, 9), (2, 3, 6)]), (3, Fraction(1), [(8, 8), (4, 4, 4)])):
            if (how == "one") != (n == 1) or (how == "ab" and n != 2) or (cmd == "FuzzyXOr" and n < 2):
                continue
            arrs = lattice_arrays(n, step)
            shape = ctx.rng.choice(shapes)
            inputs = [numpy.ma.array(numpy.ma.getdata(a).reshape(shape).copy(), mask=numpy.ma.getmaskarray(a).reshape(shape).copy()) for a in arrs]
            cases.append(eems.Case(cmd, eems.gen_params(ctx.rng, cmd, inputs, "valid"), inputs))
    # long input lists on grids of rank 2 and 3 (every list command)
    for cmd in cmds:
        if eems.COMMANDS[cmd][1] != "list":
            continue
        for shape in ((2, 3), (3, 1), (2, 2, 2)):
            k = ctx.rng.choice([9, 10, 16])
            cases.append(eems.gen_case(ctx.rng, cmd, style="valid", shape=shape, n=k))
    return cases


def gen(ctx, cmds, n):
    cases = grids(ctx, cmds)
    for cmd in cmds:
        for i in range(n):
            cases.append(eems.gen_case(ctx.rng, cmd, style="valid", shape=eems.rand_shape(ctx.rng)))
    return cases


def run(ctx):
    ctx.check_proofs(["MPilot.Props.C05", "MPilot.Props.C05Tile"])
    model = common.Model()
    orc = numeric.oracle_c05(ctx)
    n = ctx.budget(12, 500)
    eems.run_stream(ctx, model, gen(ctx, list(eems.COMMANDS), n), "exec:all-commands:shapes", on_result=orc)
    # every command once on a large grid (beyond 2^12 and 2^16 cells, where a size-dependent code path would start)
    for cmd in eems.COMMANDS:
        for shape, k in (((5,), 1000), ((3, 4), 6000)):
            c = eems.gen_case(ctx.rng, cmd, style="valid", shape=shape)
            o = eems.run_impl(c)
            ctx.case("large " + c.line() + " x%d" % k, sample=None)
            if o["status"] == "ok" and o["vis"][3] is not None:
                eems.tile_twin(ctx, c, o, k)
    # long category tables and curves (40 .. 1000 entries, unsorted) on vectors and on grids of rank 2 and 3: the shape is kept whatever the length of a list
    eems.run_stream(ctx, model, eems.long_table_cases(eems._rng2(ctx)), "exec:long-tables:shapes", on_result=orc)
    numeric.focus_search(ctx, model, lambda cmds, f: gen(ctx, cmds, n * f), orc)
    return ctx.finish(
        rule="cases = (data command, parameters, 1-5 inputs of one shape drawn from rank 1-3 shapes incl. length-1 axes); every case "
             "is re-run on a random common permutation of the cells and on a reshaped copy; distinct by protocol line",
        explanation="theorems in Props/C05.lean (shape preservation, permutation equivariance) hold for the model; differential "
                    "execution ties the model to the code; shape/permutation/reshape oracles run on the implementation")


def replay(path):
    from .c04 import replay as r
    return r(path)
