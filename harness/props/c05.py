"""C05 — results keep the input shape; cells are computed independently.

proof:          lean/MPilot/Props/C05.lean
correspondence: every data command on shapes of rank 1-3 including length-1 axes
oracles:        result.shape == input shape; a common permutation / reshape of the input cells permutes / reshapes the result
"""
from .. import common, eems
from . import numeric


def gen(ctx, cmds, n):
    cases = []
    for cmd in cmds:
        for i in range(n):
            cases.append(eems.gen_case(ctx.rng, cmd, style="valid", shape=eems.rand_shape(ctx.rng)))
    return cases


def run(ctx):
    ctx.check_proofs(["MPilot.Props.C05"])
    model = common.Model()
    orc = numeric.oracle_c05(ctx)
    n = ctx.budget(12, 500)
    eems.run_stream(ctx, model, gen(ctx, list(eems.COMMANDS), n), "exec:all-commands:shapes", on_result=orc)
    numeric.focus_search(ctx, model, lambda cmds, f: gen(ctx, cmds, n * f), orc)
    return ctx.finish(
        rule="cases = (data command, parameters, 1-5 inputs of one shape drawn from rank 1-3 shapes incl. length-1 axes); every case "
             "is re-run on a random common permutation of the cells and on a reshaped copy; distinct by protocol line",
        explanation="theorems in Props/C05.lean (shape preservation, permutation equivariance) hold for the model; differential "
                    "execution ties the model to the code; shape/permutation/reshape oracles run on the implementation")


def replay(path):
    from .c04 import replay as r
    return r(path)
