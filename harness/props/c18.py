"""C18 — NetCDF reading and writing are faithful (partial by nature: the netCDF4/HDF5 library is assumed, not modelled).

proof:          lean/MPilot/Props/C18.lean
correspondence: the real EEMSRead / EEMSWrite bodies on generated datasets (grids of rank 1-3, both element types, masks and fill values, 1-4 results
                written together, every combination of the optional read parameters) vs the model of the command logic
oracles:        written results read back (through the library directly and through EEMSRead) with the same shape, element kind and values, missing
                exactly where any written result was missing; the template's dimension variables and coordinate values copied unchanged; float by
                default; MissingValue masks exactly the equal cells (and keeps the file's own missing cells); positive and fuzzy checks raise;
                a ladder of grids from 3e5 to 5e6 cells of odd shapes, rank 1-3, four element types, written and read back (`grid_ladder`); models whose
                files are named relative to the current directory - bare `out.nc` - through Program(working_dir=""), the CLI and the body (`bare_relative_names`)
"""
import os
from fractions import Fraction

import numpy

from .. import common, eems
from ..common import enc_str

SHAPES = [(4,), (1,), (2, 3), (3, 1), (1, 1), (2, 2, 2), (1, 3, 2), (5, 2)]
TYPE_NAMES = [None, "Float", "Integer", "Positive Float", "Positive Integer", "Fuzzy"]


def make_template(path, shape, rng, packed=False):
    from netCDF4 import Dataset
    dims = ["d%d" % i for i in range(len(shape))]
    with Dataset(path, "w") as ds:
        for d, n in zip(dims, shape):
            ds.createDimension(d, n)
            if packed and d == dims[0]:
                v = ds.createVariable(d, "i2", (d,))
                v.scale_factor = 0.5
                v.add_offset = 100.0
                v[:] = [100.0 + 0.5 * k for k in range(n)]
            else:
                v = ds.createVariable(d, rng.choice(["f8", "f4", "i4"]), (d,))
                v[:] = [10 * (k + 1) + (0.5 if v.dtype.kind == "f" else 0) for k in range(n)]
            v.units = "m"
            v.long_name = "coordinate " + d
        e = ds.createVariable("elev", "f8", tuple(dims))
        e[:] = numpy.arange(int(numpy.prod(shape)), dtype=float).reshape(shape)
    return dims


def make_var_file(path, shape, arr, fill=None, vtype=None):
    """a file with one variable `v` holding arr (masked cells become fill values)"""
    from netCDF4 import Dataset
    dims = ["d%d" % i for i in range(len(shape))]
    with Dataset(path, "w") as ds:
        for d, n in zip(dims, shape):
            ds.createDimension(d, n)
        v = ds.createVariable("v", vtype or ("f8" if arr.dtype.kind == "f" else "i4"), tuple(dims), fill_value=fill)
        v[:] = arr


def read_impl(path, field, type_name, missing):
    """real NetCDF EEMSRead, evaluated the way a program evaluates it (arguments as written, cleaned by validate_params, body run by Command.run)"""
    from mpilot.libraries.eems.netcdf.io import EEMSRead
    from mpilot.arguments import Argument
    from mpilot.exceptions import MPilotError, UnexpectedError
    args = [Argument("InFileName", path, 3), Argument("InFieldName", field, 4)]
    if type_name is not None:
        args.append(Argument("DataType", type_name, 5))
    if missing is not None:
        args.append(Argument("MissingValue", missing, 6))
    try:
        with numpy.errstate(all="ignore"):
            return ("ok", EEMSRead("R", args, lineno=2).result)
    except UnexpectedError as e:
        return ("raw", type(e.exc).__name__, str(e.exc)[:200])
    except MPilotError as e:
        try:
            text = str(e)
        except Exception as e2:
            text = "<str() raised %s>" % type(e2).__name__
        return ("mp", type(e).__name__, text)
    except Exception as e:
        return ("raw", type(e).__name__, str(e)[:200])


PROGRAM_OPS = {
    "Sum": lambda a, b: a + b, "Mean": lambda a, b: (a + b) / 2.0, "Maximum": lambda a, b: numpy.ma.maximum(a, b), "Minimum": lambda a, b: numpy.ma.minimum(a, b),
    "Multiply": lambda a, b: a * b, "AMinusB": lambda a, b: a - b, "Copy": lambda a, b: a,
}


def programs(ctx, tmp):
    """whole command files for the NetCDF library, loaded with Program.from_source and run: variables read, combined by one or two data commands, the
    results written together and read back through the library - every written result holds what the command computed, missing exactly where
    any of the results written together is missing"""
    from netCDF4 import Dataset
    from mpilot.program import Program, EEMS_NETCDF_LIBRARIES
    from mpilot.exceptions import MPilotError
    rng = ctx.rng
    for i in range(ctx.budget(24, 600)):
        shape = rng.choice(SHAPES)
        n = int(numpy.prod(shape))
        d = os.path.join(tmp, "prog%d" % (i % 4))
        os.makedirs(d, exist_ok=True)
        inp, outp = os.path.join(d, "in.nc"), os.path.join(d, "out.nc")
        for f in (inp, outp):
            if os.path.exists(f):
                os.remove(f)
        dims = ["d%d" % k for k in range(len(shape))]
        arrs = {}
        with Dataset(inp, "w") as ds:
            for dn, m in zip(dims, shape):
                ds.createDimension(dn, m)
                v = ds.createVariable(dn, "f8", (dn,))
                v[:] = [10.5 * (k + 1) for k in range(m)]
            for nm in ("a", "b"):
                a = numpy.ma.array(numpy.array([rng.choice([-2.5, -1.0, 0.0, 0.25, 1.0, 3.0, 7.5]) for _ in range(n)]).reshape(shape),
                                   mask=numpy.array(eems.rand_mask(rng, n)).reshape(shape))
                v = ds.createVariable(nm, "f8", tuple(dims))
                v[:] = a
                arrs[nm] = a
        ops = [rng.choice(sorted(PROGRAM_OPS)) for _ in range(rng.choice([1, 2]))]
        want = {"A": arrs["a"], "B": arrs["b"]}
        lines = ['A = EEMSRead(InFileName = "in.nc", InFieldName = a)', 'B = EEMSRead(InFileName = "in.nc", InFieldName = b)']
        for k, op in enumerate(ops):
            x, y = rng.sample(sorted(want), 2)
            if op == "Copy":
                lines.append("R%d = Copy(InFieldName = %s)" % (k, x))
            elif op == "AMinusB":
                lines.append("R%d = AMinusB(A = %s, B = %s)" % (k, x, y))
            else:
                lines.append("R%d = %s(InFieldNames = [%s, %s])" % (k, op, x, y))
            want["R%d" % k] = PROGRAM_OPS[op](want[x], want[y])
        written = rng.sample(sorted(want), rng.randrange(1, len(want) + 1))
        lines.append('Out = EEMSWrite(OutFileName = "out.nc", OutFieldNames = [%s], DimensionFileName = "in.nc", DimensionFieldName = a)' % ", ".join(written))
        if rng.random() < 0.5:
            rng.shuffle(lines)          # the order of the commands in the file does not matter
        src = "\n".join(lines) + "\n"
        desc = {"source": src, "shape": shape, "a": arrs["a"].tolist(), "b": arrs["b"].tolist()}
        ctx.case("program %r" % (desc,), sample={"source": src})
        ctx.count("netcdf_programs")
        for op in ops:
            ctx.count("netcdf_program_op:" + op)
        try:
            with numpy.errstate(all="ignore"):
                p = Program.from_source(src, libraries=EEMS_NETCDF_LIBRARIES, working_dir=d)
                p.run()
        except (MPilotError, Exception) as e:
            ctx.fail("a NetCDF command file that reads, combines and writes results is rejected / fails: %s %s" % (type(e).__name__, str(e)[:160]), desc)
            continue
        if not os.path.exists(outp):
            ctx.fail("the command file ran but wrote no dataset", desc)
            continue
        union = numpy.zeros(shape, dtype=bool)
        for nm in written:
            union |= numpy.ma.getmaskarray(want[nm])
        with Dataset(outp) as ds:
            for nm in written:
                if nm not in ds.variables:
                    ctx.fail("result %s is not in the written dataset" % nm, desc); break
                got = ds[nm][:]
                if got.shape != tuple(shape) or not numpy.array_equal(numpy.ma.getmaskarray(got), union):
                    ctx.fail("result %s read back with shape %r, missing at %r; expected %r, %r" % (
                        nm, got.shape, numpy.ma.getmaskarray(got).astype(int).tolist(), shape, union.astype(int).tolist()), desc); break
                if not numpy.allclose(numpy.ma.getdata(got)[~union], numpy.ma.getdata(want[nm])[~union], rtol=1e-12, atol=0):
                    ctx.fail("values of result %s changed between computing, writing and reading back" % nm, desc); break
            for dn in dims:
                if dn not in ds.variables or not numpy.array_equal(numpy.ma.getdata(ds[dn][:]), numpy.array([10.5 * (k + 1) for k in range(ds[dn].shape[0])])):
                    ctx.fail("coordinate values of %s were not copied unchanged" % dn, desc); break


# grids from some hundred thousand to a few million cells, of rank 1-3, none of them a power of two along any axis (a writer or reader that works through a
# large grid piece by piece has a last, partial piece somewhere), stored as single / double precision and 16 / 32-bit integers
GRID_LADDER = [((700, 431), "f8", 2), ((1025, 1025), "i4", 1), ((1500, 900), "f4", 2), ((5, 300000), "f8", 1), ((3, 700001), "i2", 2), ((2100001,), "f4", 1), ((7, 501, 401), "f4", 2),
               ((1300003, 1), "i2", 1), ((1, 1300003), "f4", 1), ((2000, 1999), "f4", 1), ((2, 3, 350003), "i2", 1), ((2300, 2203), "i2", 1)]


def grid_ladder(ctx, tmp):
    """every grid of the ladder written (one result, or two with different missing cells) and read back - through the library and through EEMSRead: the shape,
    the element kind, every value, and missing exactly where a written result was missing.  (Values and missing cells are functions of the cell's position,
    so that a block of cells that is dropped, repeated or shifted shows.)"""
    from netCDF4 import Dataset
    from mpilot.libraries.eems.netcdf.io import EEMSWrite
    tpl, outp = os.path.join(tmp, "tpl_ladder.nc"), os.path.join(tmp, "out_ladder.nc")
    for shape, dt, k in GRID_LADDER:
        n = int(numpy.prod(shape))
        dims = ["d%d" % i for i in range(len(shape))]
        with Dataset(tpl, "w") as ds:
            for d, m in zip(dims, shape):
                ds.createDimension(d, m)
                v = ds.createVariable(d, "f4", (d,))
                v[:] = numpy.arange(m, dtype="f4") * 0.5 + 10
            ds.createVariable("grid", "i1", tuple(dims))             # (names the dimensions; holds nothing)
        idx = numpy.arange(n, dtype=numpy.int64)
        results = [numpy.ma.array((((idx + j) * 7919) % 1021 - 300).astype(dt).reshape(shape), mask=((idx % (53 + 44 * j)) == 7).reshape(shape)) for j in range(k)]
        names = ["g%d" % j for j in range(k)]
        union = numpy.zeros(shape, dtype=bool)
        for a in results:
            union |= numpy.ma.getmaskarray(a)
        desc = {"shape": shape, "cells": n, "element_type": dt, "results": k, "value_of_cell_i": "((i + j) * 7919) % 1021 - 300 for result j, i = position in row-major order",
                "missing_cells": "i % (53 + 44 * j) == 7"}
        ctx.case("write-ladder %r %s %d" % (shape, dt, k), sample=None)
        ctx.count("grid_ladder_cases")
        if os.path.exists(outp):
            os.remove(outp)
        try:
            EEMSWrite("W", []).execute(OutFileName=outp, OutFieldNames=[eems.Producer(a, nm, False) for a, nm in zip(results, names)], DimensionFileName=tpl, DimensionFieldName="grid")
        except Exception as e:
            ctx.fail("a grid of %s cells (%d in all) cannot be written: %s %s" % (" x ".join(map(str, shape)), n, type(e).__name__, str(e)[:100]), desc)
            continue

        def wrong(got, a, via):
            gm = numpy.ma.getmaskarray(got)
            if got.shape != tuple(shape):
                return "%s: shape %r" % (via, got.shape)
            if not numpy.array_equal(gm, union):
                extra, lost = gm & ~union, union & ~gm
                pos = numpy.argwhere(extra if extra.any() else lost)
                return "%s: %d cells written with values come back missing, %d missing cells come back with values (first at %r, last at %r)" % (
                    via, int(extra.sum()), int(lost.sum()), pos[0].tolist(), pos[-1].tolist())
            same = numpy.ma.getdata(got)[~union] == numpy.ma.getdata(a)[~union]
            if not same.all():
                return "%s: %d values differ" % (via, int((~same).sum()))
            return None
        with Dataset(outp) as ds:
            for nm, a in zip(names, results):
                bad = "not in the dataset" if nm not in ds.variables else None
                if bad is None:
                    got = ds[nm][:]
                    bad = "stored as %s" % got.dtype if (got.dtype.kind in "iu") != (a.dtype.kind in "iu") else wrong(got, a, "read through the library")
                if bad:
                    ctx.fail("a grid of %s cells (%s, %d results) written and read back: result %s %s" % (" x ".join(map(str, shape)), dt, k, nm, bad), desc)
                    break
            for d, m in zip(dims, shape):
                if d not in ds.variables or not numpy.array_equal(numpy.ma.getdata(ds[d][:]), numpy.arange(m, dtype="f4") * 0.5 + 10):
                    ctx.fail("a grid of %s cells: coordinate values of %s were not copied unchanged" % (" x ".join(map(str, shape)), d), desc)
                    break
        back = read_impl(outp, names[-1], "Integer" if dt[0] == "i" else None, None)
        bad = ("%s %s" % (back[1], back[2][:100])) if back[0] != "ok" else "element type %s" % back[1].dtype if back[1].dtype.kind != ("i" if dt[0] == "i" else "f") else wrong(back[1], results[-1], "read by EEMSRead")
        if bad:
            ctx.fail("a grid of %s cells (%s) written and read back: result %s %s" % (" x ".join(map(str, shape)), dt, names[-1], bad), desc)
        del results, idx, union


BARE_MODEL = """Elev = EEMSRead(InFileName = "%(in)s", InFieldName = "elev")
Slope = EEMSRead(InFileName = "%(in)s", InFieldName = "slope", MissingValue = -1)
Out = EEMSWrite(OutFileName = "%(out)s", OutFieldNames = [Elev, Slope], DimensionFileName = "%(in)s", DimensionFieldName = "elev")
"""


def bare_relative_names(ctx, tmp):
    """a model run from its own folder - `cd folder; mpilot eems-netcdf model.mpt`, `Program.from_source(text, working_dir="")` - names its files without any
    folder part (`out.nc`), or relative to it (`./out.nc`, `results/out.nc`): with the process's current directory there, the results are written and read
    back unchanged, like under absolute names.  (The current directory is put back afterwards.)"""
    from netCDF4 import Dataset
    from mpilot.cli.mpilot import main as cli_main
    from mpilot.program import Program, EEMS_NETCDF_LIBRARIES
    from mpilot.libraries.eems.netcdf.io import EEMSWrite
    from .. import clicorr
    d = os.path.join(tmp, "cwd")
    os.makedirs(os.path.join(d, "results"), exist_ok=True)
    ny, nx = 6, 9
    idx = numpy.arange(ny * nx).reshape(ny, nx)
    elev = numpy.ma.array((idx * 37 % 101) * 12.5, mask=(idx % 5 == 2))
    slope = ((idx * 11) % 45) * 1.0
    slope[idx % 7 == 3] = -1
    want_mask = numpy.ma.getmaskarray(elev) | (slope == -1)
    lat, lon = numpy.linspace(46.9, 46.8, ny), numpy.linspace(-110.9, -110.8, nx)
    with Dataset(os.path.join(d, "in.nc"), "w") as ds:
        ds.createDimension("lat", ny); ds.createDimension("lon", nx)
        v = ds.createVariable("lat", "f8", ("lat",)); v.units = "degrees_north"; v[:] = lat
        v = ds.createVariable("lon", "f8", ("lon",)); v.units = "degrees_east"; v[:] = lon
        ds.createVariable("elev", "f8", ("lat", "lon"), fill_value=-9999.0)[:] = elev
        ds.createVariable("slope", "f8", ("lat", "lon"))[:] = slope
    start = os.getcwd()
    os.chdir(d)
    try:
        for inn, out, how in (("in.nc", "out.nc", "program"), ("in.nc", "out.nc", "cli"), ("in.nc", "out.nc", "body"), ("./in.nc", "./out.nc", "program"), ("in.nc", "results/out.nc", "cli"),
                              ("in.nc", "out.nc", "program."), ("in.nc", "out.nc", "cli./"), ("in.nc", "results/../out2.nc", "program"), (os.path.join(d, "in.nc"), "out.nc", "cli")):
            src = BARE_MODEL % {"in": inn, "out": out}
            desc = {"source": src, "current_directory": "the folder that holds in.nc (a 6 x 9 grid: elev with missing cells, slope with -1 cells), model.mpt and the folder results/",
                    "evaluated_by": {"program": 'Program.from_source(source, libraries=EEMS_NETCDF_LIBRARIES, working_dir="").run()', "program.": 'Program.from_source(source, libraries=EEMS_NETCDF_LIBRARIES, working_dir=".").run()',
                                     "cli": "mpilot eems-netcdf model.mpt (in-process)", "cli./": "mpilot eems-netcdf ./model.mpt (in-process)",
                                     "body": 'EEMSWrite.execute(OutFileName="out.nc", DimensionFileName="in.nc", ...) on the two fields'}[how]}
            for f in ("out.nc", "out2.nc", "results/out.nc"):
                if os.path.exists(f):
                    os.remove(f)
            ctx.case("bare-names %s %s %s" % (inn, out, how), sample=None)
            ctx.count("bare_relative_name_runs:" + how.rstrip("./"))
            try:
                with numpy.errstate(all="ignore"):
                    if how.startswith("program"):
                        Program.from_source(src, libraries=EEMS_NETCDF_LIBRARIES, working_dir="." if how.endswith(".") else "").run()
                    elif how.startswith("cli"):
                        with open("model.mpt", "w") as f:
                            f.write(src)
                        code, err, crash = clicorr._invoke(cli_main, ["eems-netcdf", "./model.mpt" if how.endswith("/") else "model.mpt"])
                        if code != 0:
                            ctx.fail("`mpilot eems-netcdf model.mpt`, run from the model's folder, ends with exit status %r: %s" % (code, " / ".join((err or crash).split("\n"))[:300]), desc)
                            continue
                    else:
                        EEMSWrite("W", []).execute(OutFileName=out, OutFieldNames=[eems.Producer(elev, "Elev", False), eems.Producer(numpy.ma.array(slope, mask=(slope == -1)), "Slope", False)],
                                                   DimensionFileName=inn, DimensionFieldName="elev")
            except Exception as e:
                ctx.fail("a NetCDF model whose files are named relative to the current directory (OutFileName %r) fails: %s %s" % (out, type(e).__name__, " / ".join(str(e).split("\n"))[:200]), desc)
                continue
            if not os.path.exists(out):
                ctx.fail("the model ran but %r was not written in the current directory" % out, desc)
                continue
            with Dataset(out) as ds:
                for nm, a in (("Elev", numpy.ma.getdata(elev)), ("Slope", slope)):
                    got = ds[nm][:] if nm in ds.variables else None
                    if got is None or got.shape != (ny, nx) or got.dtype.kind != "f" or not numpy.array_equal(numpy.ma.getmaskarray(got), want_mask) or not numpy.array_equal(numpy.ma.getdata(got)[~want_mask], a[~want_mask]):
                        ctx.fail("result %s written under the relative name %r does not read back as written (shape, element kind, values, missing cells)" % (nm, out), desc)
                        break
                if not (numpy.array_equal(numpy.ma.getdata(ds["lat"][:]), lat) and numpy.array_equal(numpy.ma.getdata(ds["lon"][:]), lon)) or getattr(ds["lat"], "units", None) != "degrees_north":
                    ctx.fail("coordinate values / attributes of the template were not copied unchanged (relative name %r)" % out, desc)
    finally:
        os.chdir(start)


def layouts(ctx, model, tmp, count):
    """the frame of the written file against Model/NetCdf.ncLayout (Props/C18Layout.lean): templates with 1-3 dimensions whose coordinate variables are of
    several element types, carry text / numeric / list attributes and - as most tools write them - a _FillValue, or are absent; other variables before and
    after the template field; CRS information (an esri_pe_string on the first or a later variable, a grid_mapping naming a variable that exists, with its own
    dimension or one of the field's, or one that does not exist); 1-3 results.  Compared: dimensions with sizes in order, variables in order with element
    type, dimensions, attributes and - for coordinate variables - values; or the error class.  Oracle: coordinate variables and values copied unchanged."""
    from netCDF4 import Dataset
    from mpilot.libraries.eems.netcdf.io import EEMSWrite
    rng = ctx.rng

    class Held(object):
        def __init__(self, name, arr):
            self.result_name = name
            self.result = arr

    def tok(v):
        if isinstance(v, numpy.ndarray):
            return "[" + ",".join(tok(x) for x in v.tolist()) + "]"
        if isinstance(v, float) and v != v:
            return "nan"
        if isinstance(v, str):
            return v                    # text as it is: the tool looks up the variable a grid_mapping attribute names
        return repr(v.item() if hasattr(v, "item") else v)

    def describe(path):
        with Dataset(path) as ds:
            dims = [(d, len(ds.dimensions[d])) for d in ds.dimensions]
            vs = []
            for n, v in ds.variables.items():
                data = [("--" if x is numpy.ma.masked or x is None else tok(x)) for x in numpy.ma.asarray(v[:]).ravel().tolist()] if v.ndim == 1 and n in ds.dimensions else []
                vs.append((n, v.dtype.str, list(v.dimensions), [(k, tok(v.getncattr(k))) for k in v.ncattrs()], data))
        return dims, vs

    def enc(dims, vs, field, names):
        out = ["nclayout", enc_str(field), str(len(names))] + [enc_str(n) for n in names] + [str(len(dims))]
        for d, k in dims:
            out += [enc_str(d), str(k)]
        out.append(str(len(vs)))
        for n, dt, ds_, attrs, data in vs:
            out += [enc_str(n), enc_str(dt), str(len(ds_))] + [enc_str(x) for x in ds_] + [str(len(attrs))]
            for k, v in attrs:
                out += [enc_str(k), enc_str(v)]
            out += [str(len(data))] + [enc_str(x) for x in data]
        return " ".join(out)

    def canon(dims, vs, names):
        # attribute order is the library's business (the tool sets them in sorted order); a result variable's element type and fill value belong to the data part
        return (dims, [(n, "" if n in names else dt, ds_, sorted((k, v) for k, v in attrs if not (n in names and k == "_FillValue")), data) for n, dt, ds_, attrs, data in vs])

    lines, metas = [], []
    for i in range(count):
        rank = rng.choice([1, 2, 2, 3])
        dnames = rng.sample(["y", "x", "t", "lat", "lon", "level"], rank)
        sizes = [rng.choice([1, 2, 3, 5]) for _ in dnames]
        tpath = os.path.join(tmp, "lt%d.nc" % (i % 6))
        opath = os.path.join(tmp, "lo%d.nc" % (i % 6))
        missing_coord = rng.random() < 0.08
        dup_dim = rank >= 2 and rng.random() < 0.04
        crs_kind = rng.choice(["none", "none", "esri", "esri+gm", "esri+gm-own-dim", "esri+gm-missing", "gm-only"])
        with Dataset(tpath, "w") as ds:
            for d, k in zip(dnames, sizes):
                ds.createDimension(d, k)
            if crs_kind == "esri+gm-own-dim":
                ds.createDimension("nchar", 4)
            def coord(d, k):
                kind = rng.choice(["f8", "f4", "i4", "i2"])
                fill = rng.choice([None, None, "nan", -999]) if kind.startswith("f") else rng.choice([None, None, -999])
                v = ds.createVariable(d, kind, (d,), fill_value=(numpy.nan if fill == "nan" else fill))
                vals = [10 * (j + 1) + (0.25 if kind.startswith("f") else 0) for j in range(k)]
                if fill is not None and k > 1 and rng.random() < 0.3:
                    vals = numpy.ma.array(vals, mask=[j == 1 for j in range(k)])        # a coordinate with a missing entry
                v[:] = vals
                for a in rng.sample(["units", "long_name", "axis", "zeta", "standard_name"], rng.randrange(0, 4)):
                    v.setncattr(a, rng.choice(["m", "degrees_north", "X", "time since 1970", "é"]))
                if rng.random() < 0.3:
                    v.setncattr("valid_min", rng.choice([0.5, 1, -3]))
                if rng.random() < 0.2:
                    v.setncattr("bounds_hint", numpy.array([0.5, 2.5]))
            if rng.random() < 0.5:
                o = ds.createVariable("other", "f8", (dnames[0],))          # a variable before the field in file order
                if crs_kind in ("esri", "esri+gm") and rng.random() < 0.5:
                    o.esri_pe_string = "PE-other"
            for j, (d, k) in enumerate(zip(dnames, sizes)):
                if missing_coord and j == len(dnames) - 1:
                    continue
                coord(d, k)
            if crs_kind in ("esri+gm", "esri+gm-own-dim", "gm-only"):
                g = ds.createVariable("crs", "i4", ("nchar",) if crs_kind == "esri+gm-own-dim" else ((dnames[0],) if rng.random() < 0.5 else ()),
                                      fill_value=rng.choice([None, -9]))
                g.grid_mapping_name = "latitude_longitude"
                g.semi_major_axis = 6378137.0
            fdims = tuple(dnames) if not dup_dim else (dnames[0], dnames[0])
            e = ds.createVariable("elev", "f8", fdims)
            if crs_kind.startswith("esri"):
                e.esri_pe_string = 'GEOGCS["GCS_WGS_1984"]'
            if crs_kind in ("esri+gm", "esri+gm-own-dim", "gm-only"):
                e.grid_mapping = "crs"
            if crs_kind == "esri+gm-missing":
                e.grid_mapping = "nowhere"
        field = "elev" if rng.random() < 0.95 else "nosuch"
        names = rng.sample(["R", "Out2", "fuzzy é", "z"], rng.choice([1, 1, 2, 3]))
        shape = tuple(sizes) if not dup_dim else (sizes[0], sizes[0])
        arrs = [numpy.ma.array(numpy.arange(int(numpy.prod(shape)), dtype=float).reshape(shape) + j, mask=numpy.zeros(shape, dtype=bool)) for j in range(len(names))]
        tdims, tvars = describe(tpath)
        try:
            EEMSWrite.__new__(EEMSWrite).execute(OutFileName=opath, OutFieldNames=[Held(n, a) for n, a in zip(names, arrs)], DimensionFileName=tpath, DimensionFieldName=field)
            odims, ovars = describe(opath)
            real = ("ok", canon(odims, ovars, names))
        except Exception as ex:      # noqa
            real = ("err", type(ex).__name__)
        desc = {"template": {"dimensions": tdims, "variables": [(n, dt, d_, a) for n, dt, d_, a, _ in tvars]}, "field": field, "results": names}
        ctx.case("layout %r %r %r" % (tdims, [(v[0], v[2], v[3]) for v in tvars], names), sample={"dims": tdims, "crs": crs_kind, "outcome": real[0] if real[0] == "ok" else real[1]})
        ctx.count("layout:%s:%s" % (crs_kind, real[0] if real[0] == "ok" else real[1]))
        ctx.count("layout_coordinate_with_fill_value", sum(1 for n, dt, d_, a, _ in tvars if n in dnames and any(k == "_FillValue" for k, _ in a)))
        lines.append(enc(tdims, tvars, field, names))
        metas.append((desc, real, names, tdims, tvars))
        if real[0] == "ok":
            # the property itself: the template's dimension variables and coordinate values are in the output, unchanged
            o = {n: (dt, d_, dict(a), data) for n, dt, d_, a, data in real[1][1]}
            for n, dt, d_, a, data in tvars:
                if n in (dnames if not dup_dim else dnames[:1]) and field == "elev":
                    if n not in o:
                        ctx.fail("NetCDF EEMSWrite: the coordinate variable %r of the template is not in the written file" % n, desc)
                    elif o[n][3] != data or o[n][0] != dt or o[n][2] != dict(a):
                        ctx.fail("NetCDF EEMSWrite: coordinate variable %r was not copied unchanged: template %r %r %r, written %r %r %r" % (n, dt, dict(a), data, o[n][0], o[n][2], o[n][3]), desc)
    for (desc, real, names, tdims, tvars), ans in zip(metas, model.ask(lines)):
        if ans.startswith("err "):
            got = ("err", ans[4:])
        elif ans.startswith("ok "):
            parts = ans[3:].split(" ")
            mdims = [(common.dec_str(x.split("=")[0]), int(x.split("=")[1])) for x in parts[0].split(",") if x]
            mvars = []
            for vt in parts[1:]:
                n, dt, ds_, attrs, data = vt.split(":")
                mvars.append((common.dec_str(n), common.dec_str(dt), [common.dec_str(x) for x in ds_.split(",") if x],
                              [(common.dec_str(x.split("=")[0]), common.dec_str(x.split("=")[1])) for x in attrs.split(",") if x], [common.dec_str(x) for x in data.split(",") if x]))
            got = ("ok", canon(mdims, mvars, names))
        else:
            got = ("bad", ans[:80])
        if got != real:
            ctx.disagree("netcdf:layout", desc, repr(real)[:1500], repr(got)[:1500])
            if real[0] == "err" and got[0] == "ok":
                ctx.fail("NetCDF EEMSWrite fails with %s on a template the writer's frame is defined for (nothing is written)" % real[1], desc)


def in_place_models(ctx, tmp):
    """models that update a dataset in place: they read variables from a file and write them, with a derived one, back to that same file (the grid is taken
    from another template) - named by the same or another spelling.  The order of the commands is free and the writer may be the only command asked: the
    variables read are those of the dataset as it was, and the file ends up holding the listed results with their values (read back through the library)."""
    import itertools
    from netCDF4 import Dataset
    from mpilot.program import Program, EEMS_NETCDF_LIBRARIES
    rng = ctx.rng
    shape = (3, 4)
    A = numpy.ma.array(numpy.arange(12, dtype=float).reshape(shape) / 4 - 1, mask=numpy.zeros(shape, dtype=bool))
    A[0, 1] = numpy.ma.masked
    B = numpy.ma.array(numpy.arange(12, dtype=float).reshape(shape)[::-1] * 0.5, mask=numpy.zeros(shape, dtype=bool))
    B[2, 2] = numpy.ma.masked
    orders = list(itertools.permutations(range(4)))
    picks = [(0, 1, 2, 3), (3, 2, 0, 1), (3, 0, 1, 2), (1, 3, 0, 2)] + rng.sample(orders, min(24, ctx.budget(1, 24)))
    spellings = ["data.nc", "./data.nc", "sub/../data.nc", "ABS"]
    n = 0
    for order in picks:
        for how in ("run", "writer-only"):
            sp, rd = spellings[n % len(spellings)], spellings[(n // len(spellings)) % 2]
            n += 1
            d = os.path.join(tmp, "inplace%d" % (n % 3))
            os.makedirs(os.path.join(d, "sub"), exist_ok=True)
            path = os.path.join(d, "data.nc")
            dims = make_template(os.path.join(d, "grid.nc"), shape, rng)
            with Dataset(path, "w") as ds:
                for dn, k in zip(dims, shape):
                    ds.createDimension(dn, k)
                for nm, arr in (("A", A), ("B", B)):
                    v = ds.createVariable(nm, "f8", tuple(dims))
                    v[:] = arr
            out_name = path if sp == "ABS" else sp
            cmds = ['A = EEMSRead(InFileName = "%s", InFieldName = "A")' % rd, 'B = EEMSRead(InFileName = "%s", InFieldName = "B")' % rd, "Total = Sum(InFieldNames = [A, B])",
                    'Out = EEMSWrite(OutFileName = "%s", OutFieldNames = [B, Total, A], DimensionFileName = "grid.nc", DimensionFieldName = "elev")' % out_name]
            src = "\n".join(cmds[i] for i in order) + "\n"
            desc = {"source": src, "working_dir_holds": "data.nc with variables A, B on a 3 x 4 grid (one cell missing in each); grid.nc (template)",
                    "evaluated_by": "Program.run()" if how == "run" else "asking only the writer for its result"}
            ctx.case("nc-in-place %r %s" % (src, how), sample=None)
            ctx.count("in_place_models")
            try:
                with numpy.errstate(all="ignore"):
                    p = Program.from_source(src, libraries=EEMS_NETCDF_LIBRARIES, working_dir=d)
                    if how == "run":
                        p.run()
                    else:
                        p.commands["Out"].result
            except Exception as e:     # noqa
                try:
                    with Dataset(path) as ds:
                        left = sorted(ds.variables)
                except Exception:      # noqa
                    left = None
                ctx.fail("a model that reads variables A, B of a dataset and writes B, Total, A back to the same file (as %r) fails: %s %s; the file now holds the variables %r" % (
                    out_name, type(e).__name__, " / ".join(str(e).split("\n"))[:160], left), desc)
                continue
            with Dataset(path) as ds:
                got = {nm: numpy.ma.masked_array(ds.variables[nm][:]) for nm in ("A", "B", "Total") if nm in ds.variables}
            union = numpy.ma.getmaskarray(A) | numpy.ma.getmaskarray(B)
            for nm, want in (("A", A), ("B", B), ("Total", A + B)):
                g = got.get(nm)
                if g is None:
                    ctx.fail("the dataset updated in place does not hold the listed result %s (variables: %r)" % (nm, sorted(got)), desc)
                    break
                if g.shape != shape or not numpy.array_equal(numpy.ma.getmaskarray(g), union) or not numpy.array_equal(numpy.ma.getdata(g)[~union], numpy.ma.getdata(want)[~union]):
                    ctx.fail("the dataset updated in place, variable %s read back: %r; the dataset held A = %r, B = %r" % (nm, g.tolist(), A.tolist(), B.tolist()), desc)
                    break


def big_missing_values(ctx, tmp):
    """64-bit whole numbers around 2^53 and 2^63 with a MissingValue among them: exactly the cells holding the missing value are missing - its neighbours (which
    share its nearest decimal) are present, with their exact values"""
    B = 2 ** 53
    sets = [[B - 1, B, B + 1, B + 2, B + 3, 5], [-(B + 1), -B, -(B + 2), 0, B + 1, B], [2 ** 62 + 1, 2 ** 62, 2 ** 62 + 3, 2 ** 62 + 2, 7, -7], [B + 1, B + 1, B, B, B + 2, B + 2]]
    for vals in sets:
        for mv in sorted(set(vals))[:4] + [vals[2]]:
            for tname in ("Integer", "Positive Integer") if min(vals) >= 0 else ("Integer",):
                arr = numpy.ma.array(numpy.array(vals, dtype=numpy.int64).reshape(2, 3), mask=numpy.zeros((2, 3), dtype=bool))
                path = os.path.join(tmp, "bigmv.nc")
                make_var_file(path, (2, 3), arr, vtype="i8")
                out = read_impl(path, "v", tname, mv)
                ctx.case("big missing %r %r %s" % (vals, mv, tname), sample=None)
                ctx.count("big_missing_value_reads")
                desc = {"variable": "int64 %r on a 2 x 3 grid" % (vals,), "MissingValue": mv, "DataType": tname}
                if out[0] != "ok":
                    ctx.fail("reading 64-bit whole numbers %r with MissingValue = %d fails: %r" % (vals, mv, out[1:]), desc)
                    continue
                r = out[1]
                got_mask = numpy.ma.getmaskarray(r).ravel().tolist()
                want_mask = [v == mv for v in vals]
                got_vals = [int(x) for x in numpy.ma.getdata(r).ravel().tolist()]
                if got_mask != want_mask:
                    ctx.fail("MissingValue = %d over the cells %r: missing are the cells %r; exactly the cells holding the missing value are %r" % (
                        mv, vals, [i for i, m in enumerate(got_mask) if m], [i for i, m in enumerate(want_mask) if m]), desc)
                elif any(g != v for g, v, m in zip(got_vals, vals, want_mask) if not m):
                    ctx.fail("MissingValue = %d over the cells %r: the present cells are read as %r" % (mv, vals, got_vals), desc)


def run(ctx):
    ctx.check_proofs(["MPilot.Props.C18", "MPilot.Props.C18Layout"])
    model = common.Model()
    rng = ctx.rng
    tmp = common.tmpdir("mpv_c18_")
    from netCDF4 import Dataset
    from mpilot.libraries.eems.netcdf.io import EEMSWrite
    lines, metas = [], []
    # ---------------- reading with every combination of the optional parameters
    for i in range(ctx.budget(40, 2000)):
        shape = rng.choice(SHAPES)
        n = int(numpy.prod(shape))
        integer_file = rng.random() < 0.3
        pool = [-2, -1, 0, 1, 2, 3, 7] if integer_file else [-1.5, -1.0, -0.5, 0.0, 0.25, 0.5, 1.0, 1.5, 2.5, 3.5, -2.5, 0.75, 1.01, -1.01, 1.02, 99.0,
                                                              99.0000001, 2.5000000001, 1e-9, -1.0000000001, 0.9999999999, 2.0000001]   # near-misses of the missing values
        if rng.random() < 0.4:
            pool = [v for v in pool if v >= 0]
        tname = rng.choice(TYPE_NAMES)
        if rng.random() < (0.7 if tname == "Fuzzy" else 0.3):
            # data that a Fuzzy read accepts: inside [-1, 1], or up to 1 % of the range beyond its ends (limited to the ends by the read)
            pool = [v for v in pool + ([] if integer_file else [1.005, -1.015, 1.0000001]) if -1.015 <= v <= 1.015]
        vals = [rng.choice(pool) for _ in range(n)]
        mask = eems.rand_mask(rng, n)
        arr = numpy.ma.array(numpy.array(vals, dtype=int if integer_file else float).reshape(shape), mask=numpy.array(mask).reshape(shape))
        path = os.path.join(tmp, "r%d.nc" % (i % 10))
        make_var_file(path, shape, arr, fill=-9999 if rng.random() < 0.5 else None)
        missing = rng.choice([None, None, 0, 1, 2.5, -1.0, 99, 2])
        field = "v" if rng.random() < 0.93 else "nosuch"
        out = read_impl(path, field, tname, missing)
        desc = {"variable": {"shape": shape, "values": arr.tolist(), "dtype": str(arr.dtype)}, "DataType": tname, "MissingValue": missing, "InFieldName": field}
        ctx.case("read %r" % (desc,), sample={"case": desc, "impl": out[0] + " " + (repr(out[1].tolist())[:80] if out[0] == "ok" else out[1])})
        ctx.count("read_outcome:" + out[0] + ("" if out[0] == "ok" else ":" + out[1]))
        ctx.count("read_type:%s" % tname)
        # --- oracles
        valid = [v for v, m in zip(vals, mask) if not m]
        if out[0] == "raw":
            ctx.fail("EEMSRead raised %s: %s" % (out[1], out[2][:120]), desc)
        if out[0] == "mp" and out[2].startswith("<str()"):
            ctx.fail("%s cannot be rendered: %s" % (out[1], out[2]), desc)
        if field == "nosuch":
            if not (out[0] == "mp" and out[1] == "NoSuchVariable"):
                ctx.fail("a missing variable is not reported as NoSuchVariable: %s" % (out[:2],), desc)
        elif tname in ("Positive Float", "Positive Integer") and any(v < 0 for v in valid):
            if not (out[0] == "mp" and out[1] == "InvalidPositiveData"):
                ctx.fail("negative data read as %s is not rejected with InvalidPositiveData: %s" % (tname, out[:2]), desc)
        elif tname == "Fuzzy" and any(v > 1.02 + 1e-9 or v < -1.02 - 1e-9 for v in valid):
            if not (out[0] == "mp" and out[1] == "InvalidFuzzyData"):
                ctx.fail("data outside the fuzzy range read as Fuzzy is not rejected with InvalidFuzzyData: %s" % (out[:2],), desc)
        elif out[0] == "ok" and not (tname == "Fuzzy" and any(abs(abs(v) - 1.02) < 1e-9 for v in valid)):
            r = out[1]
            want_int = tname in ("Integer", "Positive Integer")
            if r.shape != tuple(shape):
                ctx.fail("read shape %r, variable shape %r" % (r.shape, shape), desc)
            elif (r.dtype.kind in "iu") != want_int:
                ctx.fail("element type %s for DataType %r (float is the default)" % (r.dtype, tname), desc)
            else:
                def conv(v):
                    x = float(numpy.rint(v)) if want_int and not integer_file else float(v)
                    if tname == "Fuzzy":
                        x = max(-1.0, min(1.0, x))
                    return x
                mv = None if missing is None else (float(int(missing)) if want_int else float(missing))
                wmask = [m or (mv is not None and conv(v) == mv) for v, m in zip(vals, mask)]
                gm = numpy.ma.getmaskarray(r).ravel().tolist()
                if gm != wmask:
                    ctx.fail("missing cells %r, expected %r (file mask %r, MissingValue %r)" % (gm, wmask, mask, missing), desc)
                else:
                    gd = numpy.ma.getdata(r).ravel().tolist()
                    for g, v, m in zip(gd, vals, wmask):
                        if not m and float(g) != conv(v):
                            ctx.fail("value %r read as %r (DataType %r)" % (v, g, tname), desc)
                            break
        # --- a later plain read of the same variable in the same process still returns what the file holds
        if field == "v" and out[0] == "ok":
            again = read_impl(path, "v", None, None)
            ctx.count("second_reads")
            with Dataset(path) as ds:
                lib = ds["v"][:]
            if again[0] != "ok" or not numpy.array_equal(numpy.ma.getmaskarray(again[1]), numpy.ma.getmaskarray(lib)) or \
                    not numpy.array_equal(numpy.ma.getdata(again[1])[~numpy.ma.getmaskarray(lib)], numpy.ma.getdata(lib).astype(float)[~numpy.ma.getmaskarray(lib)]):
                ctx.fail("after reading the variable as %r (MissingValue %r), a plain read of it no longer returns the stored values: %r" % (
                    tname, missing, again[1].tolist() if again[0] == "ok" else again[1]), desc)
        # --- correspondence (the model gets what the library delivers for the variable)
        if field == "v":
            with Dataset(path) as ds:
                lib = ds["v"][:]
            enc = common.enc_arr(numpy.ma.array(numpy.ma.getdata(lib), mask=numpy.ma.getmaskarray(lib)))
        else:
            enc = "-"
        mtxt = "-" if missing is None else common.enc_rat(Fraction(missing))
        lines.append("ncread %s %s %s" % (enc, (tname or "Float").replace(" ", ""), mtxt))
        metas.append((out, desc))
    # integer variables of every width holding the smallest value of their type (where |x| wraps around): far outside the fuzzy range, negative
    for vt, lo in (("i1", -128), ("i2", -32768), ("i4", -2147483648), ("i8", -9223372036854775808)):
        for tname, want in (("Fuzzy", "InvalidFuzzyData"), ("Positive Integer", "InvalidPositiveData"), ("Positive Float", "InvalidPositiveData"), ("Integer", None)):
            arr = numpy.ma.array(numpy.array([0, lo, 1, -1], dtype=vt), mask=[False, False, False, True])
            path = os.path.join(tmp, "lo.nc")
            make_var_file(path, (4,), arr, vtype=vt)
            out = read_impl(path, "v", tname, None)
            desc = {"variable": {"values": arr.tolist(), "dtype": vt}, "DataType": tname}
            ctx.case("read-typemin %s %s" % (vt, tname), sample=None)
            ctx.count("read_type_minimum_cases")
            if want is None:
                if out[0] != "ok" or numpy.ma.getdata(out[1]).tolist()[:3] != [0, lo, 1]:
                    ctx.fail("an %s variable holding %d read as Integer: %s" % (vt, lo, out[1].tolist() if out[0] == "ok" else out[1]), desc)
            elif not (out[0] == "mp" and out[1] == want):
                ctx.fail("an %s variable holding %d read as %s is not rejected with %s: %s" % (vt, lo, tname, want, out[1].tolist() if out[0] == "ok" else out[:2]), desc)
    # whole numbers that no double holds exactly (beyond 2^53), in signed and unsigned 64-bit variables: read as integers they come back digit for digit
    for vt, vals in (("i8", [2 ** 53 + 1, -(2 ** 53) - 1, 2 ** 62 + 3, 9007199254740993, 5]), ("u8", [2 ** 53 + 1, 2 ** 63 + 5, 3, 2 ** 64 - 5, 0])):
        for tname in ("Integer", "Positive Integer"):
            if tname == "Positive Integer" and any(v < 0 for v in vals):
                vals = [abs(v) for v in vals]
            arr = numpy.ma.array(numpy.array(vals, dtype=vt), mask=[False, False, False, False, True])
            path = os.path.join(tmp, "big.nc")
            make_var_file(path, (5,), arr, vtype=vt)
            out = read_impl(path, "v", tname, None)
            desc = {"variable": {"values": arr.tolist(), "dtype": vt}, "DataType": tname}
            ctx.case("read-big %s %s" % (vt, tname), sample=None)
            ctx.count("read_beyond_2_53_cases")
            if out[0] != "ok":
                ctx.count("read_beyond_2_53_rejected:%s:%s" % (vt, tname))
                continue
            got = [int(x) for x in numpy.ma.getdata(out[1]).tolist()[:4]]
            # (a signed target cannot hold unsigned values beyond 2^63: those are outside what is compared)
            pairs = [(g, w) for g, w in zip(got, vals[:4]) if out[1].dtype.kind == "u" or w < 2 ** 63]
            if out[1].dtype.kind not in "iu" or any(g != w for g, w in pairs):
                ctx.fail("an %s variable holding %r read as %s comes back as %r (%s)" % (vt, vals[:4], tname, got, out[1].dtype), desc)
    for (out, desc), ans in zip(metas, model.ask(lines)):
        if ans.startswith("ok "):
            if out[0] != "ok":
                ctx.disagree("ncread", desc, "%s %s" % (out[0], out[1]), ans[:200])
            else:
                vis = common.vis_arr(out[1])
                d = common.same_vis(vis, common.parse_model_arr(ans[3:]), tol=1e-12)
                if d:
                    ctx.disagree("ncread", desc, repr(out[1].tolist())[:200], ans[:200] + " :: " + d)
        else:
            cls = ans.split(" ")[1]
            if out[0] != "mp" or out[1] != cls:
                ctx.disagree("ncread", desc, "%s %s" % (out[0], out[1] if out[0] != "ok" else ""), ans)
    # ---------------- writing sets of results and reading them back
    wlines, wmetas = [], []
    for i in range(ctx.budget(25, 1000)):
        shape = rng.choice(SHAPES)
        n = int(numpy.prod(shape))
        tpl = os.path.join(tmp, "tpl%d.nc" % (i % 5))
        packed = rng.random() < 0.3
        dims = make_template(tpl, shape, rng, packed)
        k = rng.randrange(1, 5)
        results = []
        for j in range(k):
            integer = rng.random() < 0.3
            vals = [rng.choice([-3, 0, 1, 5, 7]) if integer else rng.choice([0.1, -2.5, 1 / 3.0, 1e-300, 5e-324, 1.7976931348623157e+308, 0.0, 123456.789, 2.5]) for _ in range(n)]
            a = numpy.ma.array(numpy.array(vals, dtype=int if integer else float).reshape(shape), mask=numpy.array(eems.rand_mask(rng, n)).reshape(shape))
            if rng.random() < 0.3:
                a = numpy.ma.array(numpy.ma.getdata(a))         # nothing missing, and no mask array at all (numpy's scalar `nomask`), as many operators return it
            results.append(a)
        names = ["res%d" % j for j in range(k)]
        outp = os.path.join(tmp, "out%d.nc" % (i % 5))
        if os.path.exists(outp):
            os.remove(outp)
        desc = {"shape": shape, "results": [{"values": a.tolist(), "dtype": str(a.dtype)} for a in results], "packed_coordinate": packed}
        snaps = [(numpy.ma.getmaskarray(a).copy(), numpy.ma.getdata(a).copy()) for a in results]
        try:
            EEMSWrite("W", []).execute(OutFileName=outp, OutFieldNames=[eems.Producer(a, nm, False) for a, nm in zip(results, names)],
                                       DimensionFileName=tpl, DimensionFieldName="elev")
        except Exception as e:
            ctx.fail("EEMSWrite failed: %s %s" % (type(e).__name__, str(e)[:100]), desc)
            continue
        ctx.case("write %r" % (desc,), sample={"shape": shape, "n_results": k})
        for j, (a, (m0, d0)) in enumerate(zip(results, snaps)):
            if not numpy.array_equal(numpy.ma.getmaskarray(a), m0) or not numpy.array_equal(numpy.ma.getdata(a)[~m0], d0[~m0]):
                ctx.fail("writing %d results together changed result no. %d itself (missing cells %r -> %r): written again, alone or with others, it is no longer what was computed" % (
                    k, j, m0.astype(int).ravel().tolist(), numpy.ma.getmaskarray(a).astype(int).ravel().tolist()), desc)
                break
        ctx.count("write_results:%d" % k)
        union = numpy.zeros(shape, dtype=bool)
        for a in results:
            union |= numpy.ma.getmaskarray(a)
        with Dataset(outp) as ds, Dataset(tpl) as t:
            for d in dims:
                if d not in ds.variables:
                    ctx.fail("dimension variable %s of the template was not copied" % d, desc)
                    continue
                if not numpy.array_equal(numpy.ma.getdata(ds[d][:]), numpy.ma.getdata(t[d][:])) or ds[d][:].shape != t[d][:].shape:
                    ctx.fail("coordinate values of %s changed: %r -> %r" % (d, t[d][:].tolist(), ds[d][:].tolist()), desc)
                for att in ("units", "long_name"):
                    if getattr(ds[d], att, None) != getattr(t[d], att, None):
                        ctx.fail("attribute %s of dimension variable %s not copied" % (att, d), desc)
            for nm, a in zip(names, results):
                got = ds[nm][:]
                if got.shape != tuple(shape):
                    ctx.fail("result %s written with shape %r, expected %r" % (nm, got.shape, shape), desc); break
                if (got.dtype.kind in "iu") != (a.dtype.kind in "iu"):
                    ctx.fail("result %s written as %s, was %s" % (nm, got.dtype, a.dtype), desc); break
                gm = numpy.ma.getmaskarray(got)
                if not numpy.array_equal(gm, union):
                    ctx.fail("result %s read back missing at %r; some written result is missing exactly at %r" % (nm, gm.astype(int).tolist(), union.astype(int).tolist()), desc); break
                vis = ~union
                if not numpy.array_equal(numpy.ma.getdata(got)[vis], numpy.ma.getdata(a)[vis]):
                    ctx.fail("values of %s changed by write + read" % nm, desc); break
        # through EEMSRead as well (default parameters): same shape, kind float by default, same values
        back = read_impl(outp, names[0], None, None)
        if back[0] != "ok":
            ctx.fail("a written result cannot be read by EEMSRead: %s" % (back[1],), desc)
        elif back[1].shape != tuple(shape) or not numpy.array_equal(numpy.ma.getmaskarray(back[1]), union):
            ctx.fail("EEMSRead of a written result: shape/mask differ", desc)
        wlines.append("ncwrite " + " ".join(common.enc_arr(a) for a in results))
        with Dataset(outp) as ds:
            wmetas.append(([common.vis_arr(numpy.ma.array(numpy.ma.getdata(ds[nm][:]), mask=numpy.ma.getmaskarray(ds[nm][:]))) for nm in names], desc))
    # a large grid (257 x 300 cells, beyond one compression chunk): two results with different missing cells, written together and read back
    shape = (257, 300)
    tpl, outp = os.path.join(tmp, "tpl_big.nc"), os.path.join(tmp, "out_big.nc")
    make_template(tpl, shape, rng)
    nprng = numpy.random.RandomState(ctx.seed if hasattr(ctx, "seed") else 0)
    bigs = [numpy.ma.array(nprng.randint(-1000, 1000, size=shape) / 8.0, mask=nprng.rand(*shape) < 0.1), numpy.ma.array(nprng.randint(-5, 90, size=shape), mask=nprng.rand(*shape) < 0.02)]
    ctx.case("write-large %r" % (shape,), sample=None)
    ctx.count("large_grid_cases")
    try:
        EEMSWrite("W", []).execute(OutFileName=outp, OutFieldNames=[eems.Producer(a, nm, False) for a, nm in zip(bigs, ["big0", "big1"])], DimensionFileName=tpl, DimensionFieldName="elev")
        union = numpy.ma.getmaskarray(bigs[0]) | numpy.ma.getmaskarray(bigs[1])
        with Dataset(outp) as ds:
            for nm, a in zip(["big0", "big1"], bigs):
                got = ds[nm][:]
                if got.shape != shape or not numpy.array_equal(numpy.ma.getmaskarray(got), union) or not numpy.array_equal(numpy.ma.getdata(got)[~union], numpy.ma.getdata(a)[~union]):
                    ctx.fail("a %d x %d grid written and read back: result %s differs (shape %r, %d cells missing, %d expected)" % (
                        shape[0], shape[1], nm, got.shape, int(numpy.ma.getmaskarray(got).sum()), int(union.sum())), {"shape": shape})
                    break
        back = read_impl(outp, "big0", None, None)
        if back[0] != "ok" or back[1].shape != shape or not numpy.array_equal(numpy.ma.getmaskarray(back[1]), union):
            ctx.fail("EEMSRead of a large written grid: %s" % (back[1] if back[0] != "ok" else "shape/mask differ"), {"shape": shape})
    except Exception as e:
        ctx.fail("a %d x %d grid cannot be written: %s %s" % (shape[0], shape[1], type(e).__name__, str(e)[:100]), {"shape": shape})
    for (viss, desc), ans in zip(wmetas, model.ask(wlines)):
        parts = ans.split(" ")
        if len(parts) != len(viss):
            ctx.disagree("ncwrite", desc, "%d variables" % len(viss), ans[:200]); continue
        for v, part in zip(viss, parts):
            d = common.same_vis(v, common.parse_model_arr(part), tol=0)
            if d:
                ctx.disagree("ncwrite", desc, repr(v)[:200], part[:200] + " :: " + d)
                break
    programs(ctx, tmp)
    layouts(ctx, model, tmp, ctx.budget(40, 1500))
    in_place_models(ctx, tmp)
    big_missing_values(ctx, tmp)
    grid_ladder(ctx, tmp)
    bare_relative_names(ctx, tmp)
    return ctx.finish(
        rule="(a) one variable per file: rank 1-3 grids incl. length-1 axes, float or integer storage, library-masked cells (explicit or default fill value), read with "
             "every DataType (none, Float, Integer, Positive Float, Positive Integer, Fuzzy) x MissingValue (none, int, float, fractional) x existing/missing variable; "
             "(b) 1-4 float/int results with different masks written together against a template (plain or packed coordinate variable) and read back; distinct by case",
        explanation="theorems in Props/C18.lean hold for the model of the command logic (the netCDF4 library is assumed: what is assigned is what is read); the real bodies are "
                    "compared with the model on every case using the array the library actually delivers; faithfulness oracles evaluate the files through the library itself")


def replay(path):
    import json
    print(json.dumps(json.load(open(path)), indent=1)[:6000])
    return 0
