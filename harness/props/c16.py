"""C16 — EEMS 2.0 command files translate to equivalent MPilot programs.

proof:          lean/MPilot/Props/C16.lean (+ Generated/Eems2Table.lean, Generated/Decls.lean regenerated from the source on every run)
correspondence: real Program.from_source on EEMS 2.0 / mixed files vs the model's whole pipeline (parse, conversion, loading): the loaded program
                (result names, command classes, arguments, raw values, lines) and its execution
oracles:        every mapped name resolves to an existing command in both library sets (known finding: the two ScoreRange rows); an EEMS 2.0 file and
                the MPilot file written by hand from the mapping rule load to the same program and compute identical results; a new field name that is
                present but empty (`NewFieldName = ""`, `''`) is no new field name: the result is named after the input field (random models and directed
                ones: empty new / input field names, OutFileName empty, result name given as well); the mapping applied to ONE parse result
                (Parser().parse + utils.convert_eems2_commands) any number of times gives the same commands each time - those of the mapped MPilot file -
                and leaves the parse tree as it was
"""
import json
import os

import numpy

from .. import common, prog, progrun, translate
from ..common import enc_str
from ..progrun import Name, Scenario, render_value
from . import c12

LIBS = progrun.EEMS_LIBS
KNOWN_MISSING = {"SCORERANGEBENEFIT", "SCORERANGECOST"}


def table():
    from mpilot.utils import EEMS_COMMANDS
    return dict(EEMS_COMMANDS)


def v2_args(rng, v2name, cls, env, pools):
    """arguments for an EEMS 2.0 command that maps to class cls; pools: {'nonfuzzy': [...], 'fuzzy': [...]} result names available"""
    from mpilot import params as P
    args = []
    for name, p in cls.inputs.items():
        if name in ("Metadata", "NewFieldName", "ReturnType"):
            continue
        if not p.required and rng.random() < 0.6:
            continue
        t = type(p)
        if t is P.ResultParameter:
            pool = pools["fuzzy"] if p.is_fuzzy else pools["nonfuzzy"] if p.is_fuzzy is False else pools["nonfuzzy"] + pools["fuzzy"]
            if not pool:
                return None
            args.append((name, Name(rng.choice(pool))))
        elif t is P.ListParameter and type(p.value_type) is P.ResultParameter:
            pool = pools["fuzzy"] if p.value_type.is_fuzzy else pools["nonfuzzy"]
            if not pool:
                return None
            args.append((name, [Name(rng.choice(pool)) for _ in range(2)]))
        else:
            args.append((name, c12.valid_value(rng, p, env, name)))
    return args


def gen_model(rng, env, tbl, classes_by_name, empty_new=False):
    """returns (v2 text, v3 text, expected result names) for a random EEMS 2.0 model; empty_new: the first READ (and perhaps the second) carries a new field
    name that is present but empty - form-generated files have such blank entries - and is therefore named after its input field"""
    pools = {"nonfuzzy": [], "fuzzy": []}
    v2, v3, names = [], [], []
    k = 0
    # reads
    for col in ("a", "b"):
        new = rng.choice([None, "Col_" + col])
        if empty_new and (col == "a" or rng.random() < 0.5):
            new = ""
        res = new or col
        # the file name is handed on as written (other spellings of the same path are not tidied up)
        a2 = [("InFileName", rng.choice(env.get("in_spellings", [env["in"]]))), ("InFieldName", Name(col))] + ([("NewFieldName", Name(new))] if new else [])
        if new == "":
            a2.append(("NewFieldName", rng.choice(["", Name("''")])))
        if rng.random() < 0.3:
            a2.append(("OutFileName", "ignored.csv"))
        rng.shuffle(a2)
        v2.append((None, "READ", a2))
        v3.append((res, "EEMSRead", [x for x in a2 if x[0] not in ("NewFieldName", "OutFileName")]))
        pools["nonfuzzy"].append(res); names.append(res)
    keys = [x for x in tbl if x not in KNOWN_MISSING and x != "READ"]
    for _ in range(rng.randrange(2, 9)):
        v2name = rng.choice(keys)
        cls = classes_by_name[tbl[v2name]]
        args = v2_args(rng, v2name, cls, env, pools)
        if args is None:
            continue
        k += 1
        has_in = [v for n, v in args if n == "InFieldName"]
        style = rng.choice(["new", "new", "mpilot", "infield"])
        new = "N%d" % k
        if style == "infield" and has_in and isinstance(has_in[0], Name) and has_in[0].s not in names[:0]:
            # result named after the input field: only legal when that name is not taken yet -> it is taken (the input exists): use a new name
            style = "new"
        if style == "mpilot":
            # an MPilot-style command inside the EEMS 2.0 file (mixed file), still with the EEMS 2.0 command name
            a2 = list(args)
            v2.append((new, v2name, a2))
        else:
            a2 = list(args) + [("NewFieldName", Name(new))]
            if rng.random() < 0.4:
                a2.append(("OutFileName", rng.choice(["out.csv", "dir/out.tif"])))
            rng.shuffle(a2)
            v2.append((None, v2name, a2))
        v3.append((new, tbl[v2name], [x for x in a2 if x[0] not in ("NewFieldName", "OutFileName")]))
        (pools["fuzzy"] if getattr(cls, "is_fuzzy", False) else pools["nonfuzzy"]).append(new)
        names.append(new)
    if rng.random() < 0.3:
        # a genuinely MPilot-named command in the same file
        v2.append(("Extra", "Copy", [("InFieldName", Name(pools["nonfuzzy"][0]))]))
        v3.append(("Extra", "Copy", [("InFieldName", Name(pools["nonfuzzy"][0]))]))
        names.append("Extra")
    return v2, v3, names


def directed_models(env):
    """(EEMS 2.0 commands, MPilot commands or None when the mapped program cannot be written as an MPilot file) - the edges of "the new field name or else the
    input field name": either of them present but empty, both, an empty output file, an explicit result name next to them"""
    f = env["in"]
    fz = [("TrueThreshold", 4), ("FalseThreshold", 1)]
    E, E1 = "", Name("''")
    out = []
    for e in (E, E1):
        out.append(([(None, "READ", [("InFileName", f), ("InFieldName", Name("a")), ("NewFieldName", e)]), (None, "CVTTOFUZZY", [("InFieldName", Name("a")), ("NewFieldName", Name("AFz"))] + fz),
                     (None, "NOT", [("NewFieldName", Name("NotA")), ("InFieldName", Name("AFz"))])],
                    [("a", "EEMSRead", [("InFileName", f), ("InFieldName", Name("a"))]), ("AFz", "CvtToFuzzy", [("InFieldName", Name("a"))] + fz), ("NotA", "FuzzyNot", [("InFieldName", Name("AFz"))])]))
        out.append(([(None, "READ", [("NewFieldName", e), ("InFileName", f), ("InFieldName", Name("a")), ("OutFileName", E)]), (None, "READ", [("InFileName", f), ("NewFieldName", E), ("InFieldName", Name("b"))]),
                     (None, "SUM", [("InFieldNames", [Name("a"), Name("b")]), ("NewFieldName", Name("S")), ("OutFileName", e)])],
                    [("a", "EEMSRead", [("InFileName", f), ("InFieldName", Name("a"))]), ("b", "EEMSRead", [("InFileName", f), ("InFieldName", Name("b"))]), ("S", "Sum", [("InFieldNames", [Name("a"), Name("b")])])]))
        # the input field's name is taken already: rejected as a duplicate in both forms
        out.append(([(None, "READ", [("InFileName", f), ("InFieldName", Name("a"))]), (None, "COPYFIELD", [("InFieldName", Name("a")), ("NewFieldName", e)])],
                    [("a", "EEMSRead", [("InFileName", f), ("InFieldName", Name("a"))]), ("a", "Copy", [("InFieldName", Name("a"))])]))
        # an explicit result name wins over both
        out.append(([("R", "READ", [("InFileName", f), ("InFieldName", Name("a")), ("NewFieldName", e)]), ("C", "COPYFIELD", [("InFieldName", Name("R")), ("NewFieldName", e)])],
                    [("R", "EEMSRead", [("InFileName", f), ("InFieldName", Name("a"))]), ("C", "Copy", [("InFieldName", Name("R"))])]))
        # an empty input field name and a new field name: named by the new one (reading the empty column fails alike in both forms)
        out.append(([(None, "READ", [("InFileName", f), ("InFieldName", e), ("NewFieldName", Name("X"))])], [("X", "EEMSRead", [("InFileName", f), ("InFieldName", e)])]))
        # both empty, and a new field name of blanks: no MPilot file says that (model only)
        out.append(([(None, "READ", [("InFileName", f), ("InFieldName", e), ("NewFieldName", E)])], None))
    out.append(([(None, "READ", [("InFileName", f), ("InFieldName", Name("a")), ("NewFieldName", " ")]), (None, "READ", [("InFileName", f), ("InFieldName", Name("b")), ("NewFieldName", "  ")])], None))
    return out


def node_shape(commands):
    """result name, command name, arguments with names and exact values (kinds kept) of parsed / converted command nodes"""
    from .. import parsing
    return [[c.result_name, c.command, [[a.name, parsing._exact_value(a.value)] for a in c.arguments]] for c in commands]


def repeated_conversion(ctx, s2, s3, desc):
    """the mapping applied to one parse result more than once (one parse loaded under two library sets, a preview of the translation before loading): the same
    commands every time - those the mapped MPilot file parses to - and the parse tree is left as it was"""
    from mpilot.parser.parser import Parser
    from mpilot.utils import convert_eems2_commands
    from .. import parsing
    try:
        tree = Parser().parse(s2.source)
    except SyntaxError:
        return
    before = parsing.canon_program(tree)
    convs = []
    for _ in range(3):
        try:
            convs.append(node_shape(convert_eems2_commands(tree.commands)))
        except Exception as e:
            convs.append(progrun.classify(e))
    ctx.count("repeated_conversions")
    after = parsing.canon_program(tree)
    if convs[1] != convs[0] or convs[2] != convs[0]:
        k = 1 if convs[1] != convs[0] else 2
        diff = next(((x, y) for x, y in zip(convs[0], convs[k]) if x != y), None) if isinstance(convs[0], list) and isinstance(convs[k], list) else (convs[0], convs[k])
        ctx.fail("the same parsed EEMS 2.0 commands translated a %s time (utils.convert_eems2_commands on one parse result) give another program: %r, the first time %r" % (
            ["", "second", "third"][k], diff[1] if diff else convs[k], diff[0] if diff else convs[0]), dict(desc, how="tree = Parser().parse(eems2_source); convert_eems2_commands(tree.commands) three times"))
    elif after != before:
        ctx.fail("translating parsed EEMS 2.0 commands (utils.convert_eems2_commands) alters the parse tree it is given", dict(desc, parsed=before[:800], after_the_translation=after[:800]))
    elif s3 is not None and isinstance(convs[0], list):
        try:
            want = node_shape(Parser().parse(s3.source).commands)
        except SyntaxError:
            return
        if convs[0] != want:
            diff = next(((x, y) for x, y in zip(convs[0] + [None], want + [None]) if x != y))
            ctx.fail("the parsed EEMS 2.0 commands translate to other commands than the mapped MPilot file holds: %r vs %r" % diff, desc)


def mixed_dropped(rng, env, count):
    """mixed files - at least one EEMS 2.0 command - in which commands with MPilot names (result name given or not) carry the arguments the mapping drops:
    "output-file arguments dropped" and "the new field name ... as result name" hold for EVERY command of a file that is read as EEMS 2.0, so the loaded
    program is the one of the MPilot file without them (PrintVars prints instead of writing a file; EEMSWrite loses its required file name and is rejected
    in both forms).  Directed ones, and random ones: which commands carry which of the two, where, in which order"""
    f = env["in"]
    fz = [("TrueThreshold", 4), ("FalseThreshold", 1)]
    out = []
    rd = lambda col: (None, "READ", [("InFileName", f), ("InFieldName", Name(col))])
    rd3 = lambda col: (col, "EEMSRead", [("InFileName", f), ("InFieldName", Name(col))])
    # PrintVars to a file / to the screen; a reader with an unused new field name; a writer
    out.append(([rd("a"), ("Report", "PrintVars", [("InFieldNames", [Name("a")]), ("OutFileName", "report.txt")])], [rd3("a"), ("Report", "PrintVars", [("InFieldNames", [Name("a")])])]))
    out.append(([rd("a"), ("x", "EEMSRead", [("InFileName", f), ("InFieldName", Name("b")), ("NewFieldName", Name("y"))]), (None, "SUM", [("InFieldNames", [Name("a"), Name("x")]), ("NewFieldName", Name("S"))])],
                [rd3("a"), ("x", "EEMSRead", [("InFileName", f), ("InFieldName", Name("b"))]), ("S", "Sum", [("InFieldNames", [Name("a"), Name("x")])])]))
    out.append(([rd("a"), ("W", "EEMSWrite", [("OutFileName", "written.csv"), ("OutFieldNames", [Name("a")])])], [rd3("a"), ("W", "EEMSWrite", [("OutFieldNames", [Name("a")])])]))
    # an MPilot-named command without a result name: named by its new field name, which is dropped like in any other command
    out.append(([rd("a"), (None, "Copy", [("InFieldName", Name("a")), ("NewFieldName", Name("C")), ("OutFileName", "c.csv")]), ("F", "CvtToFuzzy", [("OutFileName", "f.csv"), ("InFieldName", Name("C"))] + fz)],
                [rd3("a"), ("C", "Copy", [("InFieldName", Name("a"))]), ("F", "CvtToFuzzy", [("InFieldName", Name("C"))] + fz)]))
    # the only EEMS 2.0 command comes last
    out.append(([("a", "EEMSRead", [("NewFieldName", Name("zz")), ("InFileName", f), ("InFieldName", Name("a")), ("OutFileName", "")]), (None, "COPYFIELD", [("InFieldName", Name("a")), ("NewFieldName", Name("C"))])],
                [rd3("a"), ("C", "Copy", [("InFieldName", Name("a"))])]))
    for _ in range(count):
        v2, v3 = [rd("a"), rd("b")] if rng.random() < 0.7 else [rd3("a"), rd("b")], [rd3("a"), rd3("b")]
        pool = ["a", "b"]
        for k in range(rng.randrange(1, 5)):
            name = "M%d" % k
            cname, args = rng.choice([("Copy", [("InFieldName", Name(rng.choice(pool)))]), ("Sum", [("InFieldNames", [Name(rng.choice(pool)), Name(rng.choice(pool))])]),
                                      ("Normalize", [("InFieldName", Name(rng.choice(pool)))]), ("PrintVars", [("InFieldNames", [Name(rng.choice(pool))])]),
                                      ("EEMSRead", [("InFileName", f), ("InFieldName", Name("b"))])])
            a2 = list(args)
            named = rng.random() < 0.6
            if not named or rng.random() < 0.5:
                a2.append(("NewFieldName", Name(name if not named else "Unused%d" % k)))
            if rng.random() < 0.6:
                a2.append(("OutFileName", rng.choice(["o%d.csv" % k, "dir/o.txt", ""])))
            rng.shuffle(a2)
            v2.append((name if named else None, cname, a2))
            v3.append((name, cname, [x for x in a2 if x[0] not in ("NewFieldName", "OutFileName")]))
            if cname != "PrintVars":
                pool.append(name)
        out.append((v2, v3))
    return out


def dump_program(p):
    parts = []
    for name, c in p.commands.items():
        args = ",".join("%s:%s:%s" % (enc_str(a.name), prog.enc_line(a.lineno), prog.canon_raw(raw_value(a.value))) for a in c.arguments)
        parts.append("cmd(%s,%s,%s,[%s])" % (enc_str(name), enc_str(c.name), prog.enc_line(c.lineno), args))
    return " ".join(parts)


def raw_value(v):
    from mpilot.arguments import Argument
    if isinstance(v, Argument):
        v = v.value
    if isinstance(v, list):
        return [raw_value(x) for x in v]
    return v


def structure(p):
    return [(n, type(c).__name__, [(a.name, prog.canon_raw(raw_value(a.value))) for a in c.arguments]) for n, c in p.commands.items()]


HASH_SCRIPT = '''
import json, os, tempfile
from mpilot.program import Program
from mpilot.commands import Command
from mpilot import params


class Dif(Command):
    """a user command whose name differs from an EEMS 2.0 name only in the case of its letters"""
    inputs = {"X": params.ResultParameter(params.DataParameter())}
    output = params.DataParameter()

    def execute(self, **kw):
        return abs(kw["X"].result)


class Max(Command):
    inputs = {"X": params.ResultParameter(params.DataParameter())}
    output = params.DataParameter()

    def execute(self, **kw):
        return kw["X"].result

d = tempfile.mkdtemp()
open(os.path.join(d, "t.csv"), "w").write("Elev,a" + chr(10) + "1,-2" + chr(10) + "3,4" + chr(10))
LIBS = ("mpilot.libraries.eems.basic", "mpilot.libraries.eems.csv", "mpilot.libraries.eems.fuzzy", "__main__")
TEXTS = [
    'READ(InFileName = "t.csv", InFieldName = Elev)' + chr(10) + 'CVTTOFUZZY(InFieldName = Elev, NewFieldName = FzElev, TrueThreshold = 2, FalseThreshold = 0)' + chr(10) +
    'COPYFIELD(InFieldName = FzElev, NewFieldName = Again)' + chr(10) + 'NOT(NewFieldName = NotElev, InFieldName = FzElev)' + chr(10),
    'READ(InFileName = "t.csv", InFieldName = a)' + chr(10) + 'd = Dif(X = a)' + chr(10) + 'm = Max(X = a)' + chr(10) + 's = Sum(InFieldNames = [d, m])' + chr(10),
]
out = []
for t in TEXTS:
    try:
        p = Program.from_source(t, libraries=LIBS, working_dir=d)
        p.run()
        out.append([[n, type(c).__module__.split(".")[-1] + "." + type(c).__name__, sorted(a.name for a in c.arguments)] for n, c in p.commands.items()] +
                   [[n, [float(x) for x in c.result.tolist()]] for n, c in p.commands.items() if hasattr(c.result, "tolist")])
    except Exception as e:
        out.append("raised %s: %s" % (type(e).__name__, str(e)[:120]))
print(json.dumps(out))
'''

HASH_WANT = [
    [["Elev", "io.EEMSRead", ["InFieldName", "InFileName"]], ["FzElev", "fuzzy.CvtToFuzzy", ["FalseThreshold", "InFieldName", "TrueThreshold"]], ["Again", "basic.Copy", ["InFieldName"]],
     ["NotElev", "fuzzy.FuzzyNot", ["InFieldName"]], ["Elev", [1.0, 3.0]], ["FzElev", [0.0, 1.0]], ["Again", [0.0, 1.0]], ["NotElev", [-0.0, -1.0]]],
    [["a", "io.EEMSRead", ["InFieldName", "InFileName"]], ["d", "__main__.Dif", ["X"]], ["m", "__main__.Max", ["X"]], ["s", "basic.Sum", ["InFieldNames"]],
     ["a", [-2.0, 4.0]], ["d", [2.0, 4.0]], ["m", [-2.0, 4.0]], ["s", [0.0, 8.0]]],
]


def hash_seeds(ctx):
    """an EEMS 2.0 file whose commands carry both a new field name and an input field name, and a mixed file that uses commands of a user library named like
    EEMS 2.0 commands but for the case of their letters, under eight hash seeds (fresh interpreters): the same program - result names, command classes,
    arguments, results - every time"""
    for sd, val, err in common.hash_sweep(HASH_SCRIPT):
        ctx.count("hash_seed_runs")
        ctx.case("hash-seed %d" % sd, sample=None)
        if val is None:
            ctx.fail("loading EEMS 2.0 files under PYTHONHASHSEED=%d crashed: %s" % (sd, err[-200:]), {"hash_seed": sd})
            continue
        for k, (got, want) in enumerate(zip(val, HASH_WANT)):
            if got != want:
                ctx.fail("under PYTHONHASHSEED=%d %s loads / runs as %s; the mapping rule gives %s" % (
                    sd, "an EEMS 2.0 file" if k == 0 else "a mixed file using a user library's Dif and Max commands", json.dumps(got)[:300], json.dumps(want)[:300]), {"hash_seed": sd, "file_no": k})


def run(ctx):
    # the tables are regenerated from the source inside check_proofs; a broken table obligation is searched for a failing input below
    ok = ctx.check_proofs(["MPilot.Props.C16"])
    hash_seeds(ctx)
    model = common.Model()
    rng = ctx.rng
    from mpilot.program import Program, EEMS_CSV_LIBRARIES, EEMS_NETCDF_LIBRARIES
    tbl = table()
    tmp = common.tmpdir("mpv_c16_")
    open(os.path.join(tmp, "in.csv"), "w").write("a,b\n1,2\n3,5\n4,-1\n")
    os.makedirs(os.path.join(tmp, "sub"), exist_ok=True)
    env = {"in": "in.csv", "in_spellings": ["in.csv", "in.csv", "./in.csv", "sub/../in.csv", ".//in.csv", "sub//..//in.csv"]}
    csv_lib = Program(EEMS_CSV_LIBRARIES).command_library
    nc_lib = Program(EEMS_NETCDF_LIBRARIES).command_library
    # (1) the table obligation, evaluated on the implementation: failing rows are concrete failing inputs
    for k, v in sorted(tbl.items()):
        ctx.case("row %s->%s" % (k, v), sample=None)
        ctx.count("table_rows")
        for libname, lib, libs in (("CSV", csv_lib, EEMS_CSV_LIBRARIES), ("NetCDF", nc_lib, EEMS_NETCDF_LIBRARIES)):
            if v not in lib:
                src = "%s(InFieldName = x, NewFieldName = y)\n" % k
                try:
                    Program.from_source(src, libraries=libs)
                    out = "loaded"
                except Exception as e:
                    out = progrun.classify(e)
                ctx.fail("EEMS 2.0 name %s is mapped to %s, which does not exist in the %s libraries: %r -> %s" % (k, v, libname, src, out),
                         {"row": [k, v], "source": src}, finding="C16-F13-scorerange" if k in KNOWN_MISSING else None)
    # (2) random EEMS 2.0 models against their hand-mapped MPilot form, and against the model
    base, classes = progrun.library_classes(LIBS)
    classes = sorted(classes, key=lambda c: c.name)
    by_name = dict((c.name, c) for c in classes)
    lines, metas = [], []
    tenc = "%d %s" % (len(tbl), " ".join("%s %s" % (enc_str(k), enc_str(v)) for k, v in tbl.items()))
    models = [(v2, v3, "directed") for v2, v3 in directed_models(env)]
    for i in range(ctx.budget(40, 1500)):
        try:
            # (every third model has new field names that are present but empty)
            v2, v3, names = gen_model(rng, env, {k: v for k, v in tbl.items() if v in by_name}, by_name, empty_new=i % 3 == 1)
        except KeyError:
            continue
        models.append((v2, v3, "empty-new-field-name" if i % 3 == 1 else "random"))
    models += [(v2, v3, "mixed-dropped-arguments") for v2, v3 in mixed_dropped(rng, env, ctx.budget(12, 300))]
    for v2, v3, how_made in models:
        s2 = Scenario(v2, wd=tmp, libs=LIBS)
        s3 = Scenario(v3, wd=tmp, libs=LIBS) if v3 is not None else None
        ctx.count("models:" + how_made)
        repeated_conversion(ctx, s2, s3, {"eems2_source": s2.source, "mpilot_source": s3.source if s3 is not None else None})
        if s3 is None:
            s3 = s2            # (no MPilot file says the same: the file is compared with the model and with its own second load only)
        outs = []
        for sc in (s2, s3):
            try:
                p = Program.from_source(sc.source, libraries=LIBS, working_dir=tmp)
                outs.append(("ok", p))
            except Exception as e:
                outs.append((progrun.classify(e), None))
        ctx.case(s2.source, sample={"eems2": s2.source[:500], "mpilot": s3.source[:300], "loads": [o[0] for o in outs]})
        ctx.count("v2_commands:%d" % len(v2))
        desc = {"eems2_source": s2.source, "mpilot_source": s3.source}
        if how_made != "random" and outs[0][0] != "ok" and outs[1][0] != "ok" and outs[0][0].split(":")[:2] != outs[1][0].split(":")[:2]:
            ctx.fail("the EEMS 2.0 file is rejected with %s, its MPilot translation with %s" % (outs[0][0], outs[1][0]), desc)
        if outs[0][0] != outs[1][0] and not (outs[0][0] != "ok" and outs[1][0] != "ok"):
            ctx.fail("the EEMS 2.0 file %s but its MPilot translation %s" % ("loads" if outs[0][0] == "ok" else "fails with " + outs[0][0],
                                                                              "loads" if outs[1][0] == "ok" else "fails with " + outs[1][0]), desc)
        # the same EEMS 2.0 text loaded again in the same process, and by a caller who has turned warnings into errors: the same program
        import warnings
        for how in ("again", "warnings-as-errors"):
            try:
                with warnings.catch_warnings():
                    if how == "warnings-as-errors":
                        warnings.simplefilter("error")
                    again = ("ok", Program.from_source(s2.source, libraries=LIBS, working_dir=tmp))
            except Exception as e:
                again = (progrun.classify(e), None)
            ctx.count("eems2_reloads")
            if again[0] != outs[0][0] or (again[0] == "ok" and structure(again[1]) != structure(outs[0][1])):
                ctx.fail("the EEMS 2.0 file loaded a second time (%s) gives %s; the first load gave %s" % (
                    how, again[0] if again[0] != "ok" else "another program", outs[0][0] if outs[0][0] != "ok" else "a program"), desc)
                break
        if outs[0][0] == "ok" and outs[1][0] == "ok":
            a, b = structure(outs[0][1]), structure(outs[1][1])
            if a != b:
                diff = next((x, y) for x, y in zip(a + [None], b + [None]) if x != y)
                ctx.fail("EEMS 2.0 file and its MPilot translation load to different programs: %r vs %r" % diff, desc)
            else:
                res = []
                for st, p in outs:
                    try:
                        with numpy.errstate(all="ignore"):
                            import contextlib, io, warnings
                            with warnings.catch_warnings(), contextlib.redirect_stdout(io.StringIO()):
                                warnings.simplefilter("ignore")
                                p.run()
                        res.append(("ok", dict((n, common.vis_arr(c._result)) for n, c in p.commands.items() if isinstance(c._result, numpy.ndarray))))
                    except Exception as e:
                        res.append((progrun.classify(e).split(":")[:2], None))
                if res[0] != res[1]:
                    ctx.fail("EEMS 2.0 file and its MPilot translation compute different results", desc)
        # model: the whole pipeline on the EEMS 2.0 text
        lines.append("load %s %s %d %s %s 0" % (prog.enc_env(tmp, s2.existing_paths()), tenc, len(classes), " ".join(prog.enc_decl(c) for c in classes), enc_str(s2.source)))
        metas.append((outs[0], desc))
    answers = model.ask(lines)
    for (out, desc), ans in zip(metas, answers):
        if "OutsideModel" in ans:
            ctx.count("outside_model_domain")
            continue
        if out[0] != "ok":
            if not ans.startswith("load " + out[0]):
                ctx.disagree("load:eems2", desc, "load " + out[0], ans[:300])
            continue
        want = dump_program(out[1])
        got = ans.split(" ; ")[-1] if ans.startswith("load ok") else ans
        if got.strip() != want.strip():
            ctx.disagree("load:eems2", desc, want[:600], got[:600])
    return ctx.finish(
        rule="(1) every row of the EEMS 2.0 table against both library sets; (2) random EEMS 2.0 models: READ of two columns (with/without NewFieldName and "
             "OutFileName) and 2-8 commands over all mapped names, arguments in random order, results named by NewFieldName, MPilot-style commands with EEMS 2.0 "
             "names and MPilot-named commands mixed in; each compared with the MPilot file written from the mapping rule and with the model; distinct by source text",
        explanation="theorems in Props/C16.lean hold for the conversion model and for the tables regenerated from the source (table_total_except_known is re-proved by "
                    "decide on every run); the loaded program of the real from_source is compared with the model's pipeline; equivalence with the hand-mapped MPilot "
                    "file (structure and computed results with the real bodies) is evaluated on the implementation")


def replay(path):
    import json
    print(json.dumps(json.load(open(path)), indent=1)[:6000])
    return 0
