"""C19 — command lookup depends only on the libraries requested.

proof:          lean/MPilot/Props/C19.lean (+ Generated/Decls.lean, Generated/Libraries.lean regenerated from the source on every run)
correspondence: fresh interpreter per history: random interleavings of class definitions in synthetic user libraries with prefix-related names
                (ulib, ulib_extra, ulib.sub, ulibx, vlib) and Program constructions for subsets/orders of built-in and user libraries;
                the {command name -> module, implementation} table of every construction, or its duplicate error, vs the model
oracles:        a construction's table equals that of the same request made first thing in a fresh process containing the same definitions
                (history independence); only requested libraries and their sub-modules contribute; same-named commands from two requested
                libraries fail at construction; libraries whose names differ only in the case of a letter are different libraries (synthetic modules and
                files `dlib.py` / `DLib.py`, `dpack/` / `Dpack/`); the same files under two module names - a linked package folder, a linked module, a
                package whose parent folder is on the search path too - are a library under each name, in whatever order they are asked for
"""
import json
import os
import subprocess
import sys

from .. import common
from ..common import enc_str

BUILTIN = ["mpilot.libraries.eems.basic", "mpilot.libraries.eems.csv", "mpilot.libraries.eems.netcdf", "mpilot.libraries.eems.fuzzy"]
USER_MODULES = ["ulib", "ulib_extra", "ulib.sub", "ulib.sub.deep", "ulibx", "vlib", "vlib.a", "vlib.b", "vlib.a.x.y", "ulib_sub", "vlibxa", "ulibXsub.deep",
                # names that differ from another one only in the case of a letter (two different modules), at the top and below a dot
                "ULib", "ulib.Sub", "Vlib.a", "vlib.A"]
USER_LIBS = ["ulib", "ulib_extra", "ulibx", "vlib", "ulib.sub", "vlib.a", "ULib", "ulib.Sub", "vlib.A"]
NAMES = ["Alpha", "Beta", "Gamma", "Sum", "EEMSRead"]

RUNNER = r'''
import sys, json, types
sys.path.insert(0, SCRATCH)
history = json.loads(HISTORY)
mods = {}
for m in USER_MODULES:
    mod = types.ModuleType(m); sys.modules[m] = mod; mods[m] = mod
for m in USER_MODULES:
    if "." in m and m.rsplit(".", 1)[0] in mods:
        setattr(mods[m.rsplit(".", 1)[0]], m.rsplit(".", 1)[1], mods[m])
from mpilot.program import Program
from mpilot.exceptions import MPilotError
out = []
for ev in history:
    if ev[0] == "d":
        _, module, name, impl = ev
        code = "from mpilot.commands import Command\nclass K(Command):\n    name = %r\n    IMPL = %d\n" % (name, impl)
        ns = {"__name__": module}
        exec(compile(code, module, "exec"), ns)
        setattr(mods[module], "K_%d" % impl, ns["K"])
    else:
        try:
            p = Program(libraries=tuple(ev[1]))
            out.append(["ok", sorted("%s=%s#%d" % (n, c.__module__, getattr(c, "IMPL", 0)) for n, c in p.command_library.items())])
        except MPilotError as e:
            msg = str(e)
            out.append(["dup", sorted(x.strip() for x in msg.split(":")[-1].split(","))])
        except Exception as e:
            out.append(["raw", type(e).__name__ + ": " + str(e)[:200]])
print(json.dumps(out))
'''


_HASHSEED = [0]


def hash_env():
    """every fresh interpreter gets another hash seed: which commands a request is offered does not depend on the iteration order of sets and dicts of names"""
    _HASHSEED[0] += 1
    return dict(os.environ, PYTHONHASHSEED=str((_HASHSEED[0] * 7919) % 4294967295))


def run_history(history, scratch):
    code = RUNNER.replace("SCRATCH", repr(scratch)).replace("HISTORY", repr(json.dumps(history))).replace("USER_MODULES", repr(USER_MODULES))
    p = subprocess.run([sys.executable, "-c", code], stdout=subprocess.PIPE, stderr=subprocess.PIPE, universal_newlines=True, timeout=300, env=hash_env())
    if p.returncode != 0:
        return None, p.stderr[-800:]
    return json.loads(p.stdout.strip().split("\n")[-1]), None


def builtin_entries():
    """(module, name) of every class the built-in library modules define"""
    from mpilot.program import Program
    from mpilot.commands import Command
    for lib in BUILTIN:
        Program.load_commands(lib)
    return sorted(set((i.module, i.command.name) for i in Command.get_commands() if i.module.startswith("mpilot.libraries.eems")))


def gen_history(rng, impl_counter):
    n = rng.randrange(2, 9)
    hist = []
    for _ in range(n):
        if rng.random() < 0.55:
            impl_counter[0] += 1
            hist.append(["d", rng.choice(USER_MODULES), rng.choice(NAMES), impl_counter[0]])
        else:
            k = rng.randrange(1, 4) if rng.random() < 0.9 else 0        # sometimes the empty request: no library, no command
            pool = USER_LIBS + BUILTIN + (["mpilot.libraries.eems"] if rng.random() < 0.15 else [])
            hist.append(["c", rng.sample(pool, k)])
    hist.append(["c", rng.sample(USER_LIBS + BUILTIN, rng.randrange(1, 4))])
    return hist


def model_line(hist, builtin):
    parts = ["registry", str(len(builtin))] + ["%s %s" % (enc_str(m), enc_str(n)) for m, n in builtin] + [str(len(hist))]
    for ev in hist:
        if ev[0] == "d":
            parts.append("d %s %s %d" % (enc_str(ev[1]), enc_str(ev[2]), ev[3]))
        else:
            parts.append("c %d %s" % (len(ev[1]), " ".join(enc_str(l) for l in ev[1])))
    return " ".join(parts)


def fmt(o):
    return "%s %s" % (o[0], ",".join(o[1])) if o[0] in ("ok", "dup") else "raw " + str(o[1])


def check_offer(ctx, before, libs, out, hist):
    """user libraries: first definition of a (module, name) wins; a name defined twice under the requested libraries must be refused"""
    seen, expect, clash = set(), {}, False
    for e in before:
        if e[0] == "d" and (e[1], e[2]) not in seen:
            seen.add((e[1], e[2]))
            if any(e[1] == l or e[1].startswith(l + ".") for l in libs):
                clash = clash or e[2] in expect
                expect[e[2]] = "%s=%s#%d" % (e[2], e[1], e[3])
    builtin_requested = any(l.startswith("mpilot.") for l in libs)
    if out[0] == "ok":
        if clash:
            ctx.fail("two commands of the same name under the requested libraries %r were accepted: %r" % (libs, out[1][:6]), {"history": hist, "request": libs})
        elif not builtin_requested:
            if sorted(out[1]) != sorted(expect.values()):
                ctx.fail("requesting %r offers %r; the classes defined under those libraries are %r" % (libs, sorted(out[1]), sorted(expect.values())), {"history": hist, "request": libs})
    elif out[0] == "dup" and not clash and not builtin_requested:
        ctx.fail("requesting %r was refused for duplicates %r although no name is defined twice under those libraries" % (libs, out[1]), {"history": hist, "request": libs})


# ---- libraries that exist only as files: their commands register when (and only when) the library is imported by a Program that requests it

DISK_FILES = {
    "dl.py": ("dl", "Eps"), "dlib.py": ("dlib", "Alpha"), "dlib_extra/__init__.py": None, "dlib_extra/inner.py": ("dlib_extra.inner", "Beta"),
    "dlib_more.py": ("dlib_more", "Gamma"), "dlibx.py": ("dlibx", "Delta"), "dpack/__init__.py": ("dpack", "Zeta"), "dpack/sub.py": ("dpack.sub", "Eta"),
    "dpack/sub2.py": ("dpack.sub2", "Alpha"), "dpack/inner/__init__.py": None, "dpack/inner/deep.py": ("dpack.inner.deep", "Theta"),
    "dpack_more/__init__.py": None, "dpack_more/inner.py": ("dpack_more.inner", "Iota"), "dpack_more/nested/__init__.py": None, "dpack_more/nested/leaf.py": ("dpack_more.nested.leaf", "Kappa"),
    # names that differ from a dotted library name only in the character at the place of the dot
    "dpack_sub.py": ("dpack_sub", "Lambda"), "dpackXsub/__init__.py": None, "dpackXsub/m.py": ("dpackXsub.m", "Mu"), "dlib_extraZinner.py": ("dlib_extraZinner", "Nu"),
    # a package that can be imported under two names because its parent folder is on the module search path as well: douter.dinner and dinner
    "douter/__init__.py": None, "douter/dinner/__init__.py": None, "douter/dinner/cmds.py": ("douter.dinner.cmds", "Xi"),
}
# names that differ from another library's only in the case of a letter: other files, other modules (where the file system tells them apart), one command name shared
CASE_FILES = {"DLib.py": ("DLib", "Omicron"), "Dpack/__init__.py": None, "Dpack/sub.py": ("Dpack.sub", "Eta"), "Dpack/other.py": ("Dpack.other", "Pi"), "dpack_more/Inner.py": ("dpack_more.Inner", "Rho")}
CASE_LIBS = ["DLib", "Dpack", "Dpack.sub", "dpack_more.Inner"]
# the same files under a second module name through symbolic links (a package folder, a single module): link -> (target, what the library offers under the link's name)
LINKS = {"dlink": ("dpack_more", [("dlink.inner", "Iota"), ("dlink.nested.leaf", "Kappa")]), "dlibx_alias.py": ("dlibx.py", [("dlibx_alias", "Delta")])}
LINK_LIBS = ["dlink", "dlink.nested", "dlibx_alias"]
TWICE_ON_PATH = [("dinner.cmds", "Xi")]
TWICE_LIBS = ["dinner", "douter", "douter.dinner"]
DISK_LIBS = ["dl", "dlib", "dlib_extra", "dlib_more", "dlibx", "dpack", "dpack.sub", "dlib_extra.inner", "dpack.inner", "dpack_more", "dpack_more.nested", "dpack_sub", "dpackXsub", "dlib_extraZinner"]
MISSING_LIBS = ["no_such_library", "dpack.no_such_module"]

DISK_RUNNER = r'''
import sys, json
sys.path.insert(0, SCRATCH)
sys.path.insert(0, LIBDIR)
sys.path.insert(1, LIBDIR + "/douter")
from mpilot.program import Program
from mpilot.exceptions import MPilotError
out = []
for libs in json.loads(REQUESTS):
    try:
        p = Program(libraries=tuple(libs)) if libs != "default" else Program()
        out.append(["ok", sorted("%s=%s" % (n, c.__module__) for n, c in p.command_library.items())])
    except MPilotError as e:
        out.append(["dup", sorted(x.strip() for x in str(e).split(":")[-1].split(","))])
    except Exception as e:
        out.append(["raw", type(e).__name__ + ": " + str(e)[:200]])
print(json.dumps(out))
'''


def disk_histories(ctx, scratch):
    """request sequences over on-disk libraries with prefix-related names, each sequence in a fresh interpreter: every request is offered exactly the
    commands of the modules under the libraries it names - whatever was requested before, in whatever order; the empty request is offered nothing"""
    rng = ctx.rng
    libdir = common.tmpdir("mpv_c19_")
    for rel, what in DISK_FILES.items():
        path = os.path.join(libdir, rel)
        os.makedirs(os.path.dirname(path), exist_ok=True)
        with open(path, "w") as f:
            if what:
                f.write("from mpilot.commands import Command\n\n\nclass %s(Command):\n    def execute(self, **kwargs):\n        return None\n" % what[1])
    defined = [w for w in DISK_FILES.values() if w] + TWICE_ON_PATH
    disk_libs = DISK_LIBS + TWICE_LIBS
    for rel, what in CASE_FILES.items():
        path = os.path.join(libdir, rel)
        os.makedirs(os.path.dirname(path), exist_ok=True)
        if not os.path.exists(path):            # (on a file system that folds case `DLib.py` is `dlib.py`: the case-variant libraries are then left out)
            with open(path, "w") as f:
                if what:
                    f.write("from mpilot.commands import Command\n\n\nclass %s(Command):\n    def execute(self, **kwargs):\n        return None\n" % what[1])
    case_sensitive = set(os.listdir(libdir)) >= {"DLib.py", "dlib.py", "Dpack", "dpack"}
    ctx.count("file_system_case_sensitive", int(case_sensitive))
    if case_sensitive:
        defined += [w for w in CASE_FILES.values() if w]
        disk_libs += CASE_LIBS
    links = True
    try:
        for link, (target, offers) in LINKS.items():
            os.symlink(target, os.path.join(libdir, link))
            defined += offers + ([("dlink.Inner", "Rho")] if case_sensitive and link == "dlink" else [])
        disk_libs += LINK_LIBS
    except (OSError, NotImplementedError):
        links = False
    ctx.count("symbolic_links_available", int(links))
    builtin = {}
    for m, n in builtin_entries():
        builtin.setdefault(m, []).append(n)

    def expected(libs):
        if libs == "default":
            libs = ["mpilot.libraries.eems.basic", "mpilot.libraries.eems.csv", "mpilot.libraries.eems.fuzzy"]
        table = ["%s=%s" % (n, m) for m, n in defined if any(m == l or m.startswith(l + ".") for l in libs)]
        for m, names in builtin.items():
            if any(m == l or m.startswith(l + ".") for l in libs):
                table += ["%s=%s" % (n, m) for n in names]
        return sorted(table)

    seqs = [[["dl"], ["dlib"], ["dlib_extra"], ["dlib_more"], ["dlibx"], ["dpack.sub"], ["dpack"]],
            [["dpack"], ["dpack_more"], ["dpack_more.nested"], ["dlib_extra"], ["dlib"]], [["dlib", "dpack"], ["dpack_more", "dpack"], ["dpack_more"]],
            # a request refused for a duplicate command is refused again when repeated (and again after other requests)
            [["dlib", "dpack"], ["dlib", "dpack"], ["dlib"], ["dlib", "dpack"]], [BUILTIN[1:3], BUILTIN[1:3], [BUILTIN[1]], BUILTIN[1:3]],
            [["dlib"], ["dlib_extra", "dlib_more"], ["dlib"]], [[], ["dlib"], []],
            # a dot in a library name is a dot
            [["dpack_sub"], ["dpackXsub"], ["dpack.sub"], ["dpack_sub", "dpack.sub"]], [["dlib_extraZinner"], ["dlib_extra.inner"]], [["dpack_sub", "dpackXsub", "dlib_extraZinner"], ["dpack.sub", "dlib_extra.inner"]],
            # a request that fails because one of its libraries cannot be imported leaves nothing behind: later requests get what they name
            [["no_such_library", "dlib"], ["dlib"]], [["dlib_extra", "no_such_library", "dpack"], ["dpack"], ["dlib_extra"], ["dlib_extra", "dpack"]],
            [["dpack.no_such_module", "dlib_more"], ["dlib_more", "dl"], ["dpack.no_such_module", "dlib_more"], ["dlib_more"]], ["default", [], ["dlib"], "default"], [["dpack"], ["dpack.sub"], ["dlib_extra.inner"], ["dlib_extra"]],
            # one package importable under two names (its parent folder is on the search path too): each name offers the package's commands, whichever was asked first
            [["dinner"], ["douter"], ["douter.dinner"], ["dinner"]], [["douter.dinner"], ["dinner"], ["dinner", "douter"]], [["douter"], ["dinner"], ["douter"]]]
    if case_sensitive:
        # libraries whose names differ only in the case of a letter are different libraries: each request gets its own, before and after the other was loaded
        seqs += [[["dlib"], ["DLib"], ["dlib"]], [["DLib"], ["dlib"], ["DLib", "dlib"]], [["Dpack"], ["dpack"], ["Dpack"], ["dpack.sub"], ["Dpack.sub"]], [["dpack"], ["Dpack"], ["dpack"], ["dpack.sub", "Dpack.sub"]],
                 [["dpack_more.Inner"], ["dpack_more.inner"], ["dpack_more"]], [["dlib", "Dpack"], ["DLib", "dpack_more"], ["dlib", "Dpack"]]]
    if links:
        # the same files reachable under two module names (a linked package folder, a linked module): each name is a library of its own
        seqs += [[["dpack_more"], ["dlink"], ["dpack_more"]], [["dlink"], ["dpack_more"], ["dlink"]], [["dlink.nested"], ["dpack_more.nested"], ["dlink.nested"], ["dlink"]], [["dlibx"], ["dlibx_alias"], ["dlibx"]],
                 [["dlibx_alias"], ["dlibx"]], [["dlink", "dpack_more"], ["dlink"]], [["dpack_more", "dl"], ["dlink", "dlibx_alias"], ["dlibx", "dpack_more.nested"]]]
    for _ in range(ctx.budget(8, 200)):
        seq = []
        for _ in range(rng.randrange(2, 7)):
            r = rng.random()
            seq.append([] if r < 0.1 else "default" if r < 0.15 else rng.sample(disk_libs + BUILTIN[:1] + (MISSING_LIBS if r > 0.85 else []), rng.randrange(1, 4)))
        seqs.append(seq)
    for seq in seqs:
        code = DISK_RUNNER.replace("SCRATCH", repr(scratch)).replace("LIBDIR", repr(libdir)).replace("REQUESTS", repr(json.dumps(seq)))
        p = subprocess.run([sys.executable, "-c", code], stdout=subprocess.PIPE, stderr=subprocess.PIPE, universal_newlines=True, timeout=300, env=hash_env())
        ctx.case("disk " + json.dumps(seq), sample={"requests": seq})
        ctx.count("disk_request_sequences")
        if p.returncode != 0:
            ctx.fail("a sequence of Program constructions crashed the interpreter: %s" % p.stderr[-400:], {"requests": seq})
            continue
        outs = json.loads(p.stdout.strip().split("\n")[-1])
        for k, (libs, o) in enumerate(zip(seq, outs)):
            if libs != "default" and any(l in MISSING_LIBS for l in libs):
                ctx.count("disk_requests_naming_a_missing_library")
                if o[0] == "ok":
                    ctx.fail("request %d %r names a library that cannot be imported but was accepted" % (k, libs), {"requests": seq, "got": o[1][:8]})
                continue
            want = expected(libs)
            names = [x.split("=")[0] for x in want]
            ctx.count("disk_requests")
            if len(set(names)) != len(names):
                if o[0] != "dup":
                    ctx.fail("request %d %r of the sequence names two commands of the same name but was accepted" % (k, libs), {"requests": seq, "got": o[1][:8]})
            elif o[0] != "ok" or o[1] != want:
                ctx.fail("request %d %r of the sequence is offered %s; the modules under the requested libraries define %r" % (
                    k, libs, (o[0] + " " + repr(o[1]))[:300], want[:12]), {"requests": seq, "request": libs})


STAGED_RUNNER = r'''
import sys, json, os
sys.path.insert(0, SCRATCH)
sys.path.insert(0, LIBDIR)
from mpilot.program import Program
from mpilot.exceptions import MPilotError
progs, lists, out = {}, {}, []
def table(p, names):
    # what the program offers now: through its table and through look-ups (a name that is not there is asked first)
    p.find_command_class("NoSuchCommandAnywhere")
    t = sorted("%s=%s" % (n, c.__module__) for n, c in p.command_library.items())
    l = sorted("%s=%s" % (n, p.find_command_class(n).__module__) for n in names if p.find_command_class(n) is not None)
    return [t, l]
for step in json.loads(STEPS):
    op = step[0]
    try:
        if op == "new":          # ["new", key, libs, how]  how: tuple | list (the caller keeps the list under the same key)
            libs = list(step[2])
            if step[3] == "list":
                lists[step[1]] = libs
            progs[step[1]] = Program(libraries=(libs if step[3] == "list" else tuple(libs)))
            out.append(["ok", table(progs[step[1]], NAMES)])
        elif op == "edit":       # ["edit", key, libs]: the caller reuses its list for something else
            lists[step[1]][:] = step[2]
            out.append(["ok", None])
        elif op == "ask":        # ["ask", key]: the program built earlier, asked again
            out.append(["ok", table(progs[step[1]], NAMES)])
        elif op == "touch":      # ["touch", relpath] / ["remove", relpath]: the world changes
            open(os.path.join(LIBDIR, step[1]), "w").close(); out.append(["ok", None])
        elif op == "remove":
            os.remove(os.path.join(LIBDIR, step[1])); out.append(["ok", None])
    except MPilotError as e:
        out.append(["mp", type(e).__name__])
    except Exception as e:
        out.append(["raw", type(e).__name__ + ": " + str(e)[:120]])
print(json.dumps(out))
'''


def staged_histories(ctx, scratch):
    """histories in which something other than requests happens between the requests (each in a fresh interpreter):
    * a package one of whose sub-modules cannot be imported at first (it raises while a marker file exists) and can later: once the cause is gone a request
      for that library is offered ALL its commands - also the ones of the module that failed and of the modules after it -, whatever failed before;
    * the caller passes its libraries as a list and reuses that list afterwards for another program: the first program keeps offering what was requested
      for IT, through its table and through look-ups (a missing name asked first), before and after the other program is built"""
    libdir = common.tmpdir("mpv_c19s_")
    cmd = "from mpilot.commands import Command\n\n\nclass %s(Command):\n    def execute(self, **kwargs):\n        return None\n"
    files = {"sl.py": cmd % "Alpha", "sm.py": cmd % "Gamma", "sfaulty/__init__.py": "", "sfaulty/a.py": cmd % "Sigma",
             "sfaulty/b.py": "import os\nif os.path.exists(os.path.join(os.path.dirname(os.path.dirname(os.path.abspath(__file__))), 'broken.flag')):\n    raise RuntimeError('service not reachable')\n" + cmd % "Upsilon",
             "sfaulty/c.py": cmd % "Tau", "sfaulty/deep/__init__.py": "", "sfaulty/deep/d.py": cmd % "Phi"}
    for rel, text in files.items():
        path = os.path.join(libdir, rel)
        os.makedirs(os.path.dirname(path), exist_ok=True)
        with open(path, "w") as f:
            f.write(text)
    names = ["Alpha", "Gamma", "Sigma", "Upsilon", "Tau", "Phi"]
    offers = {"sl": ["Alpha=sl"], "sm": ["Gamma=sm"], "sfaulty": ["Phi=sfaulty.deep.d", "Sigma=sfaulty.a", "Tau=sfaulty.c", "Upsilon=sfaulty.b"], "sfaulty.deep": ["Phi=sfaulty.deep.d"]}

    def want(libs):
        return sorted(x for l in libs for x in offers[l])

    scenarios = []
    for first in (["sfaulty"], ["sl", "sfaulty"], ["sfaulty.deep", "sl"]):
        for between in ([], [["new", "q", ["sl"], "tuple"]], [["new", "q", ["sfaulty"], "tuple"], ["new", "q2", ["sm"], "tuple"]]):
            scenarios.append([["touch", "broken.flag"], ["new", "p", first, "tuple"]] + between + [["remove", "broken.flag"], ["new", "r", first, "tuple"], ["new", "r2", ["sfaulty"], "tuple"],
                              ["new", "r3", ["sm", "sfaulty"], "list"]])
    for a, b in ((["sl"], ["sm"]), (["sl"], ["sl", "sm"]), (["sfaulty", "sl"], ["sm"]), (["sm"], [])):
        scenarios.append([["new", "p", a, "list"], ["edit", "p", b], ["ask", "p"], ["new", "q", b, "tuple"], ["ask", "p"], ["new", "p2", b, "list"], ["ask", "p"], ["ask", "p2"]])
    for sc in scenarios:
        code = STAGED_RUNNER.replace("SCRATCH", repr(scratch)).replace("LIBDIR", repr(libdir)).replace("STEPS", repr(json.dumps(sc))).replace("NAMES", repr(names))
        p = subprocess.run([sys.executable, "-c", code], stdout=subprocess.PIPE, stderr=subprocess.PIPE, universal_newlines=True, timeout=300, env=hash_env())
        ctx.case("staged " + json.dumps(sc), sample={"steps": sc})
        ctx.count("staged_histories")
        if os.path.exists(os.path.join(libdir, "broken.flag")):
            os.remove(os.path.join(libdir, "broken.flag"))
        if p.returncode != 0:
            ctx.fail("a history of Program constructions crashed the interpreter: %s" % p.stderr[-400:], {"steps": sc})
            continue
        outs = json.loads(p.stdout.strip().split("\n")[-1])
        requested, broken = {}, False
        for k, (step, o) in enumerate(zip(sc, outs)):
            if step[0] == "touch":
                broken = True
            elif step[0] == "remove":
                broken = False
            elif step[0] == "new":
                requested[step[1]] = list(step[2])
            if step[0] not in ("new", "ask"):
                continue
            libs = requested[step[1]]
            if step[0] == "new" and broken and any(l == "sfaulty" for l in libs):
                ctx.count("staged_requests_while_a_module_cannot_be_imported")
                if o[0] == "ok" and o[1][0] != want(libs):
                    ctx.fail("step %d: a library one of whose modules cannot be imported was accepted with part of its commands: %r" % (k, o[1][0]), {"steps": sc})
                requested.pop(step[1], None) if o[0] != "ok" else None
                continue
            if step[1] not in requested:
                continue
            if o[0] != "ok":
                ctx.fail("step %d %r: %s - the libraries %r can all be imported at this point" % (k, step, o, libs), {"steps": sc})
            elif o[1][0] != want(libs) or o[1][1] != want(libs):
                ctx.fail("step %d %r: the program built for the libraries %r offers %r (by look-up: %r); those libraries define %r" % (k, step, libs, o[1][0], o[1][1], want(libs)), {"steps": sc})


def run(ctx):
    ctx.check_proofs(["MPilot.Props.C19", "MPilot.Props.C19Hist"])
    model = common.Model()
    rng = ctx.rng
    scratch = common.scratch_repo()
    builtin = builtin_entries()
    hists = [gen_history(rng, [0]) for _ in range(ctx.budget(6, 300))]
    # targeted: one requested package whose sub-modules define the same name; prefix-related libraries requested together; the whole eems package
    hists += [
        [["d", "vlib.a", "Alpha", 1], ["d", "vlib.b", "Alpha", 2], ["c", ["vlib"]], ["c", ["vlib.a"]], ["c", ["vlib.b", "vlib.a"]]],
        [["d", "ulib", "Alpha", 1], ["d", "ulib_extra", "Beta", 2], ["d", "ulib.sub", "Gamma", 3], ["c", ["ulib", "ulib_extra"]], ["c", ["ulib_extra", "ulib"]], ["c", ["ulib"]], ["c", ["ulibx", "ulib.sub"]]],
        [["c", ["mpilot.libraries.eems"]], ["c", ["mpilot.libraries.eems.csv"]], ["d", "ulib", "EEMSRead", 1], ["c", ["mpilot.libraries.eems.netcdf"]], ["c", ["ulib", "mpilot.libraries.eems.csv"]]],
        [["d", "ulib", "Alpha", 1], ["c", ["ulib"]], ["d", "ulib", "Alpha", 2], ["c", ["ulib"]], ["d", "vlib", "Alpha", 3], ["c", ["ulib"]], ["c", ["vlib", "ulib"]]],
        [["c", []], ["d", "ulib", "Alpha", 1], ["c", []], ["c", ["ulib"]], ["c", []]],
        [["d", "ulib", "Alpha", 1], ["d", "vlib", "Alpha", 2], ["c", ["ulib", "vlib"]], ["c", ["ulib", "vlib"]], ["c", ["vlib"]], ["c", ["ulib", "vlib"]], ["c", ["vlib", "ulib"]]],
        # commands defined after a Program for the same request was built (a plug-in registered late, a class defined in __main__): the next Program sees them
        [["c", ["ulib"]], ["d", "ulib", "Alpha", 1], ["c", ["ulib"]], ["d", "ulib.sub", "Beta", 2], ["c", ["ulib"]], ["d", "ulibx", "Gamma", 3], ["c", ["ulib"]]],
        [["c", ["vlib", "ulib"]], ["d", "vlib.a", "Alpha", 1], ["c", ["vlib", "ulib"]], ["d", "ulib", "Alpha", 2], ["c", ["vlib", "ulib"]], ["c", ["ulib", "vlib"]]],
        # commands several package levels below the requested library
        [["d", "ulib.sub.deep", "Alpha", 1], ["d", "vlib.a.x.y", "Beta", 2], ["c", ["ulib"]], ["c", ["ulib.sub"]], ["c", ["vlib"]], ["c", ["vlib.a"]], ["c", ["ulib.sub.deep", "vlib.b"]]],
        [["d", "ulib.sub.deep", "Alpha", 1], ["d", "ulib", "Alpha", 2], ["c", ["ulib"]], ["c", ["ulib.sub"]]],
        # several commands of ONE module whose classes share a Python class name and differ only in their explicit command name (a class factory): all are offered
        [["d", "ulib", "Alpha", 1], ["d", "ulib", "Beta", 2], ["d", "ulib", "Gamma", 3], ["c", ["ulib"]], ["c", ["ulib"]]],
        [["d", "vlib.a", "Beta", 1], ["c", ["vlib"]], ["d", "vlib.a", "Alpha", 2], ["c", ["vlib"]], ["d", "vlib", "Gamma", 3], ["d", "vlib", "Sum", 4], ["c", ["vlib"]], ["c", ["vlib.a"]]],
        [["d", "ulibx", "Beta", 1], ["d", "ulib_extra", "Alpha", 2], ["d", "ulibx", "Alpha", 3], ["d", "ulib_extra", "Beta", 4], ["c", ["ulibx"]], ["c", ["ulib_extra"]], ["c", ["ulib_extra", "vlib"]]],
        # libraries whose names differ only in the case of a letter (`ulib` / `ULib`, `vlib.a` / `vlib.A` / `Vlib.a`): two libraries - own commands, a shared command name is no duplicate
        [["d", "ulib", "Alpha", 1], ["d", "ULib", "Beta", 2], ["c", ["ulib"]], ["c", ["ULib"]], ["d", "ULib", "Alpha", 3], ["c", ["ulib"]], ["c", ["ULib"]], ["c", ["ULib", "ulib"]]],
        [["d", "vlib.a", "Alpha", 1], ["d", "vlib.A", "Alpha", 2], ["d", "Vlib.a", "Gamma", 3], ["c", ["vlib.a"]], ["c", ["vlib.A"]], ["c", ["vlib"]], ["d", "ulib.Sub", "Beta", 4], ["d", "ulib.sub", "Beta", 5], ["c", ["ulib.sub"]], ["c", ["ulib.Sub"]]],
    ]
    answers = model.ask([model_line(h, builtin) for h in hists])
    for hist, ans in zip(hists, answers):
        outs, err = run_history(hist, scratch)
        ctx.case(json.dumps(hist), sample={"history": hist, "impl": [fmt(o)[:160] for o in (outs or [])], "model": ans[:300]})
        ctx.count("history_len:%d" % len(hist))
        if outs is None:
            ctx.fail("history crashed the interpreter: %s" % err, {"history": hist})
            continue
        got = " ; ".join(fmt(o) for o in outs)
        for o in outs:
            ctx.count("construct:" + o[0])
            if o[0] == "raw":
                ctx.fail("Program construction raised %s" % o[1], {"history": hist})
        if got != ans:
            ctx.disagree("registry", {"history": hist}, got[:800], ans[:800])
        # history independence on the implementation: replay only the definitions, then the last request, in a fresh process
        last = [e for e in hist if e[0] == "c"][-1]
        defs = [e for e in hist if e[0] == "d"]
        fresh, err2 = run_history(defs + [last], scratch)
        ctx.count("fresh_process_twins")
        if fresh is None or fmt(fresh[-1]) != fmt(outs[-1]):
            ctx.fail("the same request gives a different command table after other Programs were constructed in the process: %s vs fresh %s" % (
                fmt(outs[-1])[:300], fmt(fresh[-1])[:300] if fresh else err2), {"history": hist, "request": last})
        # exactly the commands defined under the requested libraries are offered, at every construction of the history
        ci = -1
        for pos, ev in enumerate(hist):
            if ev[0] != "c":
                continue
            ci += 1
            check_offer(ctx, hist[:pos], ev[1], outs[ci], hist)
        # only requested libraries contribute
        if outs[-1][0] == "ok":
            for item in outs[-1][1]:
                mod = item.split("=")[1].split("#")[0]
                if not any(mod == l or mod.startswith(l + ".") for l in last[1]):
                    ctx.fail("command %s comes from module %s, which is not one of the requested libraries %r nor beneath one" % (item, mod, last[1]), {"history": hist})
    disk_histories(ctx, scratch)
    staged_histories(ctx, scratch)
    return ctx.finish(
        rule="histories of 3-9 events in a fresh interpreter each: class definitions (5 command names incl. names of built-ins) in 7 synthetic modules whose names are "
             "prefixes/extensions/sub-modules of one another, interleaved with Program constructions for 1-3 libraries drawn from user and built-in libraries "
             "(occasionally the whole eems package, whose CSV and NetCDF readers clash); every construction's table or duplicate error; distinct by history",
        explanation="theorems in Props/C19.lean hold for the registry model (lookup depends only on the entries under the requested libraries; no prefix capture; duplicates "
                    "rejected; built-in library tuples duplicate-free - re-checked against the regenerated declarations); the real registry is compared with the model on every "
                    "history, and each final request is replayed in a fresh process")


def replay(path):
    print(json.dumps(json.load(open(path)), indent=1)[:6000])
    return 0
