"""C07 — arithmetic commands are correct for all numeric types and input orders.

proof:          lean/MPilot/Props/C07.lean
correspondence: the ten arithmetic commands, 1-5 inputs, every int/float mix, lattice with zeros/negatives, weights
oracles:        exact reference definition + documented element type; every input order gives the same outcome;
                division by zero gives a missing cell; specific errors for shapes / weight counts / empty lists
"""
import itertools

import numpy

from .. import common, eems, reference
from ..eems import Case
from . import numeric

COMMUTATIVE = {"Sum", "Multiply", "Minimum", "Maximum", "Mean", "WeightedSum", "WeightedMean"}


def gen_types(ctx, max_n):
    """every int/float mix for 1..max_n inputs"""
    cases = []
    for cmd in eems.ARITH:
        how = eems.COMMANDS[cmd][1]
        ns = [1] if how == "one" else [2] if how == "ab" else list(range(1, max_n + 1))
        for n in ns:
            for dts in itertools.product([int, float], repeat=n):
                shape = eems.rand_shape(ctx.rng)
                inputs = [eems.rand_array(ctx.rng, shape, dt) for dt in dts]
                cases.append(Case(cmd, eems.gen_params(ctx.rng, cmd, inputs), inputs))
    return cases


PAIR_LATTICE = [-2, -1, -0.5, 0, 0.5, 1, 2]


def gen_pairs(ctx):
    """two-input cases whose columns enumerate every pair over a small lattice (zeros on either side, 0/0, negatives), int and float"""
    cases = []
    for dts in itertools.product([int, float], repeat=2):
        lat = [v for v in PAIR_LATTICE if dts == (float, float) or float(v) == int(v)]
        cols = list(itertools.product(lat, repeat=2))
        a = numpy.ma.array(numpy.array([c[0] for c in cols], dtype=dts[0]), mask=[False] * len(cols))
        b = numpy.ma.array(numpy.array([c[1] for c in cols], dtype=dts[1]), mask=[False] * len(cols))
        for cmd in ["ADividedByB", "AMinusB", "Sum", "Multiply", "Minimum", "Maximum", "Mean"]:
            cases.append(Case(cmd, {}, [a.copy(), b.copy()]))
        for w in ([1, 1], [2, -1], [0.5, 0.25], [1, -1], [0, 0]):
            cases.append(Case("WeightedSum", {"Weights": list(w)}, [a.copy(), b.copy()]))
            cases.append(Case("WeightedMean", {"Weights": list(w)}, [a.copy(), b.copy()]))
    return cases


def gen_random(ctx, cmds, count, style):
    return [eems.gen_case(ctx.rng, cmd, style=style) for cmd in cmds for _ in range(count)]


def errors(ctx):
    """mismatched shapes, weight counts and empty lists are reported by their specific errors"""
    rng = ctx.rng
    a = eems.rand_array(rng, (3,), float)
    b = eems.rand_array(rng, (2, 2), float)
    checks = []
    # unrelated shapes and shapes that differ only by length-1 axes (numpy would broadcast these silently)
    pairs = [((3,), (2, 2)), ((3,), (4,)), ((3, 1), (3,)), ((3,), (3, 1)), ((1, 3), (3, 1)), ((2, 1, 3), (2, 3)), ((1,), (3,)), ((3,), (1,)),
             ((1, 4), (4,)), ((2, 2), (1, 2, 2)), ((2, 3), (3, 2))]
    for sa, sb in pairs:
        x = eems.rand_array(rng, sa, rng.choice([int, float]))
        y = eems.rand_array(rng, sb, rng.choice([int, float]))
        for cmd in ["Sum", "Multiply", "Minimum", "Maximum", "Mean", "AMinusB", "ADividedByB"]:
            checks.append((Case(cmd, {}, [x, y]), "MixedArrayShapes"))
            if eems.COMMANDS[cmd][1] == "list":
                checks.append((Case(cmd, {}, [x, x.copy(), y]), "MixedArrayShapes"))
        for cmd in ["WeightedSum", "WeightedMean"]:
            checks.append((Case(cmd, {"Weights": [1, 2]}, [x, y]), "MixedArrayShapes"))
    for cmd in ["Sum", "Multiply", "Minimum", "Maximum", "Mean"]:
        checks.append((Case(cmd, {}, []), "EmptyInputs"))
    for cmd in ["WeightedSum", "WeightedMean"]:
        checks.append((Case(cmd, {"Weights": [1, 2]}, [a, b]), "MixedArrayShapes"))
        checks.append((Case(cmd, {"Weights": [1]}, [a, a.copy()]), "MismatchedWeights"))
        checks.append((Case(cmd, {"Weights": [1, 2, 3]}, [a, a.copy()]), "MismatchedWeights"))
        checks.append((Case(cmd, {"Weights": []}, []), "EmptyInputs"))
    for case, want in checks:
        out = eems.run_impl(case)
        ctx.case("err " + case.line(), sample=None)
        ctx.count("c07_error_cases")
        got = out.get("cls") if out["status"] == "err" and out["kind"] == "mp" else eems.impl_summary(out)[:60]
        if got != want:
            ctx.fail("%s with %s: expected %s, got %s" % (case.cmd, "bad shapes/weights/empty list", want, got), case.describe())
        elif out.get("text") is None:
            ctx.fail("%s: str(%s) raised %s" % (case.cmd, want, out.get("str_error")), case.describe())


def run(ctx):
    ctx.check_proofs(["MPilot.Props.C07"])
    model = common.Model()
    orc = numeric.combine(
        numeric.oracle_definition(ctx, reference.ARITH_OPS, "arithmetic", dtype_rule=reference.arith_dtype),
        numeric.oracle_commutative(ctx, COMMUTATIVE, max_perms=5 if not ctx.thorough else 23))
    eems.run_stream(ctx, model, gen_types(ctx, 3 if not ctx.thorough else 5), "exec:arith:type-mixes", on_result=orc)
    eems.run_stream(ctx, model, gen_pairs(ctx), "exec:arith:pair-lattice", on_result=orc)
    eems.run_stream(ctx, model, gen_random(ctx, eems.ARITH, ctx.budget(20, 800), "valid"), "exec:arith:random", on_result=orc)
    eems.run_stream(ctx, model, gen_random(ctx, eems.ARITH, ctx.budget(8, 300), "wild"), "exec:arith:errors", on_result=orc)
    errors(ctx)
    numeric.focus_search(ctx, model, lambda cmds, f: gen_random(ctx, cmds, 20 * f, "valid"), orc)
    return ctx.finish(
        rule="(a) every int/float mix of 1..3 (thorough: 5) inputs per command; (b) random 1-5 input cases over the lattice "
             "{-2..2 step 1/4} / {-3..5} with zeros, negatives, masks; (c) malformed (shapes, weight counts, empty); every "
             "commutative case re-run in other input orders; distinct by protocol line",
        explanation="theorems in Props/C07.lean hold for the model for all inputs; differential execution ties the 10 bodies to the "
                    "model; exact reference definitions, element-type rule, order-invariance and error oracles run on the implementation")


def replay(path):
    from .c04 import replay as r
    return r(path)
