"""C07 — arithmetic commands are correct for all numeric types and input orders.

proof:          lean/MPilot/Props/C07.lean
correspondence: the ten arithmetic commands, 1-5 inputs, every int/float mix, lattice with zeros/negatives, weights
oracles:        exact reference definition + documented element type; every input order gives the same outcome;
                division by zero gives a missing cell; specific errors for shapes / weight counts / empty lists (a shape error names two shapes
                that differ, both among the inputs, the first input's first - 3 and more inputs of several shapes in every order);
                the definitions again on grids of 10^5 .. some 10^6 cells (division: nothing missing, zeros in B)
"""
import itertools

import numpy

from .. import common, eems, reference
from ..eems import Case
from . import numeric

COMMUTATIVE = {"Sum", "Multiply", "Minimum", "Maximum", "Mean", "WeightedSum", "WeightedMean"}


def gen_types(ctx, max_n):
    """every int/float mix for 1..max_n inputs"""
    cases = []
    for cmd in eems.ARITH:
        how = eems.COMMANDS[cmd][1]
        ns = [1] if how == "one" else [2] if how == "ab" else list(range(1, max_n + 1))
        for n in ns:
            for dts in itertools.product([int, float], repeat=n):
                shape = eems.rand_shape(ctx.rng)
                inputs = [eems.rand_array(ctx.rng, shape, dt) for dt in dts]
                cases.append(Case(cmd, eems.gen_params(ctx.rng, cmd, inputs), inputs))
    return cases


PAIR_LATTICE = [-2, -1, -0.5, 0, 0.5, 1, 2]


def gen_pairs(ctx):
    """two-input cases whose columns enumerate every pair over a small lattice (zeros on either side, 0/0, negatives), int and float"""
    cases = []
    for dts in itertools.product([int, float], repeat=2):
        lat = [v for v in PAIR_LATTICE if dts == (float, float) or float(v) == int(v)]
        cols = list(itertools.product(lat, repeat=2))
        a = numpy.ma.array(numpy.array([c[0] for c in cols], dtype=dts[0]), mask=[False] * len(cols))
        b = numpy.ma.array(numpy.array([c[1] for c in cols], dtype=dts[1]), mask=[False] * len(cols))
        for cmd in ["ADividedByB", "AMinusB", "Sum", "Multiply", "Minimum", "Maximum", "Mean"]:
            cases.append(Case(cmd, {}, [a.copy(), b.copy()]))
        for w in ([1, 1], [2, -1], [0.5, 0.25], [1, -1], [0, 0], [2.0, 1.0], [3.0, -1]):
            cases.append(Case("WeightedSum", {"Weights": list(w)}, [a.copy(), b.copy()]))
            cases.append(Case("WeightedMean", {"Weights": list(w)}, [a.copy(), b.copy()]))
    return cases


def gen_random(ctx, cmds, count, style):
    return [eems.gen_case(ctx.rng, cmd, style=style) for cmd in cmds for _ in range(count)]


def errors(ctx):
    """mismatched shapes, weight counts and empty lists are reported by their specific errors"""
    rng = ctx.rng
    a = eems.rand_array(rng, (3,), float)
    b = eems.rand_array(rng, (2, 2), float)
    checks = []
    # unrelated shapes and shapes that differ only by length-1 axes (numpy would broadcast these silently)
    pairs = [((3,), (2, 2)), ((3,), (4,)), ((3, 1), (3,)), ((3,), (3, 1)), ((1, 3), (3, 1)), ((2, 1, 3), (2, 3)), ((1,), (3,)), ((3,), (1,)),
             ((1, 4), (4,)), ((2, 2), (1, 2, 2)), ((2, 3), (3, 2)),
             ((3,), ()), ((), (3,)), ((2, 2), ()), ((), (1,)), ((1, 1), ())]        # a 0-d array (a single value) is not a grid of any shape
    for sa, sb in pairs:
        x = eems.rand_array(rng, sa, rng.choice([int, float]))
        y = eems.rand_array(rng, sb, rng.choice([int, float]))
        for cmd in ["Sum", "Multiply", "Minimum", "Maximum", "Mean", "AMinusB", "ADividedByB"]:
            checks.append((Case(cmd, {}, [x, y]), "MixedArrayShapes"))
            if eems.COMMANDS[cmd][1] == "list":
                checks.append((Case(cmd, {}, [x, x.copy(), y]), "MixedArrayShapes"))
                # several inputs of several wrong shapes, the wrong ones first / last / repeated
                z = eems.rand_array(rng, rng.choice([(5,), (2, 1), (1, 1, 2)]), float)
                checks.append((Case(cmd, {}, [x, y, z]), "MixedArrayShapes"))
                checks.append((Case(cmd, {}, [x, z, x.copy(), y, y.copy()]), "MixedArrayShapes"))
        for cmd in ["WeightedSum", "WeightedMean"]:
            checks.append((Case(cmd, {"Weights": [1, 2]}, [x, y]), "MixedArrayShapes"))
            checks.append((Case(cmd, {"Weights": [1, 2, 0.5]}, [x, y, eems.rand_array(rng, (5,), float)]), "MixedArrayShapes"))
    # three and more inputs of two or three shapes in EVERY order (the odd one first, in the middle, last; the last input of the first one's shape again;
    # two odd ones of one shape or of two): refused whatever the order, and what the error names are two shapes that do differ (see oracle_shape_report)
    import random
    rng3 = random.Random("c07-shape-orders-%s" % ctx.seed)         # (a generator of its own: the cases drawn after these stay what they were under every seed)
    for shapes in ([(3,), (4,), (3,)], [(3,), (4,), (5,)], [(2, 3), (3, 2), (2, 3), (2, 3)], [(3,), (3, 1), (3,), (1, 3)], [(2, 2), (4,), (4,), (2, 2)], [(2,), (2,), (1, 2), (2,), (2,)]):
        fields = {sh: eems.rand_array(rng3, sh, rng3.choice([int, float])) for sh in set(shapes)}
        for order in sorted(set(itertools.permutations(shapes))):
            if len(set(order[:-1])) < 2 and rng3.random() < 0.5:
                continue                                        # (the odd one last: the plain case above, kept half of the time)
            for cmd in ["Sum", "Multiply", "Minimum", "Maximum", "Mean", "WeightedSum", "WeightedMean"]:
                if len(order) > 4 and rng3.random() < 0.5:
                    continue
                ins = [fields[sh].copy() for sh in order]
                checks.append((Case(cmd, {"Weights": [rng3.choice([1, 2, 0.5]) for _ in ins]} if "Weighted" in cmd else {}, ins), "MixedArrayShapes"))
    for cmd in ["Sum", "Multiply", "Minimum", "Maximum", "Mean"]:
        checks.append((Case(cmd, {}, []), "EmptyInputs"))
    for cmd in ["WeightedSum", "WeightedMean"]:
        checks.append((Case(cmd, {"Weights": [1, 2]}, [a, b]), "MixedArrayShapes"))
        checks.append((Case(cmd, {"Weights": [1]}, [a, a.copy()]), "MismatchedWeights"))
        checks.append((Case(cmd, {"Weights": [1, 2, 3]}, [a, a.copy()]), "MismatchedWeights"))
        checks.append((Case(cmd, {"Weights": []}, []), "EmptyInputs"))
    report = numeric.oracle_shape_report(ctx)
    for case, want in checks:
        out = eems.run_impl(case)
        ctx.case("err " + case.line(), sample=None)
        ctx.count("c07_error_cases")
        got = out.get("cls") if out["status"] == "err" and out["kind"] == "mp" else eems.impl_summary(out)[:60]
        if got != want:
            ctx.fail("%s with %s: expected %s, got %s" % (case.cmd, "bad shapes/weights/empty list", want, got), case.describe())
        elif out.get("text") is None:
            ctx.fail("%s: str(%s) raised %s" % (case.cmd, want, out.get("str_error")), case.describe())
        else:
            report(case, out, None)


def unsigned(ctx):
    """unsigned integer arrays (what NetCDF EEMSRead delivers for DataType = 'Positive Integer'): every command must compute the same
    numbers as on the signed arrays.  The one known deviation (A - B wraps where A < B) is listed in known_findings.json by its witness."""
    # the listed witness itself
    a = numpy.ma.array(numpy.array([2, 3, 5], dtype=numpy.uint64))
    b = numpy.ma.array(numpy.array([3, 3, 9], dtype=numpy.uint64))
    out = eems.run_impl(Case("AMinusB", {}, [a, b]))
    got = out["vis"][3] if out["status"] == "ok" else eems.impl_summary(out)
    ctx.count("known_finding_witnesses")
    if got != [-1, 0, -4] and got != [-1.0, 0.0, -4.0]:
        ctx.fail("AMinusB([2, 3, 5], [3, 3, 9]) on unsigned 64-bit arrays = %r, expected [-1, 0, -4]" % (got,), {"A": "[2,3,5] uint64", "B": "[3,3,9] uint64"},
                 finding="C07-F18-unsigned-wrap")
    else:
        ctx.notes.setdefault("known_findings_resolved", []).append("C07-F18-unsigned-wrap")
    rng = ctx.rng
    for i in range(ctx.budget(60, 1500)):
        cmd = rng.choice(eems.ARITH)
        n = {"one": 1, "ab": 2}.get(eems.COMMANDS[cmd][1], rng.choice([1, 2, 3]))
        shape = eems.rand_shape(rng)
        ins = [eems.rand_array(rng, shape, int, [0, 1, 2, 3, 5, 7]) for _ in range(n)]
        params = eems.gen_params(rng, cmd, ins, "valid")
        signed = Case(cmd, params, ins)
        dts = [rng.choice([numpy.uint8, numpy.uint16, numpy.uint32, numpy.uint64]) for _ in ins]
        uns = Case(cmd, params, [numpy.ma.array(numpy.where(numpy.ma.getmaskarray(a), 0, numpy.ma.getdata(a)).astype(dt), mask=numpy.ma.getmaskarray(a).copy())
                                 for a, dt in zip(ins, dts)])
        o1, o2 = eems.run_impl(signed), eems.run_impl(uns)
        ctx.case("unsigned " + uns.line() + repr([str(d) for d in dts]), sample=None)
        ctx.count("c07_unsigned_cases")
        if o1["status"] != "ok":
            continue
        if o2["status"] != "ok":
            ctx.fail("%s fails on unsigned integer arrays: %s" % (cmd, eems.impl_summary(o2)), dict(uns.describe(), dtypes=[str(d) for d in dts]))
            continue
        v1, v2 = o1["vis"][3], o2["vis"][3]
        bad = [k for k, (a, b) in enumerate(zip(v1, v2)) if (a is None) != (b is None) or (a is not None and abs(float(a) - float(b)) > 1e-9 * max(1.0, abs(float(a))))]
        if bad:
            k = bad[0]
            wrap = cmd == "AMinusB" and all(v1[j] is not None and v1[j] < 0 for j in bad) and all(d == dts[0] or True for d in dts) and \
                all(numpy.dtype(d).kind == "u" for d in dts)
            ctx.fail("%s on unsigned integer arrays %s: cell %d is %r, on the same signed values %r" % (cmd, [numpy.dtype(d).name for d in dts], k, v2[k], v1[k]),
                     dict(uns.describe(), dtypes=[str(numpy.dtype(d)) for d in dts]), finding="C07-F18-unsigned-wrap" if wrap else None)


def narrow_floats(ctx):
    """single- and half-precision fields next to double-precision or integer ones, with values at the edge of the narrow type's precision (2048 + 1 in
    float16, 2^24 + 1 in float32): the result is the arithmetic definition computed on all inputs, in every input order"""
    def arr(vals, dt, mask=None):
        return numpy.ma.array(numpy.array(vals, dtype=dt), mask=mask if mask is not None else [False] * len(vals))
    for narrow, edge in ((numpy.float16, 2048), (numpy.float32, 16777216)):
        for wide in (numpy.float64, numpy.int64):
            m = [False, False, False, True]
            a, b = arr([edge, 1, -2, 0], narrow, m), arr([1, 3, 1, 5], wide)
            ra, rb = arr([edge, 1, -2, 0], numpy.float64, m), arr([1, 3, 1, 5], numpy.float64)
            for cmd, params in (("Sum", {}), ("Mean", {}), ("WeightedSum", {"Weights": [1, 1]}), ("WeightedSum", {"Weights": [1.0, 2.0]}), ("WeightedMean", {"Weights": [1, 1]}),
                                ("AMinusB", {}), ("Maximum", {}), ("Minimum", {}), ("Multiply", {}), ("ADividedByB", {})):
                for order in ((0, 1), (1, 0)):
                    p = dict(params)
                    if "Weights" in p:
                        p["Weights"] = [p["Weights"][i] for i in order]
                    case = Case(cmd, p, [[a, b][i].copy() for i in order])
                    out, ref = eems.run_impl(case), eems.run_impl(Case(cmd, p, [[ra, rb][i].copy() for i in order]))
                    ctx.case("narrow-float %s %s %s %r %r" % (narrow.__name__, wide.__name__, cmd, p, order), sample=None)
                    ctx.count("c07_narrow_float_cases")
                    if out["status"] != "ok" or ref["status"] != "ok":
                        if out["status"] != ref["status"]:
                            ctx.fail("%s on (%s, %s) fields: %s" % (cmd, narrow.__name__, wide.__name__, eems.impl_summary(out)), dict(case.describe(), dtypes=[str(x.dtype) for x in case.inputs]))
                        continue
                    v1, v2 = ref["vis"][3], out["vis"][3]
                    bad = [k for k, (x, y) in enumerate(zip(v1, v2)) if (x is None) != (y is None) or (x is not None and abs(float(x) - float(y)) > 1e-9 * max(1.0, abs(float(x))))]
                    if bad:
                        k = bad[0]
                        ctx.fail("%s on a %s field and a %s field (order %r): cell %d is %r, the arithmetic definition gives %r" % (
                            cmd, narrow.__name__, wide.__name__, order, k, v2[k], v1[k]), dict(case.describe(), dtypes=[str(x.dtype) for x in case.inputs]))


def at_scale(ctx):
    """the arithmetic definitions on grids of 10^5 to some 10^6 cells (a body may take another route above some size: raw arrays instead of masked ones when
    nothing is missing, blocks, in-place accumulation).  Directed: A / B over a ladder of grids in which NOTHING is missing (no mask array at all, or a mask
    array holding False only - what a reader delivers) and B holds zeros, some beneath a zero of A: a zero divisor gives a missing cell, never an infinity,
    a NaN or an error, and every other cell is the quotient; then every other command once or twice at scale, integer and floating fields mixed,
    compared with the definition written in plain numpy (missing cells exactly, values to 1e-9, element type by the documented rule)"""
    rng = eems._rng2(ctx)
    seed = rng.randrange(2 ** 31)
    nr = numpy.random.RandomState(seed)

    def check(cmd, params, ins, shape, forms, dts):
        st, r = eems.execute_on(cmd, params, ins)
        ctx.case("at-scale %s %r %r %r %r" % (cmd, shape, forms, [d.__name__ for d in dts], sorted(params.items())), sample=None)
        ctx.count("c07_at_scale_cases")
        desc = {"cmd": cmd, "params": {k: repr(v) for k, v in params.items()}, "shape": list(shape), "fields": ["%s %s" % (d.__name__, f) for d, f in zip(dts, forms)],
                "values": "quarters between -2 and 2 / whole numbers between -3 and 3, zeros among them; numpy.random.RandomState(%d); forms: mask = masked array with missing cells, "
                          "nomask = masked array without a mask array, falsemask = masked array whose mask array holds False only" % seed,
                "first_cells": [repr(numpy.ma.getdata(a).ravel()[:6].tolist()) for a in ins]}
        if st != "ok":
            ctx.fail("%s on %d field(s) of %d cells fails with %s: %s" % (cmd, len(ins), ins[0].size, type(r).__name__, str(r)[:80]), desc)
            return
        ref = numeric.np_reference(cmd, params, ins)
        d = numeric.field_differs(r, ref) if ref is not None else None
        if d:
            ctx.fail("%s on %d field(s) of %d cells (%s): %s" % (cmd, len(ins), ins[0].size, ", ".join(desc["fields"]), d), desc)
            return
        want = reference.arith_dtype(cmd, params, ["i" if a.dtype.kind in "iu" else "f" for a in ins])
        if ("i" if r.dtype.kind in "iu" else "f") != want:
            ctx.fail("%s on fields of %d cells: result element type %s, expected %s for inputs %r" % (cmd, ins[0].size, r.dtype, want, [str(a.dtype) for a in ins]), desc)

    # the division ladder
    ladder = [((70000,), 3), ((1, 270000), 3), ((600, 500), 2), ((1100, 1000), 2), ((3, 1000, 1000), 1)]
    if ctx.thorough:
        ladder.append(((2600, 2000), 2))
    combos = [(float, float), (int, int), (int, float), (float, int)]
    for j, (shape, ncombo) in enumerate(ladder):
        for form in ("nomask", "falsemask"):
            for dts in [combos[(j + k) % 4] for k in range(ncombo)]:
                a = eems.big_field(nr, shape, form, 8 if dts[0] is float else 3, dts[0], zeros=0.02)
                form_b = form if rng.random() < 0.7 else ("nomask" if form == "falsemask" else "falsemask")
                b = eems.big_field(nr, shape, form_b, 8 if dts[1] is float else 3, dts[1], zeros=0.01)
                check("ADividedByB", {}, [a, b], shape, (form, form_b), dts)
    # every command at scale
    for shape in ((500, 600), (1200, 1000)):
        for form in ("mask", "nomask"):
            for cmd in eems.ARITH:
                how = eems.COMMANDS[cmd][1]
                n = 1 if how == "one" else 2 if how == "ab" else 3
                dts = [rng.choice([int, float]) for _ in range(n)]
                ins = [eems.big_field(nr, shape, form, 8 if dt is float else 3, dt, zeros=0.02) for dt in dts]
                params = {"Weights": [rng.choice([1, 2, 0.5, -1, 3, 0.25]) for _ in range(n)]} if "Weighted" in cmd else {}
                if cmd == "WeightedMean" and sum(params["Weights"]) == 0:
                    params["Weights"][0] += 1
                check(cmd, params, ins, shape, (form,) * n, dts)


def run(ctx):
    ctx.check_proofs(["MPilot.Props.C07", "MPilot.Props.C07Types"])
    model = common.Model()
    orc = numeric.combine(
        numeric.oracle_definition(ctx, reference.ARITH_OPS, "arithmetic", dtype_rule=reference.arith_dtype),
        numeric.oracle_commutative(ctx, COMMUTATIVE, max_perms=5 if not ctx.thorough else 23),
        numeric.oracle_shape_report(ctx))
    eems.run_stream(ctx, model, gen_types(ctx, 3 if not ctx.thorough else 5), "exec:arith:type-mixes", on_result=orc)
    eems.run_stream(ctx, model, gen_pairs(ctx), "exec:arith:pair-lattice", on_result=orc)
    eems.run_stream(ctx, model, gen_random(ctx, eems.ARITH, ctx.budget(20, 800), "valid"), "exec:arith:random", on_result=orc)
    eems.run_stream(ctx, model, gen_random(ctx, eems.ARITH, ctx.budget(8, 300), "wild"), "exec:arith:errors", on_result=orc)
    errors(ctx)
    unsigned(ctx)
    narrow_floats(ctx)
    at_scale(ctx)
    numeric.focus_search(ctx, model, lambda cmds, f: gen_random(ctx, cmds, 20 * f, "valid"), orc)
    return ctx.finish(
        rule="(a) every int/float mix of 1..3 (thorough: 5) inputs per command; (b) random 1-5 input cases over the lattice "
             "{-2..2 step 1/4} / {-3..5} with zeros, negatives, masks; (c) malformed (shapes, weight counts, empty); every "
             "commutative case re-run in other input orders; distinct by protocol line",
        explanation="theorems in Props/C07.lean hold for the model for all inputs; differential execution ties the 10 bodies to the "
                    "model; exact reference definitions, element-type rule, order-invariance and error oracles run on the implementation")


def replay(path):
    from .c04 import replay as r
    return r(path)
