"""Shared plumbing of the verification harness (see DESIGN.md section 2).

* scratch copy of /repo/mpilot (PLY may rewrite parsetab.py next to the grammar; never touch /repo)
* building the Lean project, auditing axioms, running the model driver over a batch of protocol lines
* collecting coverage, disagreements, oracle failures; known findings; evidence + verdict
"""
from __future__ import print_function

import atexit
import hashlib
import json
import os
import random
import re
import shutil
import subprocess
import sys
import tempfile
import time
from fractions import Fraction

VERIF = os.path.dirname(os.path.dirname(os.path.abspath(__file__)))
REPO = os.environ.get("MPILOT_REPO", "/repo")
LEAN = os.path.join(VERIF, "lean")
DRIVER = os.path.join(LEAN, ".lake", "build", "bin", "mpdriver")
STD_AXIOMS = {"propext", "Classical.choice", "Quot.sound"}
TOL = 1e-9
QUICK_FACTOR = 4     # the quick tier runs 4x the nominal per-stream budgets (each check stays well under a minute)

_scratch = None


def scratch_repo():
    """Copies /repo/mpilot to a scratch directory, puts it first on sys.path and returns the directory."""
    global _scratch
    if _scratch is None:
        _scratch = tempfile.mkdtemp(prefix="mpverif_")
        shutil.copytree(os.path.join(REPO, "mpilot"), os.path.join(_scratch, "mpilot"),
                        ignore=shutil.ignore_patterns("__pycache__", "*.pyc", "parser.out"))
        atexit.register(shutil.rmtree, _scratch, True)
        sys.path.insert(0, _scratch)
        for k in [k for k in sys.modules if k == "mpilot" or k.startswith("mpilot.")]:
            del sys.modules[k]
        import mpilot  # noqa
        assert os.path.dirname(os.path.dirname(mpilot.__file__)) == _scratch, mpilot.__file__
    return _scratch


def hash_sweep(script, seeds=(0, 1, 2, 3, 4, 5, 6, 7), cwd=None, timeout=300):
    """runs `script` (Python source printing one JSON value on its last line) in a fresh interpreter per hash seed (PYTHONHASHSEED), the scratch copy of
    the package first on its path; returns [(seed, value | None, stderr tail)].  What a model means does not depend on the iteration order of sets."""
    import subprocess
    out = []
    pre = "import sys\nsys.path.insert(0, %r)\n" % scratch_repo()
    for sd in seeds:
        p = subprocess.run([sys.executable, "-c", pre + script], stdout=subprocess.PIPE, stderr=subprocess.PIPE, universal_newlines=True, timeout=timeout, cwd=cwd,
                           env=dict(os.environ, PYTHONHASHSEED=str(sd)))
        try:
            val = json.loads(p.stdout.strip().split("\n")[-1]) if p.returncode == 0 else None
        except ValueError:
            val = None
        out.append((sd, val, p.stderr[-400:]))
    return out


def prior_activity(seed=0):
    """What an interpreter that has been in use looks like: other programs were parsed, loaded, built and run before the one under test.
    Every property is stated for any such history (C11, C16, C19, C20 say so explicitly), so every check starts from a used process:
    an EEMS 2.0 file parsed and loaded, one rejected with a syntax error after its first command, one rejected at load time, programs built
    over reduced and over the NetCDF library sets, a program run, parameter objects of the libraries exercised."""
    import contextlib, io, warnings
    from mpilot.program import Program, EEMS_CSV_LIBRARIES, EEMS_NETCDF_LIBRARIES
    from mpilot.parser.parser import Parser
    d = tempfile.mkdtemp(prefix="mpv_prior_")
    try:
        with open(os.path.join(d, "p.csv"), "w") as f:
            f.write("a,b\n1,2\n3,0\n")
        v2 = 'READ(InFileName = "p.csv", InFieldName = a)\nREAD(InFileName = "p.csv", InFieldName = b, NewFieldName = B2)\nCVTTOFUZZY(InFieldName = a, NewFieldName = Fz, OutFileName = "o.csv")\n'
        texts = [v2, v2 + "NOT(InFieldName = Fz, NewFieldName = Nf\n", v2 + "X = NoSuchCommand(A = 1)\n",
                 'A = EEMSRead(InFileName = "p.csv", InFieldName = a, MissingVal = 0)\nS = Sum(InFieldNames = [A, A])\n'
                 'F = CvtToFuzzy(InFieldName = S, TrueThreshold = 0, FalseThreshold = 8, Metadata = [Note: "x"])\nW = EEMSWrite(OutFileName = "w.csv", OutFieldNames = [A, F])\n']
        with warnings.catch_warnings(), contextlib.redirect_stdout(io.StringIO()):
            warnings.simplefilter("ignore")
            for libs in (("mpilot.libraries.eems.basic",), EEMS_NETCDF_LIBRARIES, EEMS_CSV_LIBRARIES):
                try:
                    Program(libraries=libs)
                except Exception:
                    pass
            shared = Parser()
            for t in texts:
                for parse in (shared.parse, lambda s: Parser().parse(s)):
                    try:
                        parse(t)
                    except Exception:
                        pass
                try:
                    p = Program.from_source(t, working_dir=d)
                    p.run()
                    p.to_string()
                except Exception:
                    pass
    finally:
        shutil.rmtree(d, True)


TMPDIRS = []


def tmpdir(prefix="mpv_"):
    d = tempfile.mkdtemp(prefix=prefix)
    atexit.register(shutil.rmtree, d, True)
    TMPDIRS.append(d)
    return d


def files_left_open():
    """files under the check's scratch directories that this process still holds open (after a garbage collection): data files, command files,
    datasets a command opened and did not close"""
    import gc
    gc.collect()
    left = []
    try:
        fds = os.listdir("/proc/self/fd")
    except OSError:
        return left
    for fd in fds:
        try:
            target = os.readlink("/proc/self/fd/" + fd)
        except OSError:
            continue
        if any(target.startswith(d + os.sep) for d in TMPDIRS):
            left.append(target)
    return sorted(left)


# ---------------------------------------------------------------- Lean side

class InfraError(Exception):
    """tooling problem (exit 2): never a verdict"""


def run(cmd, cwd=None, timeout=3600, input=None, env=None):
    p = subprocess.run(cmd, cwd=cwd, stdout=subprocess.PIPE, stderr=subprocess.STDOUT, timeout=timeout,
                       input=input, universal_newlines=True, env=env)
    return p.returncode, p.stdout


def lake_build(targets, clean=False):
    """Returns (ok, output).  A failure here is a broken proof obligation or model, not an infrastructure error,
    unless lake itself is missing."""
    if shutil.which("lake") is None:
        raise InfraError("lake not on PATH")
    if clean:
        shutil.rmtree(os.path.join(LEAN, ".lake", "build"), ignore_errors=True)
    rc, out = run(["lake", "build"] + list(targets), cwd=LEAN)
    return rc == 0, out


_FORBIDDEN = re.compile(r"\b(sorry|admit|native_decide|bv_decide|implemented_by|unsafe)\b|^\s*axiom\s|maxHeartbeats\s+0\b", re.M)


def strip_lean_comments(text):
    text = re.sub(r"/-.*?-/", "", text, flags=re.S)
    return re.sub(r"--.*", "", text)


def forbidden_tokens():
    """greps every .lean file of the project for constructs that would make a proof not a proof"""
    hits = []
    for root, _, files in os.walk(LEAN):
        if ".lake" in root:
            continue
        for f in files:
            if f.endswith(".lean"):
                p = os.path.join(root, f)
                body = strip_lean_comments(open(p).read())
                for m in _FORBIDDEN.finditer(body):
                    hits.append("%s: %s" % (os.path.relpath(p, LEAN), m.group(0).strip()))
    return hits


def theorems_of(module_path):
    """names of the theorems declared in a Props file (namespace-qualified)"""
    text = strip_lean_comments(open(module_path).read())
    ns = []
    names = []
    for line in text.split("\n"):
        m = re.match(r"\s*namespace\s+(\S+)", line)
        if m:
            ns.append(m.group(1)); continue
        m = re.match(r"\s*end\s+(\S+)", line)
        if m and ns and ns[-1] == m.group(1):
            ns.pop(); continue
        m = re.match(r"\s*(?:private\s+|protected\s+)?theorem\s+(\S+)", line)
        if m:
            names.append(".".join(ns + [m.group(1)]))
    return names


def audit_axioms(prop_modules):
    """`#print axioms` for every theorem in the given Props modules.
    Returns {theorem: sorted axiom list} ; raises InfraError if lean cannot run the audit file."""
    thms = []
    for mod in prop_modules:
        path = os.path.join(LEAN, *mod.split(".")) + ".lean"
        thms += theorems_of(path)
    src = "".join("import %s\n" % m for m in prop_modules) + "".join("#print axioms %s\n" % t for t in thms)
    d = tmpdir("mpv_audit_")
    f = os.path.join(d, "Audit.lean")
    open(f, "w").write(src)
    rc, out = run(["lake", "env", "lean", f], cwd=LEAN)
    res = {}
    # output: "'name' depends on axioms: [a, b]"  or "'name' does not depend on any axioms"
    for m in re.finditer(r"'(\S+)' depends on axioms: \[([^\]]*)\]", out, flags=re.S):
        res[m.group(1)] = sorted(a.strip() for a in m.group(2).replace("\n", " ").split(",") if a.strip())
    for m in re.finditer(r"'(\S+)' does not depend on any axioms", out):
        res[m.group(1)] = []
    missing = [t for t in thms if t not in res]
    return thms, res, missing, out


class Model(object):
    """batch interface to the compiled model driver"""

    def __init__(self):
        if not os.path.exists(DRIVER):
            raise InfraError("model driver not built: " + DRIVER)

    def ask(self, lines):
        if not lines:
            return []
        data = "\n".join(lines) + "\n"
        p = subprocess.run([DRIVER], input=data, stdout=subprocess.PIPE, stderr=subprocess.PIPE,
                           universal_newlines=True, timeout=3600)
        out = p.stdout.split("\n")
        if out and out[-1] == "":
            out.pop()
        if p.returncode != 0 or len(out) != len(lines):
            raise InfraError("model driver failed (rc=%s, %d answers for %d lines): %s" % (
                p.returncode, len(out), len(lines), p.stderr[-2000:]))
        return out


# ---------------------------------------------------------------- encoding

def enc_rat(x):
    f = Fraction(x)
    return str(f.numerator) if f.denominator == 1 else "%d/%d" % (f.numerator, f.denominator)


def enc_num(x):
    """a cleaned Python number"""
    if isinstance(x, bool):
        x = int(x)
    return enc_rat(x) + (":i" if isinstance(x, int) else ":f")


def enc_nums(xs):
    return ",".join(enc_num(x) for x in xs)


def enc_str(s):
    return "".join("%06x" % ord(c) for c in s) or "-"


def dec_str(h):
    return "" if h == "-" else "".join(chr(int(h[i:i + 6], 16)) for i in range(0, len(h), 6))


class NonFinite(ValueError):
    """an input outside the model's domain (the properties quantify over finite inputs)"""


def enc_arr(a):
    """numpy (masked) array -> protocol text, hidden payloads included"""
    import numpy
    data = numpy.ma.getdata(a)
    mask = numpy.ma.getmaskarray(a)
    dt = "i" if data.dtype.kind in "iu" else "f"
    cells = []
    for v, m in zip(data.ravel().tolist(), mask.ravel().tolist()):
        if isinstance(v, float) and (v != v or v in (float("inf"), float("-inf"))):
            if not m:
                raise NonFinite("non-finite visible cell")
            v = 0.0          # a non-finite number hidden beneath a missing cell: the model holds finite rationals only
        cells.append("%s:%d" % (enc_rat(v), 1 if m else 0))
    return "%s|%s|%s" % (dt, "x".join(str(n) for n in data.shape), ",".join(cells))


def vis_arr(a):
    """canonical visible form of an implementation result: (kind, dtype, shape, [Fraction|None])"""
    import numpy
    kind = "masked" if isinstance(a, numpy.ma.MaskedArray) else ("plain" if isinstance(a, numpy.ndarray) else type(a).__name__)
    if kind not in ("masked", "plain"):
        return (kind, None, None, None)
    data = numpy.ma.getdata(a)
    mask = numpy.ma.getmaskarray(a)
    dt = "i" if data.dtype.kind in "iu" else ("f" if data.dtype.kind == "f" else data.dtype.kind)
    vals = [None if m else v for v, m in zip(data.ravel().tolist(), mask.ravel().tolist())]
    return (kind, dt, tuple(data.shape), vals)


def parse_model_arr(s):
    dt, sh, cs = s.split("|")
    shape = tuple(int(x) for x in sh.split("x")) if sh else ()
    vals = [None if c == "_" else Fraction(c) for c in cs.split(",")] if cs else []
    return (dt, shape, vals)


def close(impl, model, tol=TOL):
    """impl: float/int, model: Fraction"""
    import math
    if impl is None or model is None:
        return impl is None and model is None
    if isinstance(impl, float) and (math.isnan(impl) or math.isinf(impl)):
        return False
    m = float(model)
    return abs(float(impl) - m) <= tol * max(1.0, abs(m))


def same_vis(vis, model, tol=TOL):
    """compare implementation visible form with model array; returns None or a description of the difference"""
    kind, dt, shape, vals = vis
    mdt, mshape, mvals = model
    if kind != "masked":
        return "result kind %s (model: masked array)" % kind
    if dt != mdt:
        return "element type %s (model %s)" % (dt, mdt)
    if shape != mshape:
        return "shape %r (model %r)" % (shape, mshape)
    if len(vals) != len(mvals):
        return "size %d (model %d)" % (len(vals), len(mvals))
    for i, (a, b) in enumerate(zip(vals, mvals)):
        if (a is None) != (b is None):
            return "cell %d: %s (model %s)" % (i, "missing" if a is None else repr(a), "missing" if b is None else str(b))
        if a is not None and not close(a, b, tol):
            return "cell %d: %r (model %s = %r)" % (i, a, b, float(b))
    return None


# ---------------------------------------------------------------- known findings

def load_known_findings():
    p = os.path.join(VERIF, "known_findings.json")
    if not os.path.exists(p):
        return {"findings": [], "fixed": []}
    return json.load(open(p))


# ---------------------------------------------------------------- check context

class Ctx(object):
    """Collects what one run of one check covered and decides the verdict."""

    def __init__(self, prop, tier, seed):
        self.prop = prop
        self.tier = tier
        self.seed = seed
        self.rng = random.Random(("%s-%s" % (prop, seed)))
        self.t0 = time.time()
        self.evaluations = 0
        self.distinct = set()
        self.samples = []
        self.dist = {}                 # distribution counters
        self.disagreements = []        # correspondence: [(stream, case, impl, model)]
        self.failures = []             # oracle failures on the implementation: [(what, case)]
        self.broken = []               # broken proof obligations: [(name, detail)]
        self.known_hits = {}           # finding id -> description
        self.obligations = []
        self.discharged = []
        self.assumptions = []
        self.trusted = []
        self.notes = {}
        self.thorough = tier == "thorough"
        self.known = [f for f in load_known_findings().get("findings", []) if f.get("property") == prop]

    # -- bookkeeping
    def count(self, key, n=1):
        self.dist[key] = self.dist.get(key, 0) + n

    def case(self, canonical, nontrivial=True, sample=None):
        self.evaluations += 1
        if nontrivial:
            self.distinct.add(hashlib.sha1(canonical.encode("utf-8", "backslashreplace")).hexdigest()[:16])
        if sample is not None and (len(self.samples) < 6 or (len(self.samples) < 12 and self.rng.random() < 0.01)):
            self.samples.append(sample)

    def budget(self, quick, thorough):
        scale = float(os.environ.get("VERIF_SCALE", "1"))
        return int((thorough if self.thorough else quick * QUICK_FACTOR) * scale)

    def disagree(self, stream, case, impl, model):
        self.disagreements.append({"stream": stream, "case": case, "impl": impl, "model": model})

    def fail(self, what, case, finding=None):
        """an oracle failure on the real code; `finding` = id of a listed known finding it matches"""
        if finding is not None and any(f["id"] == finding for f in self.known):
            self.known_hits.setdefault(finding, what)
            return
        self.failures.append({"what": what, "case": case})

    # -- proof side
    def check_proofs(self, prop_modules, extra_targets=()):
        """build the Lean project (model, generated tables, the property's theorems), audit axioms"""
        # tie no. 1: the tables of the source are re-translated to Lean before anything is built
        try:
            from . import translate
            changed = translate.write(translate.generate())
            self.notes["generated_tables_rewritten"] = changed
        except Exception as e:      # a source change the translator cannot read is a broken obligation, not a crash
            self.broken.append(("translate", "%s: %s" % (type(e).__name__, e)))
        hits = forbidden_tokens()
        for h in hits:
            self.broken.append(("forbidden construct", h))
        ok, out = lake_build(["mpdriver"] + ["+" + m for m in prop_modules] + list(extra_targets), clean=False)
        self.notes["lake_build_ok"] = ok
        if not ok:
            errs = [l for l in out.split("\n") if "error" in l][:20]
            self.broken.append(("lake build", "\n".join(errs) or out[-2000:]))
            return False
        thms, res, missing, out = audit_axioms(prop_modules)
        for t in thms:
            self.obligations.append(t)
            if t in res and set(res[t]) <= STD_AXIOMS:
                self.discharged.append(t)
            else:
                self.broken.append(("axiom audit", "%s: %s" % (t, res.get(t, "no audit output"))))
        self.notes["axioms"] = {t: res.get(t) for t in thms}
        if self.thorough and shutil.which("leanchecker"):
            # independent re-check of the compiled proof terms by the toolchain's kernel re-checker
            rc, out = run(["lake", "env", "leanchecker"] + list(prop_modules), cwd=LEAN, timeout=3600)
            self.notes["leanchecker"] = {"rc": rc, "output": out.strip()[-400:]}
            if rc != 0:
                self.broken.append(("leanchecker", out.strip()[-800:]))
        return not self.broken

    # -- verdict
    def finish(self, level="proof", rule="", explanation="", checker_cmd=None):
        # every file a command opened is closed again by the time its run is over (a reader that leaves its table open makes the hundredth model of
        # a process fail, and keeps a table from being rewritten on some systems): nothing under the scratch directories is still open
        left = files_left_open()
        self.count("scratch_files_still_open", len(left))
        if left:
            self.fail("%d file(s) opened while models ran were never closed: %s" % (len(left), ", ".join(os.path.basename(x) for x in left[:5])), {"files": left[:20]})
        os.makedirs(os.path.join(VERIF, "evidence"), exist_ok=True)
        os.makedirs(os.path.join(VERIF, "replays"), exist_ok=True)
        violations = []
        replay = None
        if self.failures:
            replay = self._write_replay({"property": self.prop, "kind": "failing-input", "seed": self.seed,
                                         "failures": self.failures[:5],
                                         "broken_obligations": [list(b) for b in self.broken[:5]],
                                         "disagreements": self.disagreements[:5]})
            violations.append("VIOLATION property=%s replay=%s" % (self.prop, replay))
        elif self.broken or self.disagreements:
            replay = self._write_replay({"property": self.prop, "kind": "no-failing-input-found", "seed": self.seed,
                                         "broken_obligations": [list(b) for b in self.broken[:10]],
                                         "disagreements": self.disagreements[:10],
                                         "note": "the theorem(s) / correspondence stream(s) named here no longer check; "
                                                 "the failing-input search over the implementation found no input on which the property fails"})
            violations.append("VIOLATION property=%s replay=%s no-failing-input-found" % (self.prop, replay))
        cov = {
            "obligations": len(self.obligations),
            "discharged": len(self.discharged),
            "checker_cmd": checker_cmd or "cd lean && lake build MPilot.Props.%s && lake env lean <generated #print axioms file>" % self.prop,
            "trusted_base": self.trusted or DEFAULT_TRUSTED,
            "theorems": self.obligations,
            "evaluations": self.evaluations,
            "distinct_nontrivial": len(self.distinct),
            "rule": rule,
            "samples": self.samples[:12],
            "programs": self.evaluations,
            "disagreements_checked": self.evaluations,
            "disagreements": len(self.disagreements),
            "oracle_failures": len(self.failures),
            "broken_obligations": len(self.broken),
            "distribution": dict(sorted(self.dist.items())),
            "known_findings_reproduced": sorted(self.known_hits),
            "explanation": explanation,
            "exhaustive": False,
        }
        cov.update(self.notes)
        ev = {"property_id": self.prop, "tier": self.tier, "seed": self.seed, "level": level, "coverage": cov,
              "assumptions": self.assumptions, "wall_s": round(time.time() - self.t0, 2), "violations": len(violations)}
        with open(os.path.join(VERIF, "evidence", self.prop + ".json"), "w") as f:
            json.dump(ev, f, indent=1, sort_keys=True, default=str)
        for fid, what in sorted(self.known_hits.items()):
            print("KNOWN-FINDING: property=%s %s: %s" % (self.prop, fid, what))
        for v in violations:
            print(v)
        print("%s %s seed=%s: %d theorems (%d discharged), %d cases (%d distinct non-trivial), %d disagreements, %d oracle failures, %.1fs" % (
            self.prop, self.tier, self.seed, len(self.obligations), len(self.discharged), self.evaluations, len(self.distinct),
            len(self.disagreements), len(self.failures), time.time() - self.t0))
        return 1 if violations else 0

    def _write_replay(self, obj):
        h = hashlib.sha1(json.dumps(obj, sort_keys=True, default=str).encode()).hexdigest()[:10]
        rel = os.path.join("replays", "%s-%s.json" % (self.prop, h))
        with open(os.path.join(VERIF, rel), "w") as f:
            json.dump(obj, f, indent=1, sort_keys=True, default=str)
        return rel


DEFAULT_TRUSTED = [
    "Lean 4.33.0 kernel; axioms propext, Classical.choice, Quot.sound only (audited by #print axioms on every run)",
    "Mathlib v4.33.0 lemmas (checked by the same kernel), proof files only",
    "harness/translate.py (registry/tables -> Generated/*.lean) and the correspondence harness (generators, canonicaliser, tolerance 1e-9)",
    "modelled, not verified: numpy/numpy.ma 1.26.4 primitives, PLY 3.11, CPython int()/float()/repr()/csv/os.path, netCDF4",
]
