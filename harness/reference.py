"""Exact (Fraction) reference definitions used by the property oracles on the implementation.
Independent of numpy and of the Lean model: written from the property statements / EEMS documentation.
Cells are Fraction or None (missing)."""
from fractions import Fraction


def col_missing(col):
    return any(v is None for v in col)


def cellwise(f, arrays):
    """arrays: list of equal-length lists; f: list of Fractions -> Fraction or None"""
    out = []
    for col in zip(*arrays):
        out.append(None if col_missing(col) else f(list(col)))
    return out


def mean(xs):
    return sum(xs) / len(xs)


def wmean(ws):
    def f(col):
        s = sum(ws)
        return None if s == 0 else sum(w * x for w, x in zip(ws, col)) / s
    return f


def clamp(x, lo=Fraction(-1), hi=Fraction(1)):
    return max(lo, min(hi, x))


def fuzzy_xor(col):
    s = sorted(col)
    t1, t2 = s[-1], s[-2]
    if t1 <= -1:
        return Fraction(-1)
    return t1 - (t1 - t2) * (t2 + 1) / (t1 + 1)


def selected(k, truest):
    def f(col):
        s = sorted(col)
        sel = s[-k:] if truest else s[:k]
        return mean(sel)
    return f


FUZZY_OPS = {
    "FuzzyOr": lambda p: max,
    "FuzzyAnd": lambda p: min,
    "FuzzyUnion": lambda p: mean,
    "FuzzyXOr": lambda p: fuzzy_xor,
    "FuzzyWeightedUnion": lambda p: wmean([Fraction(w) for w in p["Weights"]]),
    "FuzzySelectedUnion": lambda p: selected(p["NumberToConsider"], p["TruestOrFalsest"] == "Truest"),
    "FuzzyNot": lambda p: (lambda col: -col[0]),
}


def prod(col):
    r = Fraction(1)
    for x in col:
        r *= x
    return r


ARITH_OPS = {
    "Sum": lambda p: sum,
    "Multiply": lambda p: prod,
    "Minimum": lambda p: min,
    "Maximum": lambda p: max,
    "Mean": lambda p: mean,
    "AMinusB": lambda p: (lambda col: col[0] - col[1]),
    "ADividedByB": lambda p: (lambda col: None if col[1] == 0 else col[0] / col[1]),
    "WeightedSum": lambda p: (lambda col: sum(Fraction(w) * x for w, x in zip(p["Weights"], col))),
    "WeightedMean": lambda p: wmean([Fraction(w) for w in p["Weights"]]),
    "Copy": lambda p: (lambda col: col[0]),
}


def arith_dtype(cmd, params, dtypes):
    """documented element type of the result: integer only when nothing forces a fraction"""
    all_int = all(d == "i" for d in dtypes)
    if cmd in ("Sum", "Multiply", "Minimum", "Maximum", "AMinusB", "Copy"):
        return "i" if all_int else "f"
    if cmd == "WeightedSum":
        return "i" if all_int and all(isinstance(w, int) for w in params["Weights"]) else "f"
    return "f"


def lin(x, x1, x2, y1, y2):
    """straight line through (x1,y1), (x2,y2)"""
    return (x - x1) * (y2 - y1) / (x2 - x1) + y1


def curve(points):
    """piecewise-linear curve through control points (any listing order), flat outside"""
    pts = sorted(points)

    def f(x):
        if x <= pts[0][0]:
            return pts[0][1]
        if x > pts[-1][0]:
            return pts[-1][1]
        for (x0, y0), (x1, y1) in zip(pts, pts[1:]):
            if x0 < x <= x1:
                return lin(x, x0, x1, y0, y1)
        return pts[-1][1]
    return f
